//! Engine M: a rustc_private driver that dumps resolved call edges, assert terminators and a few
//! operations of interest from the MIR of every function of the workspace crates. It only reads the
//! type-checked program; nothing of the subject is executed.
#![feature(rustc_private)]

extern crate rustc_driver;
extern crate rustc_hir;
extern crate rustc_interface;
extern crate rustc_middle;
extern crate rustc_span;

use rustc_hir::def::DefKind;
use rustc_middle::mir::{Operand, Rvalue, StatementKind, TerminatorKind};
use rustc_middle::ty::{self, Instance, TyCtxt, TypingEnv};
use std::fmt::Write as _;

struct Cb;

impl rustc_driver::Callbacks for Cb {
    fn after_analysis<'tcx>(&mut self, _c: &rustc_interface::interface::Compiler, tcx: TyCtxt<'tcx>) -> rustc_driver::Compilation {
        analyse(tcx);
        rustc_driver::Compilation::Continue
    }
}

fn loc(tcx: TyCtxt<'_>, span: rustc_span::Span) -> String {
    let sm = tcx.sess.source_map();
    // attribute spans inside macro expansions to the outermost call site
    let sp = span.source_callsite();
    let lo = sm.lookup_char_pos(sp.lo());
    let file = match &lo.file.name {
        rustc_span::FileName::Real(r) => r.local_path().map(|p| p.display().to_string()).unwrap_or_else(|| format!("{:?}", r)),
        other => format!("{:?}", other),
    };
    format!("{}:{}:{}", file, lo.line, lo.col.0 + 1)
}

/// names of the macros whose expansion produced `span`, outermost last (e.g. "panic>assert>debug_assert")
fn macro_chain(span: rustc_span::Span) -> String {
    let names: Vec<String> = span
        .macro_backtrace()
        .filter_map(|d| match d.kind {
            rustc_span::ExpnKind::Macro(_, name) => Some(name.to_string()),
            _ => None,
        })
        .collect();
    names.join(">")
}

fn analyse(tcx: TyCtxt<'_>) {
    let krate = tcx.crate_name(rustc_hir::def_id::LOCAL_CRATE).to_string();
    let Ok(out_dir) = std::env::var("MIRFACTS_OUT") else { return };
    if !krate.starts_with("rustpython") {
        return;
    }
    let mut out = String::new();
    for did in tcx.hir_body_owners() {
        let kind = tcx.def_kind(did);
        if !matches!(kind, DefKind::Fn | DefKind::AssocFn | DefKind::Closure) {
            continue;
        }
        let def_id = did.to_def_id();
        let name = tcx.def_path_str(def_id);
        let body = tcx.optimized_mir(def_id);
        let typing_env = TypingEnv::post_analysis(tcx, def_id);
        let vis = if matches!(kind, DefKind::Fn | DefKind::AssocFn) { format!("{:?}", tcx.visibility(def_id)) } else { "closure".to_string() };
        let _ = writeln!(out, "FN\t{}\t{}\t{}", name, loc(tcx, body.span), vis.replace('\t', " "));
        for bb in body.basic_blocks.iter() {
            for st in &bb.statements {
                if let StatementKind::Assign(b) = &st.kind {
                    let (_, rv) = &**b;
                    match rv {
                        Rvalue::BinaryOp(op, ops) => {
                            let (l, _r) = &**ops;
                            let lty = l.ty(&body.local_decls, tcx);
                            let _ = writeln!(out, "BINOP\t{}\t{:?}\t{}\t{}\t{}", name, op, lty, loc(tcx, st.source_info.span), st.source_info.span.from_expansion());
                        }
                        Rvalue::Cast(kind, op, ty) => {
                            let from = op.ty(&body.local_decls, tcx);
                            if from.is_integral() && ty.is_integral() {
                                let _ = writeln!(out, "CAST\t{}\t{:?}\t{}\t{}\t{}\t{}", name, kind, from, ty, loc(tcx, st.source_info.span), st.source_info.span.from_expansion());
                            }
                        }
                        _ => {}
                    }
                }
            }
            let Some(term) = &bb.terminator else { continue };
            match &term.kind {
                TerminatorKind::Call { func, fn_span, destination, .. } => {
                    // VALUSE: how a freshly produced TextSize/TextRange value is consumed (value flow through plain
                    // copies/moves of whole locals inside this body)
                    let dty = destination.ty(&body.local_decls, tcx).ty.to_string();
                    if (dty.ends_with("TextSize") || dty.ends_with("TextRange")) && destination.projection.is_empty() {
                        if let ty::FnDef(callee, substs) = func.ty(&body.local_decls, tcx).kind() {
                            let rid = match Instance::try_resolve(tcx, typing_env, *callee, substs) {
                                Ok(Some(inst)) => inst.def_id(),
                                _ => *callee,
                            };
                            let uses = value_uses(tcx, body, typing_env, destination.local);
                            let _ = writeln!(out, "VALUSE\t{}\t{}\t{}\t{}\t{}", name, tcx.def_path_str(rid), uses.join(";"), loc(tcx, *fn_span), fn_span.from_expansion());
                        }
                    }
                    let fty = func.ty(&body.local_decls, tcx);
                    if let ty::FnDef(callee, substs) = fty.kind() {
                        let (rid, rsub, resolved) = match Instance::try_resolve(tcx, typing_env, *callee, substs) {
                            Ok(Some(inst)) => (inst.def_id(), inst.args, true),
                            _ => (*callee, *substs, false),
                        };
                        let callee_name = tcx.def_path_str(rid);
                        let subs = format!("{:?}", rsub).replace('\t', " ").replace('\n', " ");
                        let _ = writeln!(out, "CALL\t{}\t{}\t{}\t{}\t{}\t{}\t{}", name, callee_name, subs, loc(tcx, *fn_span), fn_span.from_expansion(), resolved, macro_chain(*fn_span));
                    } else if let Operand::Copy(_) | Operand::Move(_) = func {
                        let _ = writeln!(out, "CALLIND\t{}\t{}\t{}", name, fty, loc(tcx, *fn_span));
                    }
                }
                TerminatorKind::Assert { msg, .. } => {
                    let k = format!("{:?}", msg);
                    let kind: String = k.chars().take_while(|c| c.is_alphanumeric()).collect();
                    let detail: String = k.chars().take(60).collect::<String>().replace('\t', " ").replace('\n', " ");
                    let _ = writeln!(out, "ASSERT\t{}\t{}\t{}\t{}\t{}\t{}", name, kind, detail, loc(tcx, term.source_info.span), term.source_info.span.from_expansion(), macro_chain(term.source_info.span));
                }
                _ => {}
            }
        }
    }
    let path = std::path::Path::new(&out_dir).join(format!("{}-{}.facts", krate, std::process::id()));
    let _ = std::fs::write(path, out);
}

/// Consumers of the value in `start` (followed through whole-local copies/moves): "call:<callee>#<arg index>",
/// "return", "aggregate:<ty>", "field-store", "other:<rvalue kind>".
fn value_uses<'tcx>(tcx: TyCtxt<'tcx>, body: &rustc_middle::mir::Body<'tcx>, typing_env: TypingEnv<'tcx>, start: rustc_middle::mir::Local) -> Vec<String> {
    use rustc_middle::mir::Local;
    let mut set: std::collections::BTreeSet<Local> = [start].into_iter().collect();
    let op_local = |o: &Operand<'tcx>| -> Option<Local> {
        match o {
            Operand::Copy(p) | Operand::Move(p) if p.projection.is_empty() => Some(p.local),
            _ => None,
        }
    };
    loop {
        let mut changed = false;
        for bb in body.basic_blocks.iter() {
            for st in &bb.statements {
                if let StatementKind::Assign(b) = &st.kind {
                    let (place, rv) = &**b;
                    if !place.projection.is_empty() {
                        continue;
                    }
                    let src = match rv {
                        Rvalue::Use(o, ..) => op_local(o),
                        _ => None,
                    };
                    if let Some(s) = src {
                        if set.contains(&s) && set.insert(place.local) {
                            changed = true;
                        }
                    }
                }
            }
        }
        if !changed {
            break;
        }
    }
    let mut uses: std::collections::BTreeSet<String> = Default::default();
    if set.contains(&rustc_middle::mir::RETURN_PLACE) {
        uses.insert("return".into());
    }
    for bb in body.basic_blocks.iter() {
        for st in &bb.statements {
            if let StatementKind::Assign(b) = &st.kind {
                let (place, rv) = &**b;
                let mut ops: Vec<&Operand<'tcx>> = vec![];
                let kind = match rv {
                    Rvalue::Use(o, ..) => {
                        ops.push(o);
                        if place.projection.is_empty() { "" } else { "field-store" }
                    }
                    Rvalue::Aggregate(_, fields) => {
                        for f in fields.iter() {
                            ops.push(f);
                        }
                        "aggregate"
                    }
                    Rvalue::BinaryOp(_, pair) => {
                        ops.push(&pair.0);
                        ops.push(&pair.1);
                        "other:binop"
                    }
                    Rvalue::Cast(_, o, _) => {
                        ops.push(o);
                        "other:cast"
                    }
                    Rvalue::Ref(_, _, p) => {
                        if p.projection.is_empty() && set.contains(&p.local) {
                            uses.insert("other:ref".into());
                        }
                        ""
                    }
                    _ => "",
                };
                if kind.is_empty() {
                    continue;
                }
                if ops.iter().any(|o| op_local(o).map_or(false, |l| set.contains(&l))) {
                    if kind == "aggregate" {
                        uses.insert(format!("aggregate:{}", place.ty(&body.local_decls, tcx).ty));
                    } else {
                        uses.insert(kind.to_string());
                    }
                }
            }
        }
        if let Some(term) = &bb.terminator {
            if let TerminatorKind::Call { func, args, .. } = &term.kind {
                for (i, a) in args.iter().enumerate() {
                    if op_local(&a.node).map_or(false, |l| set.contains(&l)) {
                        let cname = if let ty::FnDef(callee, substs) = func.ty(&body.local_decls, tcx).kind() {
                            match Instance::try_resolve(tcx, typing_env, *callee, substs) {
                                Ok(Some(inst)) => tcx.def_path_str(inst.def_id()),
                                _ => tcx.def_path_str(*callee),
                            }
                        } else {
                            "<indirect>".to_string()
                        };
                        let fsp = if let TerminatorKind::Call { fn_span, .. } = &term.kind { loc(tcx, *fn_span) } else { String::new() };
                        uses.insert(format!("call:{}#{}@{}", cname, i, fsp));
                    }
                }
            }
        }
    }
    uses.into_iter().map(|u| u.replace('\t', " ").replace(';', ",")).collect()
}

fn main() {
    let mut args: Vec<String> = std::env::args().collect();
    // invoked as RUSTC_WORKSPACE_WRAPPER: argv = [wrapper, rustc, args...]
    if args.len() > 1 && (args[1].ends_with("rustc") || args[1].contains("/rustc")) {
        args.remove(1);
    }
    rustc_driver::run_compiler(&args, &mut Cb);
}
