#!/bin/bash
# Development aid: independently confirm seeded mutants (compiles, test suite green, demo fails with / passes without).
# usage: [VM_DIR=/tmp/vmK] verify_mutants.sh <results-dir> <id/n>...   ; writes <results-dir>/<id>/<n>/verify.json
# (VM_DIR: scratch worktree + target dir, one per parallel invocation)
set -u
RES="$1"; shift
VM="${VM_DIR:-/tmp/vm}"
WT=$VM/wt
export CARGO_NET_OFFLINE=true
mkdir -p "$VM"
if [ ! -d "$WT" ]; then git -C /repo worktree add -q --detach "$WT" HEAD; cp /repo/Cargo.lock "$WT/"; fi
git -C "$WT" checkout -q --detach "$(git -C /repo rev-parse HEAD)"
export CARGO_TARGET_DIR=$VM/target
for m in "$@"; do
  d="$RES/$m"
  git -C "$WT" checkout -q -- . ; git -C "$WT" clean -fdq -e Cargo.lock
  bash "$d/run_demo.sh" "$WT" >"$d/verify_clean.log" 2>&1; clean=$?
  if ! git -C "$WT" apply "$d/patch.diff"; then echo "{\"mutant\":\"$m\",\"applies\":false}" > "$d/verify.json"; echo "$m: patch does not apply"; continue; fi
  (cd "$WT" && cargo test --workspace --no-fail-fast --offline >"$d/verify_tests.log" 2>&1); tests=$?
  passed=$(grep -E "^test result" "$d/verify_tests.log" | awk '{s+=$4} END {print s+0}')
  failed=$(grep -E "^test result" "$d/verify_tests.log" | awk '{s+=$6} END {print s+0}')
  bash "$d/run_demo.sh" "$WT" >"$d/verify_patched.log" 2>&1; patched=$?
  git -C "$WT" checkout -q -- . ; git -C "$WT" clean -fdq -e Cargo.lock
  echo "{\"mutant\":\"$m\",\"applies\":true,\"demo_clean_exit\":$clean,\"tests_exit\":$tests,\"tests_passed\":$passed,\"tests_failed\":$failed,\"demo_patched_exit\":$patched}" > "$d/verify.json"
  echo "$m: clean=$clean tests=$tests($passed/$failed) patched=$patched"
done
