#!/usr/bin/env python3
"""Copy independently verified mutants from a results dir into /verif/seeded/<id>-<n>/ (patch.diff, demo/, run_demo.sh, meta.json)."""
import sys, os, json, shutil
res = sys.argv[1]
for m in sys.argv[2:]:
    d = os.path.join(res, m)
    v = json.load(open(os.path.join(d, 'verify.json')))
    ok = v.get('applies') and v['demo_clean_exit'] == 0 and v['tests_exit'] == 0 and v['tests_failed'] == 0 and v['demo_patched_exit'] != 0
    if not ok:
        print('NOT VERIFIED', m, v); continue
    dst = os.path.join('/verif/seeded', m.replace('/', '-'))
    os.makedirs(dst, exist_ok=True)
    src_patch = os.path.join(d, 'patch.diff')
    if os.path.getsize(src_patch) > 200_000:
        # whole regenerated python.rs: stored compressed
        import gzip
        with open(src_patch, 'rb') as fi, gzip.open(os.path.join(dst, 'patch.diff.gz'), 'wb', 9) as fo:
            fo.write(fi.read())
    else:
        shutil.copy(src_patch, dst)
    shutil.copy(os.path.join(d, 'run_demo.sh'), dst)
    if os.path.exists(os.path.join(dst, 'demo')): shutil.rmtree(os.path.join(dst, 'demo'))
    shutil.copytree(os.path.join(d, 'demo'), os.path.join(dst, 'demo'), ignore=shutil.ignore_patterns('target', 'Cargo.lock'))
    meta = json.load(open(os.path.join(d, 'meta.json')))
    meta['independently_verified'] = {
        'by': 'tools/verify_mutants.sh in a scratch git worktree of /repo (removed afterwards)',
        'demo_exit_on_clean_tree': v['demo_clean_exit'],
        'test_suite_with_patch': f"cargo test --workspace --no-fail-fast --offline: exit {v['tests_exit']}, {v['tests_passed']} passed, {v['tests_failed']} failed",
        'demo_exit_with_patch': v['demo_patched_exit'],
    }
    json.dump(meta, open(os.path.join(dst, 'meta.json'), 'w'), indent=1)
    print('imported', m)
