//! Extraction of code-level tables (keyword map, Tok enum, Tok Display, grammar extern block, refdata).

use crate::grammar::Grammar;
use crate::srcmodel::{self as sm, Src};
use serde_json::Value;
use std::collections::BTreeMap;
use std::path::Path;

pub fn refdata(verif: &Path, name: &str) -> Result<Value, String> {
    let p = verif.join("refdata").join(name);
    let t = std::fs::read_to_string(&p).map_err(|e| format!("{}: {}", p.display(), e))?;
    serde_json::from_str(&t).map_err(|e| format!("{}: {}", p.display(), e))
}

pub fn str_map(v: &Value) -> BTreeMap<String, String> {
    v.as_object()
        .map(|o| o.iter().map(|(k, v)| (k.clone(), v.as_str().unwrap_or("").to_string())).collect())
        .unwrap_or_default()
}

pub fn lit_str(e: &syn::Expr) -> Option<String> {
    if let syn::Expr::Lit(l) = e {
        if let syn::Lit::Str(s) = &l.lit {
            return Some(s.value());
        }
    }
    None
}
pub fn lit_char(e: &syn::Expr) -> Option<char> {
    if let syn::Expr::Lit(l) = e {
        if let syn::Lit::Char(s) = &l.lit {
            return Some(s.value());
        }
    }
    None
}
pub fn lit_int(e: &syn::Expr) -> Option<u64> {
    if let syn::Expr::Lit(l) = e {
        if let syn::Lit::Int(s) = &l.lit {
            return s.base10_parse().ok();
        }
    }
    None
}

/// build.rs gen_phf: (keyword spelling, Tok variant)
pub fn keyword_entries(build: &Src) -> Vec<(String, String)> {
    let mut out = vec![];
    for f in build.free_fns("gen_phf") {
        sm::for_each_expr_in_block(&f.block, |e| {
            if let syn::Expr::MethodCall(mc) = e {
                if mc.method == "entry" && mc.args.len() == 2 {
                    if let (Some(k), Some(v)) = (lit_str(&mc.args[0]), lit_str(&mc.args[1])) {
                        out.push((k, v.trim_start_matches("Tok::").to_string()));
                    }
                }
            }
        });
    }
    out.reverse(); // method chains are visited outermost first
    out
}

/// enum Tok: (variant, cfg feature if gated, has payload)
pub fn tok_variants(token: &Src) -> Vec<(String, Option<String>, bool)> {
    let mut out = vec![];
    if let Some(e) = token.enum_named("Tok") {
        for v in &e.variants {
            let cfg = sm::cfg_features(&v.attrs).into_iter().next().map(|(f, _)| f);
            out.push((v.ident.to_string(), cfg, !matches!(v.fields, syn::Fields::Unit)));
        }
    }
    out
}

/// impl Display for Tok: variant -> written literal (only arms of the form f.write_str("..")).
pub fn tok_display(token: &Src) -> BTreeMap<String, String> {
    let mut out = BTreeMap::new();
    for i in token.impls() {
        if sm::self_ty_name(i) != "Tok" || sm::trait_name(i).as_deref() != Some("Display") {
            continue;
        }
        for it in &i.items {
            if let syn::ImplItem::Fn(f) = it {
                sm::for_each_expr_in_block(&f.block, |e| {
                    if let syn::Expr::Match(m) = e {
                        for arm in &m.arms {
                            let var = match &arm.pat {
                                syn::Pat::Ident(p) => p.ident.to_string(),
                                syn::Pat::Path(p) => p.path.segments.last().map(|s| s.ident.to_string()).unwrap_or_default(),
                                _ => continue,
                            };
                            if let syn::Expr::MethodCall(mc) = sm::unblock(&arm.body) {
                                if mc.method == "write_str" && mc.args.len() == 1 {
                                    if let Some(s) = lit_str(&mc.args[0]) {
                                        out.insert(var, s);
                                    }
                                }
                            }
                        }
                    }
                });
            }
        }
    }
    out
}

/// grammar extern block: terminal -> Tok variant
pub fn extern_map(g: &Grammar) -> BTreeMap<String, String> {
    let mut out = BTreeMap::new();
    for (t, pat) in &g.externs {
        let compact: String = pat.chars().filter(|c| !c.is_whitespace()).collect();
        if let Some(rest) = compact.strip_prefix("token::Tok::") {
            let var: String = rest.chars().take_while(|c| c.is_alphanumeric() || *c == '_').collect();
            out.insert(t.clone(), var);
        }
    }
    out
}

pub fn load_grammar(repo: &Path) -> Result<Grammar, String> {
    let p = repo.join("parser/src/python.lalrpop");
    let text = std::fs::read_to_string(&p).map_err(|e| format!("{}: {}", p.display(), e))?;
    crate::grammar::parse_grammar(&text)
}
