//! Extraction of code-level tables (keyword map, Tok enum, Tok Display, grammar extern block, refdata).

use crate::grammar::Grammar;
use crate::srcmodel::{self as sm, Src};
use serde_json::Value;
use std::collections::BTreeMap;
use std::path::Path;

pub fn refdata(verif: &Path, name: &str) -> Result<Value, String> {
    let p = verif.join("refdata").join(name);
    let t = std::fs::read_to_string(&p).map_err(|e| format!("{}: {}", p.display(), e))?;
    serde_json::from_str(&t).map_err(|e| format!("{}: {}", p.display(), e))
}

pub fn str_map(v: &Value) -> BTreeMap<String, String> {
    v.as_object()
        .map(|o| o.iter().map(|(k, v)| (k.clone(), v.as_str().unwrap_or("").to_string())).collect())
        .unwrap_or_default()
}

pub fn lit_str(e: &syn::Expr) -> Option<String> {
    if let syn::Expr::Lit(l) = e {
        if let syn::Lit::Str(s) = &l.lit {
            return Some(s.value());
        }
    }
    None
}
pub fn lit_char(e: &syn::Expr) -> Option<char> {
    if let syn::Expr::Lit(l) = e {
        if let syn::Lit::Char(s) = &l.lit {
            return Some(s.value());
        }
    }
    None
}
pub fn lit_int(e: &syn::Expr) -> Option<u64> {
    if let syn::Expr::Lit(l) = e {
        if let syn::Lit::Int(s) = &l.lit {
            return s.base10_parse().ok();
        }
    }
    None
}

/// build.rs gen_phf: (keyword spelling, Tok variant)
pub fn keyword_entries(build: &Src) -> Vec<(String, String)> {
    let mut out = vec![];
    for f in build.free_fns("gen_phf") {
        sm::for_each_expr_in_block(&f.block, |e| {
            if let syn::Expr::MethodCall(mc) = e {
                if mc.method == "entry" && mc.args.len() == 2 {
                    if let (Some(k), Some(v)) = (lit_str(&mc.args[0]), lit_str(&mc.args[1])) {
                        out.push((k, v.trim_start_matches("Tok::").to_string()));
                    }
                }
            }
        });
    }
    out.reverse(); // method chains are visited outermost first
    out
}

/// enum Tok: (variant, cfg feature if gated, has payload)
pub fn tok_variants(token: &Src) -> Vec<(String, Option<String>, bool)> {
    let mut out = vec![];
    if let Some(e) = token.enum_named("Tok") {
        for v in &e.variants {
            let cfg = sm::cfg_features(&v.attrs).into_iter().next().map(|(f, _)| f);
            out.push((v.ident.to_string(), cfg, !matches!(v.fields, syn::Fields::Unit)));
        }
    }
    out
}

/// impl Display for Tok: variant -> written literal (only arms of the form f.write_str("..")).
pub fn tok_display(token: &Src) -> BTreeMap<String, String> {
    let mut out = BTreeMap::new();
    for i in token.impls() {
        if sm::self_ty_name(i) != "Tok" || sm::trait_name(i).as_deref() != Some("Display") {
            continue;
        }
        for it in &i.items {
            if let syn::ImplItem::Fn(f) = it {
                sm::for_each_expr_in_block(&f.block, |e| {
                    if let syn::Expr::Match(m) = e {
                        for arm in &m.arms {
                            let var = match &arm.pat {
                                syn::Pat::Ident(p) => p.ident.to_string(),
                                syn::Pat::Path(p) => p.path.segments.last().map(|s| s.ident.to_string()).unwrap_or_default(),
                                _ => continue,
                            };
                            if let syn::Expr::MethodCall(mc) = sm::unblock(&arm.body) {
                                if mc.method == "write_str" && mc.args.len() == 1 {
                                    if let Some(s) = lit_str(&mc.args[0]) {
                                        out.insert(var, s);
                                    }
                                }
                            }
                        }
                    }
                });
            }
        }
    }
    out
}

/// grammar extern block: terminal -> Tok variant
pub fn extern_map(g: &Grammar) -> BTreeMap<String, String> {
    let mut out = BTreeMap::new();
    for (t, pat) in &g.externs {
        let compact: String = pat.chars().filter(|c| !c.is_whitespace()).collect();
        if let Some(rest) = compact.strip_prefix("token::Tok::") {
            let var: String = rest.chars().take_while(|c| c.is_alphanumeric() || *c == '_').collect();
            out.insert(t.clone(), var);
        }
    }
    out
}

pub fn load_grammar(repo: &Path) -> Result<Grammar, String> {
    let p = repo.join("parser/src/python.lalrpop");
    let text = std::fs::read_to_string(&p).map_err(|e| format!("{}: {}", p.display(), e))?;
    let mut g = crate::grammar::parse_grammar(&text)?;
    undo_nonterminal_renames(&mut g);
    register_new_helpers(&g);
    Ok(g)
}

/// Nonterminals the reviewed grammar does not have, with the nonterminal names they are made of (for alternative keys).
fn register_new_helpers(g: &Grammar) {
    let Some(verif) = std::env::var_os("VERIF_DIR") else { return };
    let Ok(txt) = std::fs::read_to_string(Path::new(&verif).join("refdata/nonterminals.json")) else { return };
    let Ok(v) = serde_json::from_str::<serde_json::Value>(&txt) else { return };
    let reviewed: std::collections::BTreeSet<String> = v.as_array().cloned().unwrap_or_default().iter().filter_map(|r| r.get(0)?.as_str().map(|s| s.to_string())).collect();
    let mut map: BTreeMap<String, Vec<String>> = BTreeMap::new();
    for d in &g.defs {
        if reviewed.contains(&d.name) {
            continue;
        }
        let mut names: Vec<String> = vec![];
        for a in &d.alts {
            for s in &a.syms {
                let mut v = vec![];
                Grammar::sym_names(s, &mut v);
                for n in v {
                    if g.def(&n).is_some() && !matches!(n.as_str(), "OneOrMore" | "TwoOrMore" | "Comma") && n != d.name && !names.contains(&n) {
                        names.push(n);
                    }
                }
            }
        }
        // a helper that refers to itself is a list of what it is made of
        let recursive = d.alts.iter().any(|a| {
            a.syms.iter().any(|s| {
                let mut v = vec![];
                Grammar::sym_names(s, &mut v);
                v.contains(&d.name)
            })
        });
        if recursive {
            names = names.into_iter().map(|n| format!("{}*", n)).collect();
        }
        map.insert(d.name.clone(), names);
    }
    crate::rules::grammar_rules::NEW_HELPERS.with(|h| *h.borrow_mut() = map);
}

/// (name, number of macro parameters, declared type, number of alternatives) of every nonterminal
pub fn nonterminal_signatures(g: &Grammar) -> Vec<(String, usize, String, usize)> {
    g.defs.iter().map(|d| (d.name.clone(), d.params.len(), d.ty.clone().unwrap_or_default().chars().filter(|c| !c.is_whitespace()).collect(), d.alts.len())).collect()
}

/// A nonterminal that was merely renamed gets its reviewed name back (refdata/nonterminals.json lists the reviewed
/// grammar's nonterminals with arity, type and number of alternatives): a reviewed name that no longer exists is
/// matched with the one new nonterminal of identical arity, type and alternative count. The rules (and the
/// unparser's position table) name nonterminals; a rename is not a change of the language.
fn undo_nonterminal_renames(g: &mut Grammar) {
    let Some(verif) = std::env::var_os("VERIF_DIR") else { return };
    let Ok(txt) = std::fs::read_to_string(Path::new(&verif).join("refdata/nonterminals.json")) else { return };
    let Ok(v) = serde_json::from_str::<serde_json::Value>(&txt) else { return };
    let Some(arr) = v.as_array() else { return };
    let reference: Vec<(String, usize, String, usize)> = arr.iter().filter_map(|r| Some((r.get(0)?.as_str()?.to_string(), r.get(1)?.as_u64()? as usize, r.get(2)?.as_str()?.to_string(), r.get(3)?.as_u64()? as usize))).collect();
    let current = nonterminal_signatures(g);
    let cur_names: std::collections::BTreeSet<&String> = current.iter().map(|c| &c.0).collect();
    let ref_names: std::collections::BTreeSet<&String> = reference.iter().map(|c| &c.0).collect();
    let mut map: BTreeMap<String, String> = BTreeMap::new();
    for r in &reference {
        if cur_names.contains(&r.0) {
            continue;
        }
        let cands: Vec<&(String, usize, String, usize)> = current.iter().filter(|c| !ref_names.contains(&c.0) && c.1 == r.1 && c.2 == r.2 && c.3 == r.3).collect();
        let competitors = reference.iter().filter(|x| !cur_names.contains(&x.0) && x.1 == r.1 && x.2 == r.2 && x.3 == r.3).count();
        if cands.len() == 1 && competitors == 1 {
            map.insert(cands[0].0.clone(), r.0.clone());
        }
    }
    if map.is_empty() {
        return;
    }
    fn fix_sym(s: &mut crate::grammar::Sym, map: &BTreeMap<String, String>) {
        match &mut s.kind {
            crate::grammar::SymKind::Name(n) => {
                if let Some(r) = map.get(n) {
                    *n = r.clone();
                }
            }
            crate::grammar::SymKind::Macro(n, args) => {
                if let Some(r) = map.get(n) {
                    *n = r.clone();
                }
                for a in args.iter_mut() {
                    fix_sym(a, map);
                }
            }
            crate::grammar::SymKind::Group(v) => {
                for a in v.iter_mut() {
                    fix_sym(a, map);
                }
            }
            _ => {}
        }
    }
    for d in g.defs.iter_mut() {
        if let Some(r) = map.get(&d.name) {
            d.name = r.clone();
        }
        for a in d.alts.iter_mut() {
            for s in a.syms.iter_mut() {
                fix_sym(s, &map);
            }
        }
    }
}
