//! A small abstract interpreter for side-effect-free Rust fragments over finite domains
//! (DESIGN A.5): match arms with char/int/enum patterns and guards, comparisons, casts,
//! let/if/match/blocks/tuples, and "formatter" writes whose output LENGTH is accumulated.
//! It interprets the subject's syntax tree; nothing of the subject is compiled or run.

use crate::srcmodel as sm;
use std::collections::BTreeMap;

#[derive(Debug, Clone, PartialEq)]
pub enum V {
    Int(i128),
    Bool(bool),
    Char(u32),
    Str(String),
    Tuple(Vec<V>),
    Enum(String), // last path segment(s), e.g. "Quote::Single"
    Unit,
    Opt(Option<Box<V>>),
    /// a finite list (slices, Vecs and iterators over them)
    List(Vec<V>),
    /// a record: field name -> value
    Rec(BTreeMap<String, V>),
    /// a floating-point value (sign tests, comparisons)
    F(f64),
    /// an enum variant with a payload: `Name(a, b)` (positional) or `Name { f: a }` (one record payload)
    Ctor(String, Vec<V>),
}

pub struct Machine<'a> {
    pub env: Vec<BTreeMap<String, V>>,
    /// bytes written to the formatter so far
    pub written: usize,
    /// whether anything other than the character itself was written (escape)
    pub wrote_escape: bool,
    /// opaque predicates: name -> value for this run
    pub opaque: BTreeMap<String, bool>,
    /// user-supplied method table: (receiver value, method) -> value
    pub methods: &'a dyn Fn(&V, &str, &[V]) -> Option<V>,
    /// cargo features considered enabled when a statement carries #[cfg(feature = "..")]
    pub features: Vec<String>,
    /// value of a `return` being unwound to the enclosing closure / function
    returning: Option<V>,
}

const RETURN_SIGNAL: &str = "\u{0}return";
const BREAK_SIGNAL: &str = "\u{0}break";
const CONTINUE_SIGNAL: &str = "\u{0}continue";

pub type R = Result<V, String>;

fn lit_value(l: &syn::Lit) -> Result<V, String> {
    Ok(match l {
        syn::Lit::Int(i) => V::Int(i.base10_parse::<i128>().map_err(|e| e.to_string())?),
        syn::Lit::Bool(b) => V::Bool(b.value),
        syn::Lit::Char(c) => V::Char(c.value() as u32),
        syn::Lit::Byte(b) => V::Int(b.value() as i128),
        syn::Lit::Str(s) => V::Str(s.value()),
        syn::Lit::Float(f) => V::F(f.base10_parse::<f64>().map_err(|e| e.to_string())?),
        other => return Err(format!("literal {}", sm::ts(other))),
    })
}

pub fn utf8_len(c: u32) -> usize {
    if c < 0x80 {
        1
    } else if c < 0x800 {
        2
    } else if c < 0x10000 {
        3
    } else {
        4
    }
}

impl<'a> Machine<'a> {
    pub fn new(methods: &'a dyn Fn(&V, &str, &[V]) -> Option<V>) -> Self {
        Machine { env: vec![BTreeMap::new()], written: 0, wrote_escape: false, opaque: BTreeMap::new(), methods, features: vec![], returning: None }
    }
    pub fn set(&mut self, k: &str, v: V) {
        self.env.last_mut().unwrap().insert(k.to_string(), v);
    }
    fn get(&self, k: &str) -> Option<V> {
        for scope in self.env.iter().rev() {
            if let Some(v) = scope.get(k) {
                return Some(v.clone());
            }
        }
        None
    }

    pub fn pat_matches(&mut self, p: &syn::Pat, v: &V) -> Result<bool, String> {
        match p {
            syn::Pat::Wild(_) => Ok(true),
            syn::Pat::Ident(i) => {
                // an upper-case identifier is a unit variant / constant (e.g. `None`), not a binding
                let name = i.ident.to_string();
                if name.chars().next().map_or(false, |c| c.is_uppercase()) && i.subpat.is_none() {
                    return Ok(match v {
                        V::Opt(None) => name == "None",
                        V::Enum(e) => e == &name || e.ends_with(&format!("::{}", name)),
                        _ => false,
                    });
                }
                if let Some((_, sub)) = &i.subpat {
                    if !self.pat_matches(sub, v)? {
                        return Ok(false);
                    }
                }
                self.set(&i.ident.to_string(), v.clone());
                Ok(true)
            }
            syn::Pat::Lit(l) => Ok(&lit_value(&l.lit)? == v || matches!((lit_value(&l.lit)?, v), (V::Int(a), V::Int(b)) if a == *b)),
            syn::Pat::Range(r) => {
                let lo = match &r.start {
                    Some(e) => Some(self.eval(e)?),
                    None => None,
                };
                let hi = match &r.end {
                    Some(e) => Some(self.eval(e)?),
                    None => None,
                };
                let x = match v {
                    V::Char(c) => *c as i128,
                    V::Int(i) => *i,
                    _ => return Err("range pattern on non-scalar".into()),
                };
                let num = |v: V| match v {
                    V::Char(c) => c as i128,
                    V::Int(i) => i,
                    _ => 0,
                };
                let lo_ok = lo.map_or(true, |l| num(l) <= x);
                let inclusive = matches!(r.limits, syn::RangeLimits::Closed(_));
                let hi_ok = hi.map_or(true, |h| if inclusive { x <= num(h) } else { x < num(h) });
                Ok(lo_ok && hi_ok)
            }
            syn::Pat::Or(o) => {
                for c in &o.cases {
                    if self.pat_matches(c, v)? {
                        return Ok(true);
                    }
                }
                Ok(false)
            }
            syn::Pat::Paren(p) => self.pat_matches(&p.pat, v),
            syn::Pat::Type(t) => self.pat_matches(&t.pat, v),
            syn::Pat::Slice(sl) => {
                let V::List(items) = v else { return Ok(false) };
                let rest_at = sl.elems.iter().position(|e| matches!(e, syn::Pat::Rest(_)));
                match rest_at {
                    None => {
                        if items.len() != sl.elems.len() {
                            return Ok(false);
                        }
                        for (pp, vv) in sl.elems.iter().zip(items) {
                            if !self.pat_matches(pp, vv)? {
                                return Ok(false);
                            }
                        }
                        Ok(true)
                    }
                    Some(r) => {
                        let after = sl.elems.len() - r - 1;
                        if items.len() < r + after {
                            return Ok(false);
                        }
                        for (pp, vv) in sl.elems.iter().take(r).zip(items) {
                            if !self.pat_matches(pp, vv)? {
                                return Ok(false);
                            }
                        }
                        for (pp, vv) in sl.elems.iter().skip(r + 1).zip(&items[items.len() - after..]) {
                            if !self.pat_matches(pp, vv)? {
                                return Ok(false);
                            }
                        }
                        Ok(true)
                    }
                }
            }
            syn::Pat::Reference(r) => self.pat_matches(&r.pat, v),
            syn::Pat::Path(p) => {
                let name = sm::tsc(&p.path);
                match v {
                    V::Ctor(cn, payload) if payload.is_empty() => Ok(*cn == name || cn.ends_with(&format!("::{}", name)) || name.ends_with(&format!("::{}", cn))),
                    V::Enum(e) => Ok(e == &name || e.ends_with(&format!("::{}", name)) || name.ends_with(&format!("::{}", e))),
                    V::Opt(None) => Ok(name == "None"),
                    _ => Ok(false),
                }
            }
            syn::Pat::Tuple(t) if t.elems.iter().any(|e| matches!(e, syn::Pat::Rest(_))) => match v {
                V::Tuple(vs) => {
                    let r = t.elems.iter().position(|e| matches!(e, syn::Pat::Rest(_))).unwrap();
                    let after = t.elems.len() - r - 1;
                    if vs.len() < r + after {
                        return Ok(false);
                    }
                    for (pp, vv) in t.elems.iter().take(r).zip(vs) {
                        if !self.pat_matches(pp, vv)? {
                            return Ok(false);
                        }
                    }
                    for (pp, vv) in t.elems.iter().skip(r + 1).zip(&vs[vs.len() - after..]) {
                        if !self.pat_matches(pp, vv)? {
                            return Ok(false);
                        }
                    }
                    Ok(true)
                }
                _ => Ok(false),
            },
            syn::Pat::Tuple(t) => match v {
                V::Tuple(vs) if vs.len() == t.elems.len() => {
                    for (pp, vv) in t.elems.iter().zip(vs) {
                        if !self.pat_matches(pp, vv)? {
                            return Ok(false);
                        }
                    }
                    Ok(true)
                }
                _ => Ok(false),
            },
            syn::Pat::TupleStruct(ts) => {
                let name = sm::tsc(&ts.path);
                // Ok(x) values are represented by x itself, Err(..) values by Enum("Err(..)")
                let v_is_err = matches!(v, V::Enum(e) if e.starts_with("Err("));
                if name == "Ok" && ts.elems.len() == 1 {
                    return if v_is_err { Ok(false) } else { self.pat_matches(&ts.elems[0], v) };
                }
                if name == "Err" && ts.elems.len() == 1 {
                    return Ok(v_is_err);
                }
                match v {
                    V::Ctor(cn, payload) => {
                        let same = *cn == name || cn.ends_with(&format!("::{}", name)) || name.ends_with(&format!("::{}", cn));
                        if !same {
                            return Ok(false);
                        }
                        if ts.elems.len() == 1 && matches!(ts.elems[0], syn::Pat::Rest(_) | syn::Pat::Wild(_)) {
                            return Ok(true);
                        }
                        if ts.elems.len() != payload.len() {
                            return Ok(false);
                        }
                        for (pp, vv) in ts.elems.iter().zip(payload) {
                            if !self.pat_matches(pp, vv)? {
                                return Ok(false);
                            }
                        }
                        Ok(true)
                    }
                    V::Opt(Some(inner)) if name == "Some" && ts.elems.len() == 1 => self.pat_matches(&ts.elems[0], inner),
                    V::Enum(e) => {
                        // Variant(_) patterns on payload-less abstract enums: compare names, ignore payload
                        let base = e.split('(').next().unwrap_or("");
                        Ok(base == name || base.ends_with(&format!("::{}", name)) || name.ends_with(&format!("::{}", base)))
                    }
                    _ => Ok(false),
                }
            }
            syn::Pat::Struct(ps) => {
                // Variant { .. } on abstract enums: compare names, ignore fields
                let name = sm::tsc(&ps.path);
                match v {
                    V::Ctor(cn, payload) => {
                        let same = *cn == name || cn.ends_with(&format!("::{}", name)) || name.ends_with(&format!("::{}", cn));
                        if !same {
                            return Ok(false);
                        }
                        let Some(V::Rec(fields)) = payload.first() else { return Ok(true) };
                        for fp in &ps.fields {
                            let fname = sm::ts(&fp.member);
                            match fields.get(&fname) {
                                Some(fv) => {
                                    if !self.pat_matches(&fp.pat, &fv.clone())? {
                                        return Ok(false);
                                    }
                                }
                                None => return Ok(false),
                            }
                        }
                        Ok(true)
                    }
                    V::Enum(e) => {
                        let base = e.split(['(', '{']).next().unwrap_or("");
                        Ok(base == name || base.ends_with(&format!("::{}", name)) || name.ends_with(&format!("::{}", base)))
                    }
                    _ => Ok(false),
                }
            }
            other => Err(format!("pattern `{}`", sm::tsc(other))),
        }
    }

    /// Apply a one-parameter closure to a value; a `return` inside ends the closure with that value.
    fn call_closure(&mut self, c: &syn::ExprClosure, v: &V) -> R {
        if c.inputs.len() != 1 {
            return Err("closure arity".into());
        }
        let depth = self.env.len();
        self.env.push(BTreeMap::new());
        let ok = self.pat_matches(&c.inputs[0], v)?;
        if !ok {
            self.env.truncate(depth);
            return Err("closure parameter pattern does not match".into());
        }
        let r = self.eval(&c.body);
        self.env.truncate(depth);
        match r {
            Err(e) if e == RETURN_SIGNAL => Ok(self.returning.take().unwrap_or(V::Unit)),
            other => other,
        }
    }

    /// Evaluate a function body: a `return` ends it with its value.
    pub fn eval_fn_body(&mut self, b: &syn::Block) -> R {
        let depth = self.env.len();
        let r = self.eval_block(b);
        self.env.truncate(depth);
        match r {
            Err(e) if e == RETURN_SIGNAL => Ok(self.returning.take().unwrap_or(V::Unit)),
            other => other,
        }
    }

    fn assign(&mut self, name: &str, v: V) -> bool {
        for scope in self.env.iter_mut().rev() {
            if scope.contains_key(name) {
                scope.insert(name.to_string(), v);
                return true;
            }
        }
        false
    }

    pub fn eval_block(&mut self, b: &syn::Block) -> R {
        self.env.push(BTreeMap::new());
        let mut last = V::Unit;
        for s in &b.stmts {
            // statements compiled only with a cargo feature that is off are skipped
            let attrs: &[syn::Attribute] = match s {
                syn::Stmt::Local(l) => &l.attrs,
                syn::Stmt::Expr(e, _) => match e {
                    syn::Expr::If(x) => &x.attrs,
                    syn::Expr::Match(x) => &x.attrs,
                    syn::Expr::MethodCall(x) => &x.attrs,
                    syn::Expr::Call(x) => &x.attrs,
                    syn::Expr::Block(x) => &x.attrs,
                    syn::Expr::Return(x) => &x.attrs,
                    syn::Expr::Assign(x) => &x.attrs,
                    _ => &[],
                },
                _ => &[],
            };
            let gated_off = sm::cfg_features(attrs).iter().any(|(f, positive)| self.features.contains(f) != *positive);
            if gated_off {
                continue;
            }
            match s {
                syn::Stmt::Local(l) => {
                    let v = match &l.init {
                        Some(i) => self.eval(&i.expr)?,
                        None => V::Unit,
                    };
                    if !self.pat_matches(&l.pat, &v)? {
                        self.env.pop();
                        return Err("refutable let".into());
                    }
                    last = V::Unit;
                }
                syn::Stmt::Expr(e, semi) => {
                    let v = self.eval(e)?;
                    last = if semi.is_some() { V::Unit } else { v };
                }
                syn::Stmt::Macro(m) => {
                    self.eval_macro(&m.mac)?;
                    last = V::Unit;
                }
                syn::Stmt::Item(_) => {}
            }
        }
        self.env.pop();
        Ok(last)
    }

    /// Run a statement list in the current scope, statement by statement; a statement the interpreter cannot
    /// evaluate is skipped (its bindings stay unbound), a `return` ends the run with its value. Used by rules that
    /// interpret the head of a function up to a decision they are interested in.
    pub fn run_tolerant(&mut self, stmts: &[syn::Stmt]) -> Option<V> {
        for s in stmts {
            let r: Result<(), String> = match s {
                syn::Stmt::Local(l) => match &l.init {
                    Some(i) => match self.eval(&i.expr) {
                        Ok(v) => self.pat_matches(&l.pat, &v).map(|_| ()),
                        Err(e) => Err(e),
                    },
                    None => Ok(()),
                },
                syn::Stmt::Expr(e, _) => self.eval(e).map(|_| ()),
                syn::Stmt::Macro(m) => self.eval_macro(&m.mac).map(|_| ()),
                syn::Stmt::Item(_) => Ok(()),
            };
            if let Err(e) = r {
                if e == RETURN_SIGNAL {
                    return Some(self.returning.take().unwrap_or(V::Unit));
                }
            }
        }
        None
    }

    fn eval_macro(&mut self, m: &syn::Macro) -> R {
        let name = sm::tsc(&m.path);
        if name == "write" {
            // write!(formatter, "fmt", args..)
            let args: Vec<syn::Expr> = m.parse_body_with(syn::punctuated::Punctuated::<syn::Expr, syn::Token![,]>::parse_terminated).map_err(|e| e.to_string())?.into_iter().collect();
            if args.len() < 2 {
                return Err("write! with too few arguments".into());
            }
            let fmt = match &args[1] {
                syn::Expr::Lit(l) => match &l.lit {
                    syn::Lit::Str(s) => s.value(),
                    _ => return Err("write! format is not a string literal".into()),
                },
                _ => return Err("write! format is not a string literal".into()),
            };
            let mut vals = vec![];
            for a in &args[2..] {
                vals.push(self.eval(a)?);
            }
            let n = self.formatted_len(&fmt, &vals)?;
            self.written += n;
            self.wrote_escape = true;
            return Ok(V::Unit);
        }
        if name == "matches" {
            let (e, p) = m
                .parse_body_with(|input: syn::parse::ParseStream| {
                    let e: syn::Expr = input.parse()?;
                    input.parse::<syn::Token![,]>()?;
                    let p = syn::Pat::parse_multi_with_leading_vert(input)?;
                    Ok((e, p))
                })
                .map_err(|e| e.to_string())?;
            let v = self.eval(&e)?;
            self.env.push(BTreeMap::new());
            let r = self.pat_matches(&p, &v)?;
            self.env.pop();
            return Ok(V::Bool(r));
        }
        if name == "format" {
            // format!("..{name}..{}..", args): strings, characters and integers are concatenated as they display
            let args: Vec<syn::Expr> = m.parse_body_with(syn::punctuated::Punctuated::<syn::Expr, syn::Token![,]>::parse_terminated).map_err(|e| e.to_string())?.into_iter().collect();
            let fmt = match args.first() {
                Some(syn::Expr::Lit(l)) => match &l.lit {
                    syn::Lit::Str(s) => s.value(),
                    _ => return Err("format! format is not a string literal".into()),
                },
                _ => return Err("format! format is not a string literal".into()),
            };
            let mut positional = vec![];
            for a in &args[1..] {
                positional.push(self.eval(a)?);
            }
            let show = |v: &V| -> Result<String, String> {
                Ok(match v {
                    V::Str(s) => s.clone(),
                    V::Int(i) => i.to_string(),
                    V::Char(c) => char::from_u32(*c).map(|c| c.to_string()).unwrap_or_default(),
                    other => return Err(format!("format! of {:?}", other)),
                })
            };
            let mut out = String::new();
            let mut next_pos = 0;
            let chars: Vec<char> = fmt.chars().collect();
            let mut i = 0;
            while i < chars.len() {
                match chars[i] {
                    '{' if chars.get(i + 1) == Some(&'{') => {
                        out.push('{');
                        i += 2;
                    }
                    '}' if chars.get(i + 1) == Some(&'}') => {
                        out.push('}');
                        i += 2;
                    }
                    '{' => {
                        let close = chars[i..].iter().position(|c| *c == '}').ok_or("format! unbalanced")? + i;
                        let inner: String = chars[i + 1..close].iter().collect();
                        if inner.contains(':') {
                            return Err("format! with a format spec".into());
                        }
                        let v = if inner.is_empty() {
                            let v = positional.get(next_pos).cloned().ok_or("format! argument")?;
                            next_pos += 1;
                            v
                        } else {
                            self.get(&inner).ok_or_else(|| format!("format! names unbound `{}`", inner))?
                        };
                        out.push_str(&show(&v)?);
                        i = close + 1;
                    }
                    c => {
                        out.push(c);
                        i += 1;
                    }
                }
            }
            return Ok(V::Str(out));
        }
        Err(format!("macro {}!", name))
    }

    /// Length of a format string with `{:0Nx}` / `{name:0Nx}` / `{}` pieces for integer values.
    fn formatted_len(&self, fmt: &str, vals: &[V]) -> Result<usize, String> {
        let mut n = 0;
        let mut it = fmt.chars().peekable();
        let mut argi = 0;
        while let Some(c) = it.next() {
            if c == '{' {
                if it.peek() == Some(&'{') {
                    it.next();
                    n += 1;
                    continue;
                }
                let mut spec = String::new();
                for d in it.by_ref() {
                    if d == '}' {
                        break;
                    }
                    spec.push(d);
                }
                let (name, f) = match spec.split_once(':') {
                    Some((a, b)) => (a.to_string(), b.to_string()),
                    None => (spec.clone(), String::new()),
                };
                let val = if name.is_empty() {
                    let v = vals.get(argi).cloned();
                    argi += 1;
                    v
                } else {
                    self.get(&name)
                };
                let x = match val {
                    Some(V::Int(i)) => i,
                    Some(V::Char(c)) => c as i128,
                    other => return Err(format!("format argument {:?}", other)),
                };
                // f like "02x", "04x", "08x"
                if let Some(w) = f.strip_suffix('x') {
                    let width: usize = w.trim_start_matches('0').parse().unwrap_or(0);
                    let digits = format!("{:x}", x).len();
                    n += digits.max(width);
                } else if f.is_empty() {
                    n += format!("{}", x).len();
                } else {
                    return Err(format!("format spec `{}`", f));
                }
            } else if c == '}' {
                if it.peek() == Some(&'}') {
                    it.next();
                }
                n += 1;
            } else {
                n += c.len_utf8();
            }
        }
        Ok(n)
    }

    pub fn eval(&mut self, e: &syn::Expr) -> R {
        match e {
            syn::Expr::Lit(l) => lit_value(&l.lit),
            syn::Expr::Paren(p) => self.eval(&p.expr),
            syn::Expr::Group(p) => self.eval(&p.expr),
            syn::Expr::Try(t) => {
                let v = self.eval(&t.expr)?;
                match &v {
                    V::Enum(e) if e.starts_with("Err(") => {
                        self.returning = Some(v);
                        Err(RETURN_SIGNAL.to_string())
                    }
                    V::Opt(None) => {
                        self.returning = Some(v);
                        Err(RETURN_SIGNAL.to_string())
                    }
                    V::Opt(Some(inner)) => Ok((**inner).clone()),
                    _ => Ok(v),
                }
            }
            syn::Expr::Range(r) => {
                let lo = match &r.start {
                    Some(e) => self.eval(e)?,
                    None => return Err("open range".into()),
                };
                let hi = match &r.end {
                    Some(e) => self.eval(e)?,
                    None => return Err("open range".into()),
                };
                match (lo, hi) {
                    (V::Int(a), V::Int(b)) if b - a < 100_000 => {
                        let b = if matches!(r.limits, syn::RangeLimits::Closed(_)) { b + 1 } else { b };
                        Ok(V::List((a..b).map(V::Int).collect()))
                    }
                    // a range of opaque values is the pair of its bounds
                    (a @ V::Enum(_), b @ V::Enum(_)) => {
                        let mut m = BTreeMap::new();
                        m.insert("start".to_string(), a);
                        m.insert("end".to_string(), b);
                        Ok(V::Rec(m))
                    }
                    (a, b) => Err(format!("range {:?}..{:?}", a, b)),
                }
            }
            syn::Expr::Reference(r) => self.eval(&r.expr),
            syn::Expr::Block(b) => self.eval_block(&b.block),
            syn::Expr::Path(p) => {
                if let Some(id) = sm::as_ident(e) {
                    if let Some(v) = self.get(&id) {
                        return Ok(v);
                    }
                    if id == "None" {
                        return Ok(V::Opt(None));
                    }
                }
                let txt = sm::tsc(&p.path);
                if txt == "char::REPLACEMENT_CHARACTER" || txt.ends_with("::char::REPLACEMENT_CHARACTER") {
                    return Ok(V::Char(0xFFFD));
                }
                Ok(V::Enum(txt))
            }
            syn::Expr::Tuple(t) => {
                let mut v = vec![];
                for x in &t.elems {
                    v.push(self.eval(x)?);
                }
                Ok(V::Tuple(v))
            }
            syn::Expr::Unary(u) => {
                let v = self.eval(&u.expr)?;
                match (&u.op, v) {
                    (syn::UnOp::Not(_), V::Bool(b)) => Ok(V::Bool(!b)),
                    (syn::UnOp::Deref(_), v) => Ok(v),
                    (syn::UnOp::Neg(_), V::Int(i)) => Ok(V::Int(-i)),
                    (syn::UnOp::Neg(_), V::F(x)) => Ok(V::F(-x)),
                    (op, v) => Err(format!("unary {} on {:?}", sm::ts(op), v)),
                }
            }
            syn::Expr::Cast(c) => {
                let v = self.eval(&c.expr)?;
                let ty = sm::tsc(&c.ty);
                let x = match v {
                    V::Char(c) => c as i128,
                    V::Int(i) => i,
                    V::Bool(b) => b as i128,
                    other => return Err(format!("cast of {:?}", other)),
                };
                Ok(match ty.as_str() {
                    "u8" => V::Int(x & 0xff),
                    "u16" => V::Int(x & 0xffff),
                    "u32" | "usize" | "u64" | "i32" | "i64" | "isize" => V::Int(x),
                    "char" => V::Char(x as u32),
                    other => return Err(format!("cast to {}", other)),
                })
            }
            syn::Expr::Binary(b) => {
                // short-circuit
                if matches!(b.op, syn::BinOp::And(_)) {
                    return match self.eval(&b.left)? {
                        V::Bool(false) => Ok(V::Bool(false)),
                        V::Bool(true) => self.eval(&b.right),
                        o => Err(format!("&& on {:?}", o)),
                    };
                }
                if matches!(b.op, syn::BinOp::Or(_)) {
                    return match self.eval(&b.left)? {
                        V::Bool(true) => Ok(V::Bool(true)),
                        V::Bool(false) => self.eval(&b.right),
                        o => Err(format!("|| on {:?}", o)),
                    };
                }
                // compound assignment to a local / place
                let compound = match &b.op {
                    syn::BinOp::AddAssign(_) => Some('+'),
                    syn::BinOp::SubAssign(_) => Some('-'),
                    syn::BinOp::MulAssign(_) => Some('*'),
                    syn::BinOp::ShlAssign(_) => Some('<'),
                    syn::BinOp::ShrAssign(_) => Some('>'),
                    syn::BinOp::BitOrAssign(_) => Some('|'),
                    syn::BinOp::BitAndAssign(_) => Some('&'),
                    _ => None,
                };
                if let Some(op) = compound {
                    let k = sm::tsc(&b.left);
                    let cur = self.get(&k).ok_or_else(|| format!("compound assignment to unbound `{}`", k))?;
                    let r = self.eval(&b.right)?;
                    let nv = match (cur, r) {
                        (V::Int(a), V::Int(c)) => V::Int(match op {
                            '+' => a + c,
                            '-' => a - c,
                            '*' => a * c,
                            '<' if (0..64).contains(&c) => a << c,
                            '>' if (0..64).contains(&c) => a >> c,
                            '|' => a | c,
                            '&' => a & c,
                            _ => return Err("shift amount".into()),
                        }),
                        (a, c) => return Err(format!("compound assignment on {:?} {:?}", a, c)),
                    };
                    self.assign(&k, nv);
                    return Ok(V::Unit);
                }
                let l = self.eval(&b.left)?;
                let r = self.eval(&b.right)?;
                if let (V::F(a), V::F(c)) = (&l, &r) {
                    let (a, c) = (*a, *c);
                    return Ok(match &b.op {
                        syn::BinOp::Lt(_) => V::Bool(a < c),
                        syn::BinOp::Le(_) => V::Bool(a <= c),
                        syn::BinOp::Gt(_) => V::Bool(a > c),
                        syn::BinOp::Ge(_) => V::Bool(a >= c),
                        syn::BinOp::Eq(_) => V::Bool(a == c),
                        syn::BinOp::Ne(_) => V::Bool(a != c),
                        syn::BinOp::Add(_) => V::F(a + c),
                        syn::BinOp::Sub(_) => V::F(a - c),
                        syn::BinOp::Mul(_) => V::F(a * c),
                        syn::BinOp::Div(_) => V::F(a / c),
                        other => return Err(format!("float operator {}", sm::ts(other))),
                    });
                }
                let num = |v: &V| match v {
                    V::Int(i) => Some(*i),
                    V::Char(c) => Some(*c as i128),
                    _ => None,
                };
                match &b.op {
                    syn::BinOp::Eq(_) => Ok(V::Bool(match (num(&l), num(&r)) {
                        (Some(a), Some(b)) => a == b,
                        _ => l == r,
                    })),
                    syn::BinOp::Ne(_) => Ok(V::Bool(match (num(&l), num(&r)) {
                        (Some(a), Some(b)) => a != b,
                        _ => l != r,
                    })),
                    op => {
                        let (a, c) = match (num(&l), num(&r)) {
                            (Some(a), Some(c)) => (a, c),
                            _ => return Err(format!("arithmetic on {:?} {:?}", l, r)),
                        };
                        Ok(match op {
                            syn::BinOp::Lt(_) => V::Bool(a < c),
                            syn::BinOp::Le(_) => V::Bool(a <= c),
                            syn::BinOp::Gt(_) => V::Bool(a > c),
                            syn::BinOp::Ge(_) => V::Bool(a >= c),
                            syn::BinOp::Add(_) => V::Int(a + c),
                            syn::BinOp::Sub(_) => V::Int(a - c),
                            syn::BinOp::Mul(_) => V::Int(a * c),
                            syn::BinOp::Div(_) if c != 0 => V::Int(a / c),
                            syn::BinOp::Rem(_) if c != 0 => V::Int(a % c),
                            syn::BinOp::Shl(_) if (0..64).contains(&c) => V::Int(a << c),
                            syn::BinOp::Shr(_) if (0..64).contains(&c) => V::Int(a >> c),
                            syn::BinOp::BitOr(_) => V::Int(a | c),
                            syn::BinOp::BitAnd(_) => V::Int(a & c),
                            syn::BinOp::BitXor(_) => V::Int(a ^ c),
                            other => return Err(format!("operator {}", sm::ts(other))),
                        })
                    }
                }
            }
            syn::Expr::Return(r) => {
                let v = match &r.expr {
                    Some(x) => self.eval(x)?,
                    None => V::Unit,
                };
                self.returning = Some(v);
                Err(RETURN_SIGNAL.to_string())
            }
            syn::Expr::If(i) => {
                let c = self.eval(&i.cond)?;
                match c {
                    V::Bool(true) => self.eval_block(&i.then_branch),
                    V::Bool(false) => match &i.else_branch {
                        Some((_, el)) => self.eval(el),
                        None => Ok(V::Unit),
                    },
                    o => Err(format!("if on {:?}", o)),
                }
            }
            syn::Expr::Match(m) => {
                let v = self.eval(&m.expr)?;
                for arm in &m.arms {
                    if sm::cfg_features(&arm.attrs).iter().any(|(f, positive)| self.features.contains(f) != *positive) {
                        continue;
                    }
                    self.env.push(BTreeMap::new());
                    let hit = self.pat_matches(&arm.pat, &v)?;
                    let guard_ok = if hit {
                        match &arm.guard {
                            Some((_, g)) => matches!(self.eval(g)?, V::Bool(true)),
                            None => true,
                        }
                    } else {
                        false
                    };
                    if hit && guard_ok {
                        let r = self.eval(&arm.body);
                        self.env.pop();
                        return r;
                    }
                    self.env.pop();
                }
                Err("no arm matched".into())
            }
            syn::Expr::Macro(m) => self.eval_macro(&m.mac),
            syn::Expr::Call(c) => {
                let f = sm::tsc(&c.func);
                if f == "Err" && c.args.len() == 1 {
                    // error values are opaque: their text is kept for the rule to inspect; the fields of a struct
                    // literal are shown with their values where they can be evaluated
                    if let syn::Expr::Struct(st) = &c.args[0] {
                        let mut parts = vec![];
                        for fv in &st.fields {
                            let shown = match self.eval(&fv.expr) {
                                Ok(v) => format!("{:?}", v),
                                Err(_) => sm::tsc(&fv.expr),
                            };
                            parts.push(format!("{}:{}", sm::ts(&fv.member), shown));
                        }
                        return Ok(V::Enum(format!("Err({}{{{}}})", sm::tsc(&st.path), parts.join(","))));
                    }
                    return Ok(V::Enum(format!("Err({}))", sm::tsc(&c.args[0]))));
                }
                let mut args = vec![];
                for a in &c.args {
                    args.push(self.eval(a)?);
                }
                if f == "Some" && args.len() == 1 {
                    return Ok(V::Opt(Some(Box::new(args[0].clone()))));
                }
                if f == "Ok" && args.len() == 1 {
                    return Ok(args[0].clone());
                }
                if (f == "char::from_u32" || f == "std::char::from_u32" || f == "core::char::from_u32") && args.len() == 1 {
                    if let V::Int(x) = &args[0] {
                        let ok = (0..=0x10FFFF).contains(x) && !(0xD800..=0xDFFF).contains(x);
                        return Ok(V::Opt(if ok { Some(Box::new(V::Char(*x as u32))) } else { None }));
                    }
                }
                if let Some(name) = f.rsplit("::").next() {
                    if let Some(b) = self.opaque.get(name) {
                        return Ok(V::Bool(*b));
                    }
                }
                if let Some(v) = (self.methods)(&V::Unit, &f, &args) {
                    return Ok(v);
                }
                Err(format!("call {}", f))
            }
            syn::Expr::MethodCall(mc) => {
                let recv_txt = sm::tsc(&mc.receiver);
                let m = mc.method.to_string();
                if (recv_txt == "formatter" || recv_txt == "f") && self.get(&recv_txt).is_none() {
                    match m.as_str() {
                        "write_str" => {
                            if let V::Str(s) = self.eval(&mc.args[0])? {
                                self.written += s.len();
                                self.wrote_escape = true;
                                return Ok(V::Unit);
                            }
                            return Err("write_str of a non-literal".into());
                        }
                        "write_char" => {
                            let v = self.eval(&mc.args[0])?;
                            let arg_txt = sm::tsc(&mc.args[0]);
                            match v {
                                V::Char(c) => {
                                    self.written += utf8_len(c);
                                    if arg_txt.starts_with('\'') {
                                        self.wrote_escape = true; // a literal character such as '\\'
                                    }
                                    return Ok(V::Unit);
                                }
                                o => return Err(format!("write_char of {:?}", o)),
                            }
                        }
                        _ => return Err(format!("formatter.{}", m)),
                    }
                }
                let recv = self.eval(&mc.receiver)?;
                // `opt.map_or(default, |x| body)`
                if m == "map_or" && mc.args.len() == 2 {
                    if let syn::Expr::Closure(c) = &mc.args[1] {
                        match &recv {
                            V::Opt(None) => return self.eval(&mc.args[0]),
                            V::Opt(Some(inner)) => return self.call_closure(c, &inner.clone()),
                            _ => {}
                        }
                    }
                }
                // Option / Result combinators with a closure (Ok(x) is represented by x, Err(..) by Enum("Err(..)"))
                if mc.args.len() == 1 {
                    if let syn::Expr::Closure(c) = &mc.args[0] {
                        let is_err = matches!(&recv, V::Enum(e) if e.starts_with("Err("));
                        match (m.as_str(), &recv) {
                            ("is_some_and", V::Opt(None)) => return Ok(V::Bool(false)),
                            ("is_some_and", V::Opt(Some(inner))) => return self.call_closure(c, &inner.clone()),
                            ("is_ok_and", _) if is_err => return Ok(V::Bool(false)),
                            ("is_ok_and", v) => return self.call_closure(c, &v.clone()),
                            ("and_then", V::Opt(None)) => return Ok(V::Opt(None)),
                            ("and_then", V::Opt(Some(inner))) => return self.call_closure(c, &inner.clone()),
                            ("map", V::Opt(None)) => return Ok(V::Opt(None)),
                            ("map", V::Opt(Some(inner))) => {
                                let r = self.call_closure(c, &inner.clone())?;
                                return Ok(V::Opt(Some(Box::new(r))));
                            }
                            _ => {}
                        }
                    }
                }
                if mc.args.is_empty() && matches!(m.as_str(), "as_ref" | "as_deref" | "clone" | "copied" | "cloned" | "iter" | "into_iter" | "iter_mut" | "peekable") {
                    return Ok(recv);
                }
                if mc.args.is_empty() {
                    match (&recv, m.as_str()) {
                        (V::F(x), "is_sign_negative") => return Ok(V::Bool(x.is_sign_negative())),
                        (V::F(x), "is_sign_positive") => return Ok(V::Bool(x.is_sign_positive())),
                        (V::F(x), "is_nan") => return Ok(V::Bool(x.is_nan())),
                        (V::F(x), "is_infinite") => return Ok(V::Bool(x.is_infinite())),
                        (V::F(x), "is_finite") => return Ok(V::Bool(x.is_finite())),
                        (V::F(x), "abs") => return Ok(V::F(x.abs())),
                        (V::Opt(Some(inner)), "unwrap") => return Ok((**inner).clone()),
                        (V::Opt(None), "unwrap") => return Err("unwrap of None: the interpreted code panics".into()),
                        (V::Opt(o), "is_some") => return Ok(V::Bool(o.is_some())),
                        (V::Opt(o), "is_none") => return Ok(V::Bool(o.is_none())),
                        (V::List(v), "next") => return Ok(V::Opt(v.first().cloned().map(Box::new))),
                        (V::List(v), "len") | (V::List(v), "count") => return Ok(V::Int(v.len() as i128)),
                        (V::Str(x), "len") => return Ok(V::Int(x.len() as i128)),
                        (V::Str(x), "is_empty") => return Ok(V::Bool(x.is_empty())),
                        (V::List(v), "is_empty") => return Ok(V::Bool(v.is_empty())),
                        (V::List(v), "last") => return Ok(V::Opt(v.last().cloned().map(Box::new))),
                        (V::List(v), "first") => return Ok(V::Opt(v.first().cloned().map(Box::new))),
                        (V::List(v), "rev") => return Ok(V::List(v.iter().rev().cloned().collect())),
                        _ => {}
                    }
                }
                if mc.args.len() == 1 {
                    if let (V::List(v), syn::Expr::Closure(c)) = (&recv, &mc.args[0]) {
                        let v = v.clone();
                        match m.as_str() {
                            "skip_while" | "take_while" | "filter" | "find" | "any" | "all" | "position" => {
                                let mut flags = vec![];
                                for it in &v {
                                    match self.call_closure(c, it)? {
                                        V::Bool(b) => flags.push(b),
                                        other => return Err(format!("closure result {:?}", other)),
                                    }
                                }
                                return Ok(match m.as_str() {
                                    "skip_while" => V::List(v.iter().zip(&flags).skip_while(|(_, f)| **f).map(|(x, _)| x.clone()).collect()),
                                    "take_while" => V::List(v.iter().zip(&flags).take_while(|(_, f)| **f).map(|(x, _)| x.clone()).collect()),
                                    "filter" => V::List(v.iter().zip(&flags).filter(|(_, f)| **f).map(|(x, _)| x.clone()).collect()),
                                    "find" => V::Opt(v.iter().zip(&flags).find(|(_, f)| **f).map(|(x, _)| Box::new(x.clone()))),
                                    "any" => V::Bool(flags.iter().any(|f| *f)),
                                    "all" => V::Bool(flags.iter().all(|f| *f)),
                                    _ => V::Opt(flags.iter().position(|f| *f).map(|i| Box::new(V::Int(i as i128)))),
                                });
                            }
                            _ => {}
                        }
                    }
                }
                let mut args = vec![];
                for a in &mc.args {
                    args.push(self.eval(a)?);
                }
                match (&recv, m.as_str(), args.first()) {
                    (V::Str(x), "repeat", Some(V::Int(n))) if *n >= 0 && *n < 10_000 => return Ok(V::Str(x.repeat(*n as usize))),
                    (V::Char(c), "to_digit", Some(V::Int(radix))) => {
                        let d = char::from_u32(*c).and_then(|ch| ch.to_digit(*radix as u32));
                        return Ok(V::Opt(d.map(|d| Box::new(V::Int(d as i128)))));
                    }
                    (V::Char(c), "is_digit", Some(V::Int(radix))) => {
                        return Ok(V::Bool(char::from_u32(*c).map_or(false, |ch| ch.is_digit(*radix as u32))));
                    }
                    (V::Opt(Some(inner)), "ok_or", Some(_)) | (V::Opt(Some(inner)), "unwrap_or", Some(_)) => return Ok((**inner).clone()),
                    (V::Opt(None), "ok_or", Some(e)) => {
                        return Ok(match e {
                            V::Enum(t) => V::Enum(format!("Err({})", t)),
                            other => V::Enum(format!("Err({:?})", other)),
                        })
                    }
                    (V::Opt(None), "unwrap_or", Some(d)) => return Ok(d.clone()),
                    _ => {}
                }
                if let (V::List(a), "chain", Some(V::List(b))) = (&recv, m.as_str(), args.first()) {
                    let mut v = a.clone();
                    v.extend(b.iter().cloned());
                    return Ok(V::List(v));
                }
                match (&recv, m.as_str()) {
                    (V::Char(c), "is_ascii") => return Ok(V::Bool(*c < 0x80)),
                    (V::Int(c), "is_ascii") => return Ok(V::Bool(*c < 0x80)),
                    (V::Char(c), "len_utf8") => return Ok(V::Int(utf8_len(*c) as i128)),
                    (V::Char(c), "is_ascii_digit") => return Ok(V::Bool((0x30..=0x39).contains(c))),
                    (V::Char(c), "is_ascii_alphabetic") => return Ok(V::Bool((0x41..=0x5a).contains(c) || (0x61..=0x7a).contains(c))),
                    (V::Char(c), "is_ascii_alphanumeric") => return Ok(V::Bool((0x30..=0x39).contains(c) || (0x41..=0x5a).contains(c) || (0x61..=0x7a).contains(c))),
                    (V::Char(c), "is_ascii_lowercase") => return Ok(V::Bool((0x61..=0x7a).contains(c))),
                    (V::Char(c), "is_ascii_uppercase") => return Ok(V::Bool((0x41..=0x5a).contains(c))),
                    _ => {}
                }
                if let Some(v) = (self.methods)(&recv, &m, &args) {
                    return Ok(v);
                }
                Err(format!("method {:?}.{}()", recv, m))
            }
            syn::Expr::Field(_) | syn::Expr::Index(_) => {
                // place expressions such as `self.window[0]`: looked up by their compact text
                let k = sm::tsc(e);
                if let Some(v) = self.get(&k) {
                    return Ok(v);
                }
                // an element of a list value
                if let syn::Expr::Index(ix) = e {
                    if let (Ok(V::List(items)), Ok(V::Int(i))) = (self.eval(&ix.expr), self.eval(&ix.index)) {
                        return items.get(i as usize).cloned().ok_or_else(|| "index out of bounds: the interpreted code panics".to_string());
                    }
                }
                // a field of a record value
                if let syn::Expr::Field(f) = e {
                    if let Ok(V::Rec(m)) = self.eval(&f.base) {
                        let name = sm::ts(&f.member);
                        return m.get(&name).cloned().ok_or_else(|| format!("no field `{}`", name));
                    }
                    if let (Ok(V::Tuple(t)), syn::Member::Unnamed(ix)) = (self.eval(&f.base), &f.member) {
                        return t.get(ix.index as usize).cloned().ok_or_else(|| "tuple index".to_string());
                    }
                    // a field of an opaque value is an opaque value
                    if let Ok(V::Enum(b)) = self.eval(&f.base) {
                        if !b.starts_with("Err(") {
                            return Ok(V::Enum(format!("{}.{}", b, sm::ts(&f.member))));
                        }
                    }
                }
                Err(format!("unbound place `{}`", k))
            }
            syn::Expr::Assign(a) => {
                let v = self.eval(&a.right)?;
                let k = sm::tsc(&a.left);
                if self.assign(&k, v) {
                    Ok(V::Unit)
                } else {
                    Err(format!("assignment to unbound `{}`", k))
                }
            }
            syn::Expr::ForLoop(fl) => {
                let items = match self.eval(&fl.expr)? {
                    V::List(v) => v,
                    other => return Err(format!("for over {:?}", other)),
                };
                for it in items {
                    self.env.push(BTreeMap::new());
                    if !self.pat_matches(&fl.pat, &it)? {
                        self.env.pop();
                        return Err("for pattern".into());
                    }
                    let r = self.eval_block(&fl.body);
                    self.env.pop();
                    match r {
                        Err(e) if e == BREAK_SIGNAL => break,
                        Err(e) if e == CONTINUE_SIGNAL => continue,
                        Err(e) => return Err(e),
                        Ok(_) => {}
                    }
                }
                Ok(V::Unit)
            }
            syn::Expr::Loop(l) => {
                let mut fuel = 10_000;
                loop {
                    fuel -= 1;
                    if fuel == 0 {
                        return Err("loop does not terminate within the fuel bound".into());
                    }
                    match self.eval_block(&l.body) {
                        Err(e) if e == BREAK_SIGNAL => break,
                        Err(e) if e == CONTINUE_SIGNAL => continue,
                        Err(e) => return Err(e),
                        Ok(_) => {}
                    }
                }
                Ok(V::Unit)
            }
            syn::Expr::While(w) => {
                let mut fuel = 10_000;
                loop {
                    fuel -= 1;
                    if fuel == 0 {
                        return Err("loop does not terminate within the fuel bound".into());
                    }
                    match self.eval(&w.cond)? {
                        V::Bool(true) => {}
                        V::Bool(false) => break,
                        o => return Err(format!("while on {:?}", o)),
                    }
                    match self.eval_block(&w.body) {
                        Err(e) if e == BREAK_SIGNAL => break,
                        Err(e) if e == CONTINUE_SIGNAL => continue,
                        Err(e) => return Err(e),
                        Ok(_) => {}
                    }
                }
                Ok(V::Unit)
            }
            syn::Expr::Struct(st) if st.rest.is_none() => {
                // a struct literal is the record of its fields
                let mut m = BTreeMap::new();
                for fv in &st.fields {
                    m.insert(sm::ts(&fv.member), self.eval(&fv.expr)?);
                }
                Ok(V::Rec(m))
            }
            syn::Expr::Break(_) => Err(BREAK_SIGNAL.to_string()),
            syn::Expr::Continue(_) => Err(CONTINUE_SIGNAL.to_string()),
            other => Err(format!("expression `{}`", sm::tsc(other).chars().take(60).collect::<String>())),
        }
    }
}


/// Render a value as a term (opaque values by their text).
pub fn show_term(v: &V) -> String {
    match v {
        V::Enum(s) => s.clone(),
        V::Int(i) => i.to_string(),
        V::Bool(b) => b.to_string(),
        V::Char(c) => format!("{:?}", char::from_u32(*c).unwrap_or('?')),
        V::Str(s) => format!("{:?}", s),
        V::Unit => "()".into(),
        V::Opt(None) => "None".into(),
        V::Opt(Some(x)) => format!("Some({})", show_term(x)),
        V::Tuple(t) => format!("({})", t.iter().map(show_term).collect::<Vec<_>>().join(",")),
        V::List(t) => format!("[{}]", t.iter().map(show_term).collect::<Vec<_>>().join(",")),
        V::Rec(m) => format!("{{{}}}", m.iter().map(|(k, v)| format!("{}:{}", k, show_term(v))).collect::<Vec<_>>().join(",")),
        V::F(x) => format!("{:?}", x),
        V::Ctor(n, p) => format!("{}({})", n, p.iter().map(show_term).collect::<Vec<_>>().join(",")),
    }
}

/// Symbolic evaluation of straight-line code: every call the interpreter does not know becomes an opaque term
/// `recv.method(args)` / `f(args)`, recorded in evaluation order. Two bodies with the same result term and the same
/// call trace compute the same thing with the same effects in the same order, however they name and place their
/// locals. `constructors` maps a constructor call (`SourceRange::new`) to the field names of the record it builds;
/// `.into()` is the identity on terms.
pub fn symbolic(block: &syn::Block, constructors: &[(&str, &[&str])]) -> Result<(String, Vec<String>), String> {
    let trace: std::cell::RefCell<Vec<String>> = std::cell::RefCell::new(vec![]);
    let methods = |recv: &V, m: &str, args: &[V]| -> Option<V> {
        if let V::Unit = recv {
            if let Some((_, fields)) = constructors.iter().find(|(n, _)| *n == m) {
                if fields.len() == args.len() {
                    return Some(V::Rec(fields.iter().map(|f| f.to_string()).zip(args.iter().cloned()).collect()));
                }
            }
            let t = format!("{}({})", m, args.iter().map(show_term).collect::<Vec<_>>().join(","));
            trace.borrow_mut().push(t.clone());
            return Some(V::Enum(t));
        }
        if m == "into" && args.is_empty() {
            return Some(recv.clone());
        }
        let t = format!("{}.{}({})", show_term(recv), m, args.iter().map(show_term).collect::<Vec<_>>().join(","));
        // accessors of opaque values (`user.start()`) are terms, not effects; calls on `self` are effects
        if show_term(recv).starts_with("self") {
            trace.borrow_mut().push(t.clone());
        }
        Some(V::Enum(t))
    };
    let mut mach = Machine::new(&methods);
    let v = mach.eval_fn_body(block)?;
    let t = show_term(&v);
    drop(mach);
    Ok((t, trace.into_inner()))
}
