//! Findings, known-findings matching, evidence writer.

use serde_json::{json, Value};
use std::collections::{BTreeMap, BTreeSet};
use std::path::PathBuf;
use std::time::Instant;

#[derive(Debug, Clone)]
pub struct Finding {
    pub rule: String,
    pub key: String,
    pub loc: String,
    pub msg: String,
}

pub struct Ctx {
    pub prop: String,
    pub tier: String,
    pub repo: PathBuf,
    pub verif: PathBuf,
    pub findings: Vec<Finding>,
    pub instances: BTreeMap<String, usize>,  // rule -> instances examined
    pub discharged: BTreeMap<String, usize>, // rule -> instances that hold
    pub floors: BTreeMap<String, usize>,
    pub samples: Vec<Value>,
    pub units: BTreeMap<String, usize>,
    pub assumed: Vec<String>,
    pub trusted: BTreeSet<String>,
    pub refdata: BTreeSet<String>,
    pub rules_text: BTreeMap<String, String>,
    pub nontrivial_keys: BTreeSet<String>,
    pub start: Instant,
    pub seed: i64,
}

impl Ctx {
    pub fn new(prop: &str, tier: &str, repo: PathBuf, verif: PathBuf) -> Self {
        let seed = std::env::var("VERIF_SEED").ok().and_then(|s| s.parse().ok()).unwrap_or(0);
        Ctx {
            prop: prop.to_string(),
            tier: tier.to_string(),
            repo,
            verif,
            findings: vec![],
            instances: BTreeMap::new(),
            discharged: BTreeMap::new(),
            floors: BTreeMap::new(),
            samples: vec![],
            units: BTreeMap::new(),
            assumed: vec![],
            trusted: BTreeSet::new(),
            refdata: BTreeSet::new(),
            rules_text: BTreeMap::new(),
            nontrivial_keys: BTreeSet::new(),
            start: Instant::now(),
            seed,
        }
    }

    pub fn rule(&mut self, id: &str, statement: &str) {
        self.rules_text.insert(id.to_string(), statement.to_string());
        self.instances.entry(id.to_string()).or_insert(0);
        self.discharged.entry(id.to_string()).or_insert(0);
    }

    /// An instance of `rule` was examined and holds.
    pub fn ok(&mut self, rule: &str, instance: &str) {
        *self.instances.entry(rule.to_string()).or_insert(0) += 1;
        *self.discharged.entry(rule.to_string()).or_insert(0) += 1;
        self.nontrivial_keys.insert(format!("{}::{}", rule, instance));
        let per_rule = self.samples.iter().filter(|s| s["rule"] == rule).count();
        if per_rule < 3 {
            self.samples.push(json!({"rule": rule, "instance": instance, "verdict": "holds"}));
        }
    }
    /// An instance that holds trivially (counted as evaluated, not as non-trivial).
    pub fn ok_trivial(&mut self, rule: &str) {
        *self.instances.entry(rule.to_string()).or_insert(0) += 1;
        *self.discharged.entry(rule.to_string()).or_insert(0) += 1;
    }

    /// An instance of `rule` was examined and is violated.
    pub fn fail(&mut self, rule: &str, key: &str, loc: &str, msg: &str) {
        *self.instances.entry(rule.to_string()).or_insert(0) += 1;
        self.nontrivial_keys.insert(format!("{}::{}", rule, key));
        self.findings.push(Finding { rule: rule.to_string(), key: key.to_string(), loc: loc.to_string(), msg: msg.to_string() });
    }

    pub fn anchor_missing(&mut self, rule: &str, what: &str) {
        self.fail(rule, &format!("{}/anchor-missing/{}", rule, what), "", &format!("anchor missing: {} (fail closed)", what));
    }

    pub fn floor(&mut self, rule: &str, min: usize) {
        self.floors.insert(rule.to_string(), min);
    }

    pub fn unit(&mut self, what: &str, n: usize) {
        *self.units.entry(what.to_string()).or_insert(0) += n;
    }
    pub fn assume(&mut self, text: &str) {
        self.assumed.push(text.to_string());
    }
    pub fn trust(&mut self, text: &str) {
        self.trusted.insert(text.to_string());
    }

    fn check_floors(&mut self) {
        let floors = self.floors.clone();
        for (rule, min) in floors {
            let n = self.instances.get(&rule).copied().unwrap_or(0);
            if n < min {
                self.findings.push(Finding {
                    rule: rule.clone(),
                    key: format!("{}/floor", rule),
                    loc: String::new(),
                    msg: format!("rule matched {} instances, floor is {} (fail closed: anchors moved or rule matches vacuously)", n, min),
                });
            }
        }
    }

    /// Finish: print report, write evidence, return exit code.
    pub fn finish(mut self) -> i32 {
        self.check_floors();
        let known = load_known(&self.verif);
        let mut violations = 0usize;
        let mut known_hit = Vec::new();
        let replay_dir = self.verif.join("evidence").join("replay");
        let mut seen = BTreeSet::new();
        for f in &self.findings {
            // the same site seen in another feature configuration (`RULE@config/...`, thorough tier) is the same finding
            let base_key = {
                let (rule_part, rest) = f.key.split_once('/').unwrap_or((f.key.as_str(), ""));
                let rule_part = rule_part.split('@').next().unwrap_or(rule_part);
                if rest.is_empty() { rule_part.to_string() } else { format!("{}/{}", rule_part, rest) }
            };
            let is_known = known.iter().any(|k| k.0 == self.prop && (k.1 == f.key || k.1 == base_key));
            if !seen.insert(f.key.clone()) {
                continue;
            }
            if is_known {
                let what = known.iter().find(|k| k.0 == self.prop && (k.1 == f.key || k.1 == base_key)).map(|k| k.2.clone()).unwrap_or_default();
                println!("KNOWN-FINDING: property={} {} {} [{}] {}", self.prop, f.key, what, f.loc, f.msg);
                known_hit.push(f.key.clone());
            } else {
                violations += 1;
                let _ = std::fs::create_dir_all(&replay_dir);
                let fname = format!("{}-{}.json", self.prop, sanitize(&f.key));
                let path = replay_dir.join(&fname);
                let v = json!({"property": self.prop, "rule": f.rule, "key": f.key, "location": f.loc, "message": f.msg,
                    "rule_statement": self.rules_text.get(&f.rule).cloned().unwrap_or_default()});
                let _ = std::fs::write(&path, serde_json::to_string_pretty(&v).unwrap());
                println!("FINDING rule={} key={} at {}: {}", f.rule, f.key, f.loc, f.msg);
                println!("VIOLATION property={} replay={}", self.prop, path.display());
            }
        }
        let total_inst: usize = self.instances.values().sum();
        let total_dis: usize = self.discharged.values().sum();
        let wall = self.start.elapsed().as_secs_f64();
        let rules: Vec<Value> = self
            .rules_text
            .iter()
            .map(|(id, text)| {
                json!({"id": id, "statement": text,
                   "instances": self.instances.get(id).copied().unwrap_or(0),
                   "holding": self.discharged.get(id).copied().unwrap_or(0),
                   "floor": self.floors.get(id).copied()})
            })
            .collect();
        let explanation = format!(
            "Static analysis of /repo's current sources for property {} ({} tier): {} rules over {} rule instances; each rule is a structural necessary condition of the property (DESIGN.md section 4); no code of the subject was executed. {} instances hold, {} known findings, {} new violations.",
            self.prop, self.tier, self.rules_text.len(), total_inst, total_dis, known_hit.len(), violations
        );
        let ev = json!({
            "property_id": self.prop,
            "tier": self.tier,
            "seed": self.seed,
            "level": "other",
            "coverage": {
                "explanation": explanation,
                "evaluations": total_inst,
                "distinct_nontrivial": self.nontrivial_keys.len(),
                "rule": "one evaluation = one rule instance (a grammar alternative, match arm, call site, struct field, table entry or path) examined against a rule; distinct_nontrivial counts distinct (rule, instance-key) pairs, excluding instances that hold trivially (e.g. leaf nodes without children)",
                "obligations": total_inst,
                "discharged": total_dis,
                "known_findings": known_hit,
                "samples": self.samples,
                "rules": rules,
                "units_analysed": self.units,
                "justified_sites_assumed": self.assumed,
                "trusted_base": self.trusted.iter().collect::<Vec<_>>(),
                "exhaustive": true,
                "checker_cmd": format!("bin/check {} {}", self.prop, self.tier),
            },
            "assumptions": self.assumed,
            "wall_s": wall,
            "violations": violations,
        });
        let evdir = self.verif.join("evidence");
        let _ = std::fs::create_dir_all(&evdir);
        let _ = std::fs::write(evdir.join(format!("{}.json", self.prop)), serde_json::to_string_pretty(&ev).unwrap() + "\n");
        println!(
            "property={} tier={} rules={} instances={} holding={} known={} violations={} wall={:.2}s",
            self.prop, self.tier, self.rules_text.len(), total_inst, total_dis, known_hit.len(), violations, wall
        );
        if violations > 0 {
            1
        } else {
            0
        }
    }
}

fn sanitize(s: &str) -> String {
    s.chars().map(|c| if c.is_ascii_alphanumeric() || c == '.' || c == '-' { c } else { '_' }).collect()
}

/// (property, key, what)
pub fn load_known(verif: &std::path::Path) -> Vec<(String, String, String)> {
    let p = verif.join("known_findings.json");
    let Ok(text) = std::fs::read_to_string(&p) else { return vec![] };
    let Ok(v) = serde_json::from_str::<Value>(&text) else {
        eprintln!("known_findings.json does not parse; treating as empty");
        return vec![];
    };
    let mut out = vec![];
    if let Some(arr) = v["findings"].as_array() {
        for f in arr {
            let key = f["key"].as_str().unwrap_or("").to_string();
            let what = f["what"].as_str().unwrap_or("").to_string();
            if let Some(props) = f["properties"].as_array() {
                for p in props {
                    out.push((p.as_str().unwrap_or("").to_string(), key.clone(), what.clone()));
                }
            }
            if let Some(p) = f["property"].as_str() {
                out.push((p.to_string(), key.clone(), what.clone()));
            }
        }
    }
    out
}
