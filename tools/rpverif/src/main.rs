mod actionflow;
mod astmodel;
mod eval;
mod g1;
mod grammar;
mod mir;
mod report;
mod rules;
mod srcmodel;
mod gnf;
mod inline;
mod normalize;
mod tables;

use std::path::PathBuf;

fn usage() -> ! {
    eprintln!("usage: rpverif check <ID> <quick|thorough> | rpverif --replay <path> | rpverif grammar-stats");
    std::process::exit(2)
}

fn main() {
    let args: Vec<String> = std::env::args().collect();
    let repo = PathBuf::from(std::env::var("VERIF_REPO").unwrap_or_else(|_| "/repo".into()));
    let verif = PathBuf::from(std::env::var("VERIF_DIR").unwrap_or_else(|_| "/verif".into()));
    match args.get(1).map(|s| s.as_str()) {
        Some("check") => {
            let id = args.get(2).cloned().unwrap_or_else(|| usage());
            let tier = std::env::var("VERIF_TIER").ok().filter(|t| t == "quick" || t == "thorough").or(args.get(3).cloned()).unwrap_or_else(|| "quick".into());
            let mut cx = report::Ctx::new(&id, &tier, repo, verif);
            let known_ids = ["C01", "C02", "C03", "C04", "C05", "C06", "C08", "C09", "C11", "C16", "C10", "C12", "C13", "C14", "C18", "C19"];
            if !known_ids.contains(&id.as_str()) {
                eprintln!("no check for {}", id);
                std::process::exit(2)
            }
            // a panic inside a rule is a checker defect: fail closed with a VIOLATION line
            let r = std::panic::catch_unwind(std::panic::AssertUnwindSafe(|| {
                match id.as_str() {
                    "C01" => rules::c01::run(&mut cx),
                    "C02" => rules::c02::run(&mut cx),
                    "C03" => rules::c03::run(&mut cx),
                    "C04" => rules::c04::run(&mut cx),
                    "C05" => rules::c05::run(&mut cx),
                    "C06" => rules::c06::run(&mut cx),
                    "C16" => rules::c16::run(&mut cx),
                    "C18" => rules::c18::run(&mut cx),
                    "C19" => rules::c19::run(&mut cx),
                    "C08" => rules::c08::run(&mut cx),
                    "C09" => rules::c09::run(&mut cx),
                    "C10" => rules::c10::run(&mut cx),
                    "C11" => rules::c11::run(&mut cx),
                    "C12" => rules::c12::run(&mut cx),
                    "C13" => rules::c13::run(&mut cx),
                    "C14" => rules::c14::run(&mut cx),
                    _ => unreachable!(),
                }
            }));
            if r.is_err() {
                cx.fail("checker", &format!("{}/checker-panic", id), "", "a rule panicked while analysing the tree (unrecognised shape); failing closed");
            }
            std::process::exit(cx.finish());
        }
        Some("--replay") => {
            let p = args.get(2).cloned().unwrap_or_else(|| usage());
            let text = std::fs::read_to_string(&p).unwrap_or_else(|e| {
                eprintln!("{}: {}", p, e);
                std::process::exit(2)
            });
            let v: serde_json::Value = serde_json::from_str(&text).unwrap();
            println!("replay of {}: re-running property {} and filtering for key {}", p, v["property"], v["key"]);
            println!("rule {}: {}", v["rule"], v["rule_statement"]);
            println!("recorded: {} at {}", v["message"], v["location"]);
            let exe = std::env::current_exe().unwrap();
            let out = std::process::Command::new(exe).arg("check").arg(v["property"].as_str().unwrap()).arg("quick").output().unwrap();
            let text = String::from_utf8_lossy(&out.stdout);
            let key = v["key"].as_str().unwrap_or("");
            let mut hit = false;
            for l in text.lines() {
                if l.contains(key) {
                    println!("{}", l);
                    hit = true;
                }
            }
            if hit {
                println!("VIOLATION property={} replay={}", v["property"].as_str().unwrap(), p);
                std::process::exit(1)
            } else {
                println!("not reproduced on the current tree");
                std::process::exit(0)
            }
        }
        Some("dump-private-fns") => {
            // development aid: regenerate refdata/private_fns.json from the current (reviewed) tree
            let mut files: Vec<String> = vec![];
            for d in ["parser/src", "ast/src", "core/src", "format/src", "literal/src", "vendored/src/source_location", "vendored/src/text_size"] {
                if let Ok(rd) = std::fs::read_dir(repo.join(d)) {
                    for e in rd.flatten() {
                        let p = e.path();
                        if p.extension().map_or(false, |x| x == "rs") && p.file_name().map_or(true, |n| n != "python.rs") {
                            files.push(format!("{}/{}", d, p.file_name().unwrap().to_string_lossy()));
                        }
                    }
                }
            }
            files.sort();
            let mut out = serde_json::Map::new();
            std::env::remove_var("VERIF_DIR");
            for rel in files.iter().map(|s| s.as_str()) {
                if let Ok(src) = srcmodel::load(&repo, rel) {
                    let v: Vec<serde_json::Value> = srcmodel::private_fns(&src.file).into_iter().map(|(o, n, s)| serde_json::json!([o, n, s])).collect();
                    out.insert(rel.to_string(), serde_json::Value::Array(v));
                }
            }
            println!("{}", serde_json::to_string_pretty(&serde_json::Value::Object(out)).unwrap());
        }
        Some("dump-grammar-normal-form") => {
            // development aid: regenerate refdata/grammar_normal_form.json from the reviewed grammar
            let verif = std::env::var("VERIF_DIR").unwrap_or_else(|_| "/verif".into());
            let names: serde_json::Value = serde_json::from_str(&std::fs::read_to_string(std::path::Path::new(&verif).join("refdata/nonterminals.json")).unwrap()).unwrap();
            let reviewed: std::collections::BTreeSet<String> = names.as_array().unwrap().iter().filter_map(|r| r.get(0)?.as_str().map(|s| s.to_string())).collect();
            match tables::load_grammar(&repo) {
                Ok(g) => match gnf::normal_form(&g, &reviewed) {
                    Ok(nf) => println!("{}", serde_json::to_string_pretty(&nf).unwrap()),
                    Err(e) => {
                        eprintln!("{}", e);
                        std::process::exit(1)
                    }
                },
                Err(e) => {
                    eprintln!("{}", e);
                    std::process::exit(1)
                }
            }
        }
        Some("dump-expr-wiring") => {
            // development aid: regenerate refdata/expr_wiring.json from the reviewed grammar
            std::env::remove_var("VERIF_DIR");
            match tables::load_grammar(&repo) {
                Ok(g) => println!("{}", serde_json::to_string(&rules::grammar_rules::expr_wiring_of(&g).into_iter().map(|(a, b, c, d, e)| serde_json::json!([a, b, c, d, e])).collect::<Vec<_>>()).unwrap()),
                Err(e) => {
                    eprintln!("{}", e);
                    std::process::exit(1)
                }
            }
        }
        Some("dump-nonterminals") => {
            // development aid: regenerate refdata/nonterminals.json from the reviewed grammar
            std::env::remove_var("VERIF_DIR");
            match tables::load_grammar(&repo) {
                Ok(g) => println!("{}", serde_json::to_string(&tables::nonterminal_signatures(&g).into_iter().map(|(a, b, c, d)| serde_json::json!([a, b, c, d])).collect::<Vec<_>>()).unwrap()),
                Err(e) => {
                    eprintln!("{}", e);
                    std::process::exit(1)
                }
            }
        }
        Some("dump-consts") => {
            // development aid: regenerate refdata/consts.json (names of all const items per file) from the reviewed tree
            let mut out = serde_json::Map::new();
            let mut files: Vec<String> = vec![];
            for d in ["parser/src", "ast/src", "core/src", "format/src", "literal/src", "vendored/src/source_location", "vendored/src/text_size"] {
                if let Ok(rd) = std::fs::read_dir(repo.join(d)) {
                    for e in rd.flatten() {
                        let p = e.path();
                        if p.extension().map_or(false, |x| x == "rs") {
                            files.push(format!("{}/{}", d, p.file_name().unwrap().to_string_lossy()));
                        }
                    }
                }
            }
            files.sort();
            for rel in files {
                if rel.ends_with("python.rs") {
                    continue;
                }
                if let Ok(text) = std::fs::read_to_string(repo.join(&rel)) {
                    if let Ok(file) = syn::parse_file(&text) {
                        out.insert(rel.to_string(), serde_json::json!(srcmodel::const_names(&file)));
                    }
                }
            }
            println!("{}", serde_json::to_string(&serde_json::Value::Object(out)).unwrap());
        }
        Some("dump-fn-params") => {
            // development aid: regenerate refdata/fn_params.json from the current (reviewed) tree
            let mut out = serde_json::Map::new();
            std::env::remove_var("VERIF_DIR");
            let mut files: Vec<String> = vec![];
            for d in ["parser/src", "ast/src", "core/src", "format/src", "literal/src", "vendored/src/source_location", "vendored/src/text_size"] {
                if let Ok(rd) = std::fs::read_dir(repo.join(d)) {
                    for e in rd.flatten() {
                        let p = e.path();
                        if p.extension().map_or(false, |x| x == "rs") {
                            files.push(format!("{}/{}", d, p.file_name().unwrap().to_string_lossy()));
                        }
                    }
                }
            }
            files.sort();
            for rel in files {
                if rel.ends_with("python.rs") {
                    continue;
                }
                if let Ok(text) = std::fs::read_to_string(repo.join(&rel)) {
                    if let Ok(file) = syn::parse_file(&text) {
                        let v: Vec<serde_json::Value> = srcmodel::fn_params(&file).into_iter().filter(|(_, _, ps)| !ps.is_empty()).map(|(o, n, ps)| serde_json::json!([o, n, ps.into_iter().map(|(a, b)| vec![a, b]).collect::<Vec<_>>()])).collect();
                        if !v.is_empty() {
                            out.insert(rel.to_string(), serde_json::Value::Array(v));
                        }
                    }
                }
            }
            println!("{}", serde_json::to_string(&serde_json::Value::Object(out)).unwrap());
        }
        Some("dump-exits") => {
            // development aid: exits (decisions -> result) of the functions named `name` in a source file
            let rel = args.get(2).cloned().unwrap_or_else(|| usage());
            let name = args.get(3).cloned().unwrap_or_else(|| usage());
            if let Ok(src) = srcmodel::load(&repo, &rel) {
                for f in src.all_free_fns() {
                    if f.sig.ident == name {
                        for e in srcmodel::exits(&f.block) {
                            println!("{:?} => {}", e.conds, e.result.chars().take(90).collect::<String>());
                        }
                    }
                }
                for i in src.impls() {
                    for it in &i.items {
                        if let syn::ImplItem::Fn(f) = it {
                            if f.sig.ident == name {
                                for e in srcmodel::exits(&f.block) {
                                    println!("{:?} => {}", e.conds, e.result.chars().take(90).collect::<String>());
                                }
                            }
                        }
                    }
                }
            }
        }
        Some("dump-fn") => {
            // development aid: normalised compact text of the functions named `name` in a source file
            let rel = args.get(2).cloned().unwrap_or_else(|| usage());
            let name = args.get(3).cloned().unwrap_or_else(|| usage());
            match srcmodel::load(&repo, &rel) {
                Ok(src) => {
                    for f in src.all_free_fns() {
                        if f.sig.ident == name {
                            println!("{}", srcmodel::tsc(&f.block));
                        }
                    }
                    for i in src.impls() {
                        for it in &i.items {
                            if let syn::ImplItem::Fn(f) = it {
                                if f.sig.ident == name {
                                    println!("{}", srcmodel::tsc(&f.block));
                                }
                            }
                        }
                    }
                }
                Err(e) => {
                    eprintln!("{}", e);
                    std::process::exit(1)
                }
            }
        }
        Some("dump-tokens") => {
            // development aid: flattened tokens of a source file, one per line
            let rel = args.get(2).cloned().unwrap_or_else(|| usage());
            match srcmodel::load(&repo, &rel) {
                Ok(src) => {
                    for t in srcmodel::tsx(&src.file).toks {
                        println!("{}", t);
                    }
                }
                Err(e) => {
                    eprintln!("{}", e);
                    std::process::exit(1)
                }
            }
        }
        Some("grammar-stats") => {
            let text = std::fs::read_to_string(repo.join("parser/src/python.lalrpop")).unwrap();
            match grammar::parse_grammar(&text) {
                Ok(g) => println!("defs={} alts={} actions={} fallible={} externs={}", g.defs.len(), g.n_alts(), g.n_actions(), g.n_fallible(), g.externs.len()),
                Err(e) => {
                    println!("error: {}", e);
                    std::process::exit(1)
                }
            }
        }
        _ => usage(),
    }
}
