//! Binding positions inside grammar actions (DESIGN A.2): a tiny forward dataflow that maps each
//! local of an action to the interval of alternative-symbol positions it derives from.

use crate::grammar::{Alt, Sym, SymKind};
use crate::srcmodel as sm;
use std::collections::BTreeMap;

/// position = (symbol index in the alternative, tuple component or 0)
pub type P = (usize, usize);

#[derive(Debug, Clone, PartialEq)]
pub struct Pos {
    pub lo: P,
    pub hi: P,
    /// names of the top-level bindings this value derives from
    pub roots: Vec<String>,
}

impl Pos {
    pub fn join(a: &Option<Pos>, b: &Option<Pos>) -> Option<Pos> {
        match (a, b) {
            (None, x) | (x, None) => x.clone(),
            (Some(x), Some(y)) => {
                let mut roots = x.roots.clone();
                for r in &y.roots {
                    if !roots.contains(r) {
                        roots.push(r.clone());
                    }
                }
                Some(Pos { lo: x.lo.min(y.lo), hi: x.hi.max(y.hi), roots })
            }
        }
    }
}

#[derive(Debug, Clone, Default)]
pub struct Var {
    pub pos: Option<Pos>,
    pub unknown: bool, // reassigned: position not meaningful
    pub direct: bool,  // is itself a top-level binding (tuple projections refine the sub index)
}

#[derive(Debug, Clone)]
pub struct StructLit {
    pub ty: String,
    pub fields: Vec<(String, Option<Pos>, bool /*unknown*/, String /*expr text*/)>,
    pub line_hint: String,
    pub in_loop: bool,
    pub in_closure: bool,
    /// the `range` field's expression, if any
    pub range_expr: Option<syn::Expr>,
    /// environment at the point of construction (only kept for literals with a range)
    pub env: BTreeMap<String, Var>,
    /// local definitions visible at that point: ident -> initialiser
    pub defs: BTreeMap<String, syn::Expr>,
    /// compact text of the whole literal
    pub text: String,
}

pub struct Flow {
    pub env: BTreeMap<String, Var>,
    pub lits: Vec<StructLit>,
    pub defs: BTreeMap<String, syn::Expr>,
    /// calls `path(args)` seen in the action with the environment at that point: (callee text, args, env)
    pub calls: Vec<(String, Vec<syn::Expr>, BTreeMap<String, Var>, BTreeMap<String, syn::Expr>)>,
    /// assignments to a field of a top-level binding: (binding, field, value expr)
    pub field_assigns: Vec<(String, String, syn::Expr)>,
    in_loop: bool,
    in_closure: bool,
}

pub fn binding_index(alt: &Alt) -> BTreeMap<String, usize> {
    let mut m = BTreeMap::new();
    for (i, s) in alt.syms.iter().enumerate() {
        if let Some(b) = &s.binding {
            m.insert(b.clone(), i);
        }
    }
    m
}

impl Flow {
    pub fn new(alt: &Alt) -> Flow {
        Self::with_locations(alt, true)
    }

    /// `include_loc = false` leaves the @L/@R captures out of the environment, so that positions
    /// describe only the source parts (symbols) a value is built from.
    pub fn with_locations(alt: &Alt, include_loc: bool) -> Flow {
        let mut env = BTreeMap::new();
        for (i, s) in alt.syms.iter().enumerate() {
            if !include_loc && matches!(s.kind, SymKind::Lookahead | SymKind::Lookbehind) {
                continue;
            }
            if let Some(b) = &s.binding {
                env.insert(b.clone(), Var { pos: Some(Pos { lo: (i, 0), hi: (i, usize::MAX), roots: vec![b.clone()] }), unknown: false, direct: true });
            }
        }
        Flow { env, lits: vec![], defs: BTreeMap::new(), calls: vec![], field_assigns: vec![], in_loop: false, in_closure: false }
    }

    pub fn pos_of(&self, e: &syn::Expr) -> (Option<Pos>, bool) {
        // projection x.N on a direct binding
        let e0 = sm::peel(e);
        if let syn::Expr::Field(f) = e0 {
            if let (Some(base), syn::Member::Unnamed(ix)) = (sm::as_ident(sm::peel(&f.base)), &f.member) {
                if let Some(v) = self.env.get(&base) {
                    if v.direct || v.pos.as_ref().map_or(false, |p| p.lo.0 == p.hi.0) {
                        if let Some(p) = &v.pos {
                            let k = ix.index as usize;
                            return (Some(Pos { lo: (p.lo.0, k), hi: (p.lo.0, k), roots: p.roots.clone() }), v.unknown);
                        }
                    }
                }
            }
        }
        let mut pos = None;
        let mut unknown = false;
        // handle nested projections inside larger expressions
        let mut consumed: Vec<String> = vec![];
        sm::for_each_expr(e, |x| {
            if let syn::Expr::Field(f) = x {
                if let (Some(base), syn::Member::Unnamed(ix)) = (sm::as_ident(sm::peel(&f.base)), &f.member) {
                    if let Some(v) = self.env.get(&base) {
                        if let Some(p) = &v.pos {
                            if p.lo.0 == p.hi.0 {
                                let k = ix.index as usize;
                                pos = Pos::join(&pos, &Some(Pos { lo: (p.lo.0, k), hi: (p.lo.0, k), roots: p.roots.clone() }));
                                unknown |= v.unknown;
                                consumed.push(base);
                            }
                        }
                    }
                }
            }
        });
        for id in sm::idents_in(e) {
            if consumed.contains(&id) {
                continue;
            }
            if let Some(v) = self.env.get(&id) {
                pos = Pos::join(&pos, &v.pos);
                unknown |= v.unknown;
            }
        }
        (pos, unknown)
    }

    fn bind_pat(&mut self, pat: &syn::Pat, init: Option<&syn::Expr>) {
        let (pos, unknown) = init.map(|e| self.pos_of(e)).unwrap_or((None, false));
        // tuple destructuring of a single-symbol value refines the component index
        let pat_inner = if let syn::Pat::Type(t) = pat { &*t.pat } else { pat };
        if let (syn::Pat::Tuple(t), Some(p)) = (pat_inner, &pos) {
            let single = p.lo.0 == p.hi.0;
            let plain = init.map_or(false, |e| {
                let e = sm::peel(e);
                sm::as_ident(e).is_some() || matches!(e, syn::Expr::MethodCall(mc) if sm::as_ident(sm::peel(&mc.receiver)).is_some() && (mc.method == "unwrap_or" || mc.method == "unwrap_or_default" || mc.method == "unwrap"))
            });
            if single && plain {
                for (k, el) in t.elems.iter().enumerate() {
                    let mut ids = vec![];
                    sm::pat_idents(el, &mut ids);
                    for id in ids {
                        self.env.insert(id, Var { pos: Some(Pos { lo: (p.lo.0, k), hi: (p.lo.0, k), roots: p.roots.clone() }), unknown, direct: false });
                    }
                }
                return;
            }
        }
        let mut ids = vec![];
        sm::pat_idents(pat, &mut ids);
        for id in ids {
            self.env.insert(id, Var { pos: pos.clone(), unknown, direct: false });
        }
    }

    fn collect_lits(&mut self, e: &syn::Expr) {
        struct V<'f> {
            flow: &'f Flow,
            closure_depth: usize,
            found: Vec<StructLit>,
            calls: Vec<(String, Vec<syn::Expr>)>,
        }
        impl<'a, 'f> syn::visit::Visit<'a> for V<'f> {
            fn visit_expr_closure(&mut self, c: &'a syn::ExprClosure) {
                self.closure_depth += 1;
                syn::visit::visit_expr_closure(self, c);
                self.closure_depth -= 1;
            }
            fn visit_expr_call(&mut self, c: &'a syn::ExprCall) {
                self.calls.push((sm::tsc(&c.func), c.args.iter().cloned().collect()));
                syn::visit::visit_expr_call(self, c);
            }
            fn visit_expr_struct(&mut self, s: &'a syn::ExprStruct) {
                let ty = s.path.segments.last().map(|p| p.ident.to_string()).unwrap_or_default();
                let mut fields = vec![];
                let mut range_expr = None;
                for fv in &s.fields {
                    let name = sm::ts(&fv.member).trim_start_matches("r#").to_string();
                    let (p, u) = self.flow.pos_of(&fv.expr);
                    if name == "range" {
                        range_expr = Some(fv.expr.clone());
                    }
                    fields.push((name, p, u, sm::tsc(&fv.expr)));
                }
                let keep = range_expr.is_some();
                self.found.push(StructLit {
                    ty,
                    fields,
                    line_hint: String::new(),
                    in_loop: self.flow.in_loop,
                    in_closure: self.flow.in_closure || self.closure_depth > 0,
                    range_expr,
                    env: if keep { self.flow.env.clone() } else { BTreeMap::new() },
                    defs: if keep { self.flow.defs.clone() } else { BTreeMap::new() },
                    text: sm::tsc(s),
                });
                syn::visit::visit_expr_struct(self, s);
            }
        }
        use syn::visit::Visit;
        let mut v = V { flow: self, closure_depth: 0, found: vec![], calls: vec![] };
        v.visit_expr(e);
        let found = v.found;
        let calls = v.calls;
        self.lits.extend(found);
        for (f, a) in calls {
            let env = self.env.clone();
            let defs = self.defs.clone();
            self.calls.push((f, a, env, defs));
        }
    }

    pub fn run_expr(&mut self, e: &syn::Expr) {
        match e {
            syn::Expr::Block(b) => self.run_block(&b.block),
            _ => self.run_stmt_expr(e),
        }
    }

    fn run_stmt_expr(&mut self, e: &syn::Expr) {
        match e {
            syn::Expr::ForLoop(fl) => {
                self.collect_lits(&fl.expr);
                let (pos, unknown) = self.pos_of(&fl.expr);
                let mut ids = vec![];
                sm::pat_idents(&fl.pat, &mut ids);
                for id in ids {
                    self.env.insert(id, Var { pos: pos.clone(), unknown, direct: false });
                }
                let saved = self.in_loop;
                self.in_loop = true;
                self.run_block(&fl.body);
                self.in_loop = saved;
            }
            syn::Expr::If(i) => {
                self.collect_lits(&i.cond);
                self.run_block(&i.then_branch);
                if let Some((_, el)) = &i.else_branch {
                    self.run_expr(el);
                }
            }
            syn::Expr::Assign(a) => {
                self.collect_lits(&a.right);
                if let Some(id) = sm::as_ident(&a.left) {
                    let (pos, _) = self.pos_of(&a.right);
                    let old = self.env.get(&id).and_then(|v| v.pos.clone());
                    self.env.insert(id, Var { pos: Pos::join(&old, &pos), unknown: true, direct: false });
                } else if let syn::Expr::Field(f) = &*a.left {
                    // x.field = value : x now also derives from value
                    if let Some(id) = sm::as_ident(sm::peel(&f.base)) {
                        self.field_assigns.push((id.clone(), sm::ts(&f.member), (*a.right).clone()));
                        let (pos, _) = self.pos_of(&a.right);
                        if let Some(v) = self.env.get_mut(&id) {
                            v.pos = Pos::join(&v.pos, &pos);
                            v.direct = false;
                        }
                    }
                }
            }
            syn::Expr::MethodCall(mc) if (mc.method == "push" || mc.method == "extend" || mc.method == "push_str") => {
                for a in &mc.args {
                    self.collect_lits(a);
                }
                if let Some(id) = sm::as_ident(sm::peel(&mc.receiver)) {
                    let mut pos = None;
                    for a in &mc.args {
                        pos = Pos::join(&pos, &self.pos_of(a).0);
                    }
                    if let Some(v) = self.env.get_mut(&id) {
                        v.pos = Pos::join(&v.pos, &pos);
                        v.direct = false;
                    }
                }
            }
            syn::Expr::Match(m) => {
                self.collect_lits(&m.expr);
                for arm in &m.arms {
                    // pattern bindings derive from the scrutinee
                    let (pos, unknown) = self.pos_of(&m.expr);
                    let mut ids = vec![];
                    sm::pat_idents(&arm.pat, &mut ids);
                    for id in ids {
                        if !id.chars().next().map_or(false, |c| c.is_uppercase()) {
                            self.env.insert(id, Var { pos: pos.clone(), unknown, direct: false });
                        }
                    }
                    self.run_expr(&arm.body);
                }
            }
            syn::Expr::Return(r) => {
                if let Some(x) = &r.expr {
                    self.run_expr(x)
                }
            }
            syn::Expr::Try(t) => self.run_expr(&t.expr),
            syn::Expr::Paren(p) => self.run_expr(&p.expr),
            _ => self.collect_lits(e),
        }
    }

    pub fn run_block(&mut self, b: &syn::Block) {
        for s in &b.stmts {
            match s {
                syn::Stmt::Local(l) => {
                    if let Some(init) = &l.init {
                        // struct literals in the initialiser see the environment before the binding
                        match &*init.expr {
                            syn::Expr::If(_) | syn::Expr::Match(_) | syn::Expr::Block(_) => self.run_expr(&init.expr),
                            other => self.collect_lits(other),
                        }
                        self.bind_pat(&l.pat, Some(&init.expr));
                        let mut ids = vec![];
                        sm::pat_idents(&l.pat, &mut ids);
                        if ids.len() == 1 {
                            self.defs.insert(ids[0].clone(), (*init.expr).clone());
                        }
                    } else {
                        self.bind_pat(&l.pat, None);
                    }
                }
                syn::Stmt::Expr(e, _) => self.run_expr(e),
                syn::Stmt::Macro(m) => {
                    let _ = m;
                }
                syn::Stmt::Item(_) => {}
            }
        }
    }
}

/// Selected inner symbols of a group symbol (for tuple projections): returns the syms that form
/// the tuple value of `(…)`: the `<..>`-selected ones if any, else all.
pub fn group_components(s: &Sym) -> Vec<&Sym> {
    if let SymKind::Group(v) = &s.kind {
        let sel: Vec<&Sym> = v.iter().filter(|x| x.selected).collect();
        if sel.is_empty() {
            v.iter().collect()
        } else {
            sel
        }
    } else {
        vec![]
    }
}
