//! Syntactic normal form of the subject's source (applied once when a file is loaded).
//!
//! Rules compare and interpret syntax trees. To keep them independent of how a decision is *spelled*,
//! equivalent spellings are rewritten to one form first:
//!
//!  * `if let P = E {A} else {B}`, `if matches!(E, P) {A} else {B}`, `if E == Some(lit) {A} else {B}`,
//!    `if E.is_none() {A} else {B}`                      ->  `match E { P => {A}, _ => {B} }`
//!  * `while let P = E {B}`, `while matches!(E, P) {B}`  ->  `loop { match E { P => {B}, _ => break } }`
//!  * character-class patterns: `Some('a') | Some('b')` -> `Some('a'..='b')`; alternatives sorted, adjacent
//!    code points merged into ranges
//!  * match arms whose patterns are pairwise disjoint, unguarded character classes / enum variants are sorted
//!    (wildcard and `None` last)
//!  * `a > b` -> `b < a`, `a >= b` -> `b <= a`, `!(a == b)` -> `a != b`, redundant parentheses dropped
//!
//! (literal spellings are canonicalised when text is rendered, see srcmodel::canon_literal). The rewrites are
//! sound for the types they are applied to in this code base (`Option<char>`, `char`, integers, field-less enum
//! variants: structural equality = pattern matching); they are used for comparison only, never to generate code.

use crate::srcmodel as sm;
use std::collections::{BTreeMap, BTreeSet};
use syn::visit_mut::{self, VisitMut};

pub struct Normalizer;

fn block_expr(stmts: Vec<syn::Stmt>) -> syn::Expr {
    syn::Expr::Block(syn::ExprBlock { attrs: vec![], label: None, block: syn::Block { brace_token: Default::default(), stmts } })
}

fn wild_arm(body: syn::Expr) -> syn::Arm {
    syn::Arm { attrs: vec![], pat: syn::Pat::Wild(syn::PatWild { attrs: vec![], underscore_token: Default::default() }), guard: None, fat_arrow_token: Default::default(), body: Box::new(body), comma: Some(Default::default()) }
}

fn arm(pat: syn::Pat, body: syn::Expr) -> syn::Arm {
    syn::Arm { attrs: vec![], pat, guard: None, fat_arrow_token: Default::default(), body: Box::new(body), comma: Some(Default::default()) }
}

fn mk_match(scrut: syn::Expr, arms: Vec<syn::Arm>) -> syn::Expr {
    syn::Expr::Match(syn::ExprMatch { attrs: vec![], match_token: Default::default(), expr: Box::new(scrut), brace_token: Default::default(), arms })
}

fn parse_pat(s: &str) -> Option<syn::Pat> {
    syn::parse::Parser::parse_str(syn::Pat::parse_multi_with_leading_vert, s).ok()
}

/// `Some(lit)` / `None` / `lit` / `[Some(lit); n]` as a pattern
fn expr_as_pat(e: &syn::Expr) -> Option<syn::Pat> {
    match e {
        syn::Expr::Lit(l) if matches!(l.lit, syn::Lit::Char(_) | syn::Lit::Int(_) | syn::Lit::Byte(_) | syn::Lit::Bool(_)) => parse_pat(&sm::ts(e)),
        syn::Expr::Path(p) if p.path.is_ident("None") => parse_pat("None"),
        syn::Expr::Call(c) if sm::tsc(&c.func) == "Some" && c.args.len() == 1 => {
            let inner = expr_as_pat(&c.args[0])?;
            parse_pat(&format!("Some({})", sm::ts(&inner)))
        }
        syn::Expr::Repeat(r) => {
            let n: usize = sm::tsc(&r.len).parse().ok()?;
            if n == 0 || n > 4 {
                return None;
            }
            let one = expr_as_pat(&r.expr)?;
            parse_pat(&format!("[{}]", vec![sm::ts(&one); n].join(", ")))
        }
        syn::Expr::Paren(p) => expr_as_pat(&p.expr),
        _ => None,
    }
}

/// condition -> (scrutinee, pattern, negated)
fn cond_as_test(cond: &syn::Expr) -> Option<(syn::Expr, syn::Pat, bool)> {
    match cond {
        syn::Expr::Paren(p) => cond_as_test(&p.expr),
        syn::Expr::Let(l) => Some(((*l.expr).clone(), (*l.pat).clone(), false)),
        syn::Expr::Unary(u) if matches!(u.op, syn::UnOp::Not(_)) => match &*u.expr {
            // only `!matches!(..)` / `!(x == lit)` style
            inner => cond_as_test(inner).filter(|_| !matches!(inner, syn::Expr::Let(_))).map(|(s, p, n)| (s, p, !n)),
        },
        syn::Expr::Binary(b) if matches!(b.op, syn::BinOp::Eq(_) | syn::BinOp::Ne(_)) => {
            let neg = matches!(b.op, syn::BinOp::Ne(_));
            // only Option-like / character operands: integer and boolean comparisons stay comparisons
            let optlike = |e: &syn::Expr| -> bool {
                let mut x = e;
                while let syn::Expr::Paren(p) = x {
                    x = &p.expr;
                }
                match x {
                    syn::Expr::Call(c) => sm::tsc(&c.func) == "Some",
                    syn::Expr::Path(p) => p.path.is_ident("None"),
                    syn::Expr::Repeat(_) => true,
                    syn::Expr::Lit(l) => matches!(l.lit, syn::Lit::Char(_)),
                    _ => false,
                }
            };
            if optlike(&b.right) {
                expr_as_pat(&b.right).map(|p| ((*b.left).clone(), p, neg))
            } else if optlike(&b.left) {
                expr_as_pat(&b.left).map(|p| ((*b.right).clone(), p, neg))
            } else {
                None
            }
        }
        syn::Expr::Binary(b) if matches!(b.op, syn::BinOp::Or(_)) => {
            // `x == 'a' || x == 'b'` / `matches!(x, 'a') || x == 'b'` on one side-effect-free scrutinee: one test
            fn pure_place(e: &syn::Expr) -> bool {
                match e {
                    syn::Expr::Path(_) | syn::Expr::Lit(_) => true,
                    syn::Expr::Field(f) => pure_place(&f.base),
                    syn::Expr::Index(i) => pure_place(&i.expr) && pure_place(&i.index),
                    syn::Expr::Paren(p) => pure_place(&p.expr),
                    syn::Expr::Unary(u) => matches!(u.op, syn::UnOp::Deref(_)) && pure_place(&u.expr),
                    _ => false,
                }
            }
            let (ls, lp, ln) = cond_as_test(&b.left)?;
            let (rs, rp, rn) = cond_as_test(&b.right)?;
            if ln || rn || !pure_place(&ls) || sm::tsc(&ls) != sm::tsc(&rs) {
                return None;
            }
            if matches!(&*b.left, syn::Expr::Let(_)) || matches!(&*b.right, syn::Expr::Let(_)) {
                return None;
            }
            let binds = |p: &syn::Pat| sm::ts(p).split(|c: char| !c.is_alphanumeric() && c != '_' && c != '\'').any(|w| w.chars().next().map_or(false, |c| c.is_lowercase()) && !w.starts_with('\''));
            if binds(&lp) || binds(&rp) {
                return None;
            }
            let joined = parse_pat(&format!("{} | {}", sm::ts(&lp), sm::ts(&rp)))?;
            Some((ls, joined, false))
        }
        syn::Expr::Macro(m) if m.mac.path.is_ident("matches") => {
            let parsed = m.mac.parse_body_with(|input: syn::parse::ParseStream| {
                let e: syn::Expr = input.parse()?;
                input.parse::<syn::Token![,]>()?;
                let p = syn::Pat::parse_multi_with_leading_vert(input)?;
                if input.peek(syn::Token![if]) {
                    return Err(input.error("guard"));
                }
                let _ = input.parse::<Option<syn::Token![,]>>();
                Ok((e, p))
            });
            parsed.ok().map(|(e, p)| (e, p, false))
        }
        syn::Expr::MethodCall(mc) if mc.args.is_empty() && mc.method == "is_none" => Some(((*mc.receiver).clone(), parse_pat("None")?, false)),
        syn::Expr::MethodCall(mc) if mc.args.is_empty() && mc.method == "is_some" => Some(((*mc.receiver).clone(), parse_pat("Some(_)")?, false)),
        _ => None,
    }
}

/// `X[..n] == [E; n]` or `X[..n] == [E0, .., En-1]` (either side) as a conjunction of element comparisons.
fn slice_compare_as_elements(b: &syn::ExprBinary) -> Option<syn::Expr> {
    fn prefix_slice(e: &syn::Expr) -> Option<(syn::Expr, usize)> {
        if let syn::Expr::Index(ix) = e {
            if let syn::Expr::Range(r) = &*ix.index {
                if r.start.is_none() && matches!(r.limits, syn::RangeLimits::HalfOpen(_)) {
                    let n: usize = sm::tsc(r.end.as_ref()?).parse().ok()?;
                    return Some(((*ix.expr).clone(), n));
                }
            }
        }
        None
    }
    fn elements(e: &syn::Expr) -> Option<Vec<syn::Expr>> {
        match e {
            syn::Expr::Repeat(r) => {
                let n: usize = sm::tsc(&r.len).parse().ok()?;
                // the repeated element is evaluated once per use below: it must be free of effects
                let t = sm::tsc(&r.expr);
                if t.contains("()") || t.contains('!') || t.contains('{') {
                    return None;
                }
                Some(vec![(*r.expr).clone(); n])
            }
            syn::Expr::Array(a) => Some(a.elems.iter().cloned().collect()),
            syn::Expr::Paren(p) => elements(&p.expr),
            _ => None,
        }
    }
    let ((base, n), elems) = match (prefix_slice(&b.left), elements(&b.right)) {
        (Some(s), Some(e)) => (s, e),
        _ => match (prefix_slice(&b.right), elements(&b.left)) {
            (Some(s), Some(e)) => (s, e),
            _ => return None,
        },
    };
    if n != elems.len() || n == 0 || n > 4 {
        return None;
    }
    let ne = matches!(b.op, syn::BinOp::Ne(_));
    let mut out: Option<syn::Expr> = None;
    for (k, el) in elems.into_iter().enumerate() {
        let idx = syn::Index::from(k);
        let one: syn::Expr = if ne { syn::parse_quote!(#base[#idx] != #el) } else { syn::parse_quote!(#base[#idx] == #el) };
        out = Some(match out {
            None => one,
            Some(prev) => {
                if ne {
                    syn::parse_quote!(#prev || #one)
                } else {
                    syn::parse_quote!(#prev && #one)
                }
            }
        });
    }
    out
}

// ---------------------------------------------------------------- pattern canonicalisation

fn char_lit_of(p: &syn::Pat) -> Option<char> {
    if let syn::Pat::Lit(l) = p {
        if let syn::Lit::Char(c) = &l.lit {
            return Some(c.value());
        }
    }
    None
}

fn char_of_expr(e: &syn::Expr) -> Option<char> {
    if let syn::Expr::Lit(l) = e {
        if let syn::Lit::Char(c) = &l.lit {
            return Some(c.value());
        }
    }
    None
}

/// the set of chars of a pure character-class pattern (literals, ranges, or-patterns of those)
fn char_class(p: &syn::Pat) -> Option<BTreeSet<char>> {
    match p {
        syn::Pat::Lit(_) => char_lit_of(p).map(|c| [c].into_iter().collect()),
        syn::Pat::Range(r) => {
            let lo = r.start.as_ref().and_then(|e| char_of_expr(e))?;
            let hi = r.end.as_ref().and_then(|e| char_of_expr(e))?;
            let inclusive = matches!(r.limits, syn::RangeLimits::Closed(_));
            if (hi as u32).saturating_sub(lo as u32) > 4096 {
                return None;
            }
            let mut s = BTreeSet::new();
            let mut c = lo as u32;
            while c < hi as u32 || (inclusive && c == hi as u32) {
                if let Some(ch) = char::from_u32(c) {
                    s.insert(ch);
                }
                c += 1;
            }
            Some(s)
        }
        syn::Pat::Or(o) => {
            let mut s = BTreeSet::new();
            for c in &o.cases {
                s.extend(char_class(c)?);
            }
            Some(s)
        }
        syn::Pat::Paren(pp) => char_class(&pp.pat),
        _ => None,
    }
}

fn render_class(set: &BTreeSet<char>) -> String {
    let v: Vec<char> = set.iter().copied().collect();
    let mut parts = vec![];
    let mut i = 0;
    while i < v.len() {
        let mut j = i;
        while j + 1 < v.len() && v[j + 1] as u32 == v[j] as u32 + 1 {
            j += 1;
        }
        if j > i {
            parts.push(format!("{:?}..={:?}", v[i], v[j]));
        } else {
            parts.push(format!("{:?}", v[i]));
        }
        i = j + 1;
    }
    parts.join(" | ")
}

/// Some(class) | Some(class) -> Some(class); class alternatives sorted and merged
fn canon_pat(p: &mut syn::Pat) {
    // flatten or-patterns of Some(..)
    if let syn::Pat::Or(o) = p {
        let mut all_some = true;
        let mut set = BTreeSet::new();
        for c in &o.cases {
            match c {
                syn::Pat::TupleStruct(ts) if ts.path.is_ident("Some") && ts.elems.len() == 1 => match char_class(&ts.elems[0]) {
                    Some(s) => set.extend(s),
                    None => all_some = false,
                },
                _ => all_some = false,
            }
        }
        if all_some && !set.is_empty() {
            if let Some(np) = parse_pat(&format!("Some({})", render_class(&set))) {
                *p = np;
                return;
            }
        }
    }
    if let Some(set) = char_class(p) {
        if !matches!(p, syn::Pat::Lit(_)) {
            if let Some(np) = parse_pat(&render_class(&set)) {
                *p = np;
            }
        }
        return;
    }
    // other or-patterns (enum variants ...): sort alternatives by text
    if let syn::Pat::Or(o) = p {
        let simple = o.cases.iter().all(|c| pat_is_variant(c));
        if simple {
            let mut cases: Vec<syn::Pat> = o.cases.iter().cloned().collect();
            cases.sort_by_key(|c| sm::tsc(c));
            o.cases = cases.into_iter().collect();
            o.leading_vert = None;
        }
    }
}

/// a pattern that names one enum variant / constant without binding anything: `A::B`, `A::B(_)`, `A::B { .. }`
fn pat_is_variant(p: &syn::Pat) -> bool {
    match p {
        syn::Pat::Path(pp) => pp.path.segments.len() >= 2,
        syn::Pat::TupleStruct(ts) => ts.path.segments.len() >= 2 && ts.elems.iter().all(|e| matches!(e, syn::Pat::Wild(_) | syn::Pat::Rest(_))),
        syn::Pat::Struct(s) => s.path.segments.len() >= 2 && s.fields.is_empty(),
        _ => false,
    }
}

#[derive(PartialEq, Eq, PartialOrd, Ord, Clone)]
enum ArmKey {
    Class(u32, String),  // min char
    Variant(String),     // sorted text
    NoneP,
    Wild,
}

fn arm_key(a: &syn::Arm) -> Option<(ArmKey, BTreeSet<String>)> {
    if a.guard.is_some() || !a.attrs.is_empty() {
        return None;
    }
    let p = &a.pat;
    if matches!(p, syn::Pat::Wild(_)) {
        return Some((ArmKey::Wild, BTreeSet::new()));
    }
    if let syn::Pat::Ident(i) = p {
        if i.ident == "None" && i.subpat.is_none() {
            return Some((ArmKey::NoneP, ["None".to_string()].into_iter().collect()));
        }
        return None;
    }
    let class_of = |p: &syn::Pat| -> Option<BTreeSet<char>> {
        match p {
            syn::Pat::TupleStruct(ts) if ts.path.is_ident("Some") && ts.elems.len() == 1 => char_class(&ts.elems[0]),
            other => char_class(other),
        }
    };
    if let Some(set) = class_of(p) {
        let min = set.iter().next().map(|c| *c as u32).unwrap_or(0);
        return Some((ArmKey::Class(min, sm::tsc(p)), set.iter().map(|c| format!("c{}", *c as u32)).collect()));
    }
    let variants: Vec<&syn::Pat> = match p {
        syn::Pat::Or(o) => o.cases.iter().collect(),
        other => vec![other],
    };
    if variants.iter().all(|v| pat_is_variant(v)) {
        let names: BTreeSet<String> = variants
            .iter()
            .map(|v| match v {
                syn::Pat::Path(pp) => sm::tsc(&pp.path),
                syn::Pat::TupleStruct(ts) => sm::tsc(&ts.path),
                syn::Pat::Struct(s) => sm::tsc(&s.path),
                _ => String::new(),
            })
            .collect();
        return Some((ArmKey::Variant(sm::tsc(p)), names));
    }
    None
}

fn sort_arms(m: &mut syn::ExprMatch) {
    let mut keyed = vec![];
    let mut seen: BTreeSet<String> = BTreeSet::new();
    for a in &m.arms {
        let Some((k, names)) = arm_key(a) else { return };
        // pairwise disjoint
        for n in &names {
            if !seen.insert(n.clone()) {
                return;
            }
        }
        keyed.push(k);
    }
    // the wildcard must be (and stay) last
    if let Some(pos) = keyed.iter().position(|k| *k == ArmKey::Wild) {
        if pos != keyed.len() - 1 {
            return;
        }
    }
    let mut idx: Vec<usize> = (0..m.arms.len()).collect();
    idx.sort_by(|a, b| keyed[*a].cmp(&keyed[*b]));
    let mut arms: Vec<syn::Arm> = idx.into_iter().map(|i| m.arms[i].clone()).collect();
    for a in arms.iter_mut() {
        if a.comma.is_none() {
            a.comma = Some(Default::default());
        }
    }
    m.arms = arms;
}

fn diverges_expr(e: &syn::Expr) -> bool {
    match e {
        syn::Expr::Return(_) | syn::Expr::Break(_) | syn::Expr::Continue(_) => true,
        syn::Expr::Block(b) => matches!(b.block.stmts.last(), Some(syn::Stmt::Expr(x, _)) if diverges_expr(x)),
        syn::Expr::Macro(m) => m.mac.path.is_ident("unreachable") || m.mac.path.is_ident("panic"),
        _ => false,
    }
}

/// `return X` in tail position is `X`
fn strip_tail_return(b: &mut syn::Block) {
    let Some(last) = b.stmts.last_mut() else { return };
    if let syn::Stmt::Expr(e, semi) = last {
        let is_ret = matches!(e, syn::Expr::Return(r) if r.expr.is_some());
        if is_ret {
            if let syn::Expr::Return(r) = e {
                let inner = *r.expr.take().unwrap();
                *e = inner;
                *semi = None;
            }
        }
        if semi.is_none() || matches!(e, syn::Expr::Match(_) | syn::Expr::If(_)) {
            strip_tail_return_expr(e);
        }
    }
}

fn strip_tail_return_expr(e: &mut syn::Expr) {
    match e {
        syn::Expr::Block(b) => strip_tail_return(&mut b.block),
        syn::Expr::Match(m) => {
            for a in m.arms.iter_mut() {
                if let syn::Expr::Return(r) = &mut *a.body {
                    if let Some(x) = r.expr.take() {
                        *a.body = *x;
                    }
                } else {
                    strip_tail_return_expr(&mut a.body);
                }
            }
        }
        syn::Expr::If(i) => {
            strip_tail_return(&mut i.then_branch);
            if let Some((_, el)) = &mut i.else_branch {
                strip_tail_return_expr(el);
            }
        }
        _ => {}
    }
}

/// `Self` inside an impl is the impl's type
struct SelfResolver {
    ty: proc_macro2::TokenStream,
    name: String,
}

fn resolve_self_in_stream(ts: proc_macro2::TokenStream, with: &proc_macro2::TokenStream) -> proc_macro2::TokenStream {
    let mut out = proc_macro2::TokenStream::new();
    for tt in ts {
        match tt {
            proc_macro2::TokenTree::Ident(ref i) if i == "Self" => out.extend(with.clone()),
            proc_macro2::TokenTree::Group(g) => {
                let mut ng = proc_macro2::Group::new(g.delimiter(), resolve_self_in_stream(g.stream(), with));
                ng.set_span(g.span());
                out.extend(std::iter::once(proc_macro2::TokenTree::Group(ng)));
            }
            other => out.extend(std::iter::once(other)),
        }
    }
    out
}

impl VisitMut for SelfResolver {
    fn visit_path_mut(&mut self, p: &mut syn::Path) {
        if p.leading_colon.is_none() && p.segments.first().map_or(false, |s| s.ident == "Self" && s.arguments.is_empty()) && p.segments.len() >= 2 {
            // Self::X  ->  Type::X   (a bare `Self` as a type or constructor is left alone: it may carry generics)
            let first = p.segments.first_mut().unwrap();
            first.ident = proc_macro2::Ident::new(&self.name, first.ident.span());
        } else if p.leading_colon.is_none() && p.segments.len() == 1 && p.segments[0].ident == "Self" && p.segments[0].arguments.is_empty() {
            // a bare `Self` in expression / pattern position (types are not visited, see visit_type_mut)
            let first = p.segments.first_mut().unwrap();
            first.ident = proc_macro2::Ident::new(&self.name, first.ident.span());
        }
        if p.leading_colon.is_none() && p.segments.len() >= 2 && p.segments[0].ident == self.name {
            // `Type::<T>::f` names the same item as `Type::f` inside the impl of `Type<T>`
            p.segments[0].arguments = syn::PathArguments::None;
        }
        visit_mut::visit_path_mut(self, p);
    }
    fn visit_type_mut(&mut self, _t: &mut syn::Type) {
        // `Self` as a type may stand for a generic instantiation; leave type positions alone
    }
    fn visit_macro_mut(&mut self, m: &mut syn::Macro) {
        let _ = &self.ty;
        visit_mut::visit_macro_mut(self, m);
    }
}

fn is_debug_assert(m: &syn::Macro) -> bool {
    m.path.is_ident("debug_assert") || m.path.is_ident("debug_assert_eq") || m.path.is_ident("debug_assert_ne")
}

impl VisitMut for Normalizer {
    fn visit_item_impl_mut(&mut self, i: &mut syn::ItemImpl) {
        // resolve `Self::` to the type's name (simple named types only)
        if let syn::Type::Path(tp) = &*i.self_ty {
            if let Some(last) = tp.path.segments.last() {
                let name = last.ident.to_string();
                let mut r = SelfResolver { ty: quote::ToTokens::to_token_stream(&i.self_ty), name };
                for it in i.items.iter_mut() {
                    r.visit_impl_item_mut(it);
                }
            }
        }
        visit_mut::visit_item_impl_mut(self, i);
    }

    fn visit_path_mut(&mut self, p: &mut syn::Path) {
        // `std::char::from_u32` / `core::char::from_u32` / `char::from_u32` (after `use std::char`) name one item:
        // a standard-library path keeps its last two segments in expression position
        // (`module::item` / `Type::assoc`) -- see visit_type_path_mut for types
        let std_root = p.segments.first().map_or(false, |s| (s.ident == "std" || s.ident == "core" || s.ident == "alloc") && s.arguments.is_empty());
        if std_root && p.segments.len() >= 3 {
            let keep: Vec<syn::PathSegment> = p.segments.iter().skip(p.segments.len() - 2).cloned().collect();
            p.leading_colon = None;
            p.segments = keep.into_iter().collect();
        }
        visit_mut::visit_path_mut(self, p);
    }

    fn visit_type_path_mut(&mut self, t: &mut syn::TypePath) {
        // a standard-library type is named by its last segment (`std::iter::Peekable<..>` -> `Peekable<..>`)
        let p = &mut t.path;
        let std_root = t.qself.is_none() && p.segments.first().map_or(false, |s| (s.ident == "std" || s.ident == "core" || s.ident == "alloc") && s.arguments.is_empty());
        if std_root && p.segments.len() >= 2 {
            let last = p.segments.last().cloned().unwrap();
            p.leading_colon = None;
            p.segments = std::iter::once(last).collect();
        }
        // generic arguments only: the expression-path rule above must not shorten a type to two segments
        for seg in t.path.segments.iter_mut() {
            self.visit_path_arguments_mut(&mut seg.arguments);
        }
    }

    fn visit_expr_method_call_mut(&mut self, mc: &mut syn::ExprMethodCall) {
        // `a.zip(b.into_iter())` is `a.zip(b)` (zip takes IntoIterator)
        if (mc.method == "zip" || mc.method == "chain" || mc.method == "extend") && mc.args.len() == 1 {
            let inner: Option<syn::Expr> = match &mc.args[0] {
                syn::Expr::MethodCall(a) if a.method == "into_iter" && a.args.is_empty() => Some((*a.receiver).clone()),
                _ => None,
            };
            if let Some(x) = inner {
                mc.args[0] = x;
            }
        }
        // `(&x).m()` is `x.m()` (method calls take the reference themselves)
        loop {
            let inner: Option<syn::Expr> = match &*mc.receiver {
                syn::Expr::Paren(p) => match &*p.expr {
                    syn::Expr::Reference(r) if r.mutability.is_none() && matches!(&*r.expr, syn::Expr::Path(_) | syn::Expr::Field(_)) => Some((*r.expr).clone()),
                    _ => None,
                },
                _ => None,
            };
            match inner {
                Some(x) => *mc.receiver = x,
                None => break,
            }
        }
        visit_mut::visit_expr_method_call_mut(self, mc);
    }

    fn visit_expr_struct_mut(&mut self, st: &mut syn::ExprStruct) {
        visit_mut::visit_expr_struct_mut(self, st);
        // named fields in alphabetical order (initialisers in this code base are side-effect free)
        if st.fields.iter().all(|f| matches!(f.member, syn::Member::Named(_))) && st.fields.len() > 1 {
            let mut fields: Vec<syn::FieldValue> = st.fields.iter().cloned().collect();
            fields.sort_by_key(|f| sm::ts(&f.member));
            let trailing = st.fields.trailing_punct();
            st.fields = fields.into_iter().collect();
            if trailing {
                st.fields.push_punct(Default::default());
            }
        }
    }

    fn visit_item_fn_mut(&mut self, f: &mut syn::ItemFn) {
        visit_mut::visit_item_fn_mut(self, f);
        strip_tail_return(&mut f.block);
    }

    fn visit_impl_item_fn_mut(&mut self, f: &mut syn::ImplItemFn) {
        visit_mut::visit_impl_item_fn_mut(self, f);
        strip_tail_return(&mut f.block);
    }

    fn visit_block_mut(&mut self, b: &mut syn::Block) {
        // debug assertions state invariants; they are not part of the behaviour the rules read
        b.stmts.retain(|st| match st {
            syn::Stmt::Macro(m) => !is_debug_assert(&m.mac),
            syn::Stmt::Expr(syn::Expr::Macro(m), _) => !is_debug_assert(&m.mac),
            _ => true,
        });
        // `let x = x;` re-binds a value under its own name: nothing happens
        b.stmts.retain(|st| match st {
            syn::Stmt::Local(l) if l.attrs.is_empty() => match (&l.pat, &l.init) {
                (syn::Pat::Ident(pi), Some(init)) if pi.by_ref.is_none() && pi.mutability.is_none() && pi.subpat.is_none() && init.diverge.is_none() => sm::as_ident(&init.expr).map_or(true, |n| n != pi.ident.to_string()),
                _ => true,
            },
            _ => true,
        });
        // `let a = PURE; let [mut] b = a;` with no other use of `a`  ->  `let [mut] b = PURE;`
        let mut i = 0;
        while i + 1 < b.stmts.len() {
            let alias: Option<(String, syn::Expr)> = match &b.stmts[i] {
                syn::Stmt::Local(l) if l.attrs.is_empty() => match (&l.pat, &l.init) {
                    (syn::Pat::Ident(pi), Some(init)) if pi.by_ref.is_none() && pi.mutability.is_none() && pi.subpat.is_none() && init.diverge.is_none() && crate::inline::pure_arg(&init.expr) && !matches!(&*init.expr, syn::Expr::Path(_)) => Some((pi.ident.to_string(), (*init.expr).clone())),
                    _ => None,
                },
                _ => None,
            };
            let mut merged = false;
            if let Some((a, init)) = alias {
                let next_uses_only_a = match &b.stmts[i + 1] {
                    syn::Stmt::Local(l2) if l2.attrs.is_empty() => l2.init.as_ref().map_or(false, |i2| i2.diverge.is_none() && sm::as_ident(&i2.expr).as_deref() == Some(a.as_str())),
                    _ => false,
                };
                if next_uses_only_a {
                    let mut rest = vec![];
                    for st in &b.stmts[i + 2..] {
                        sm::flat_tokens(quote::ToTokens::to_token_stream(st), &mut rest);
                    }
                    if !rest.contains(&a) {
                        if let syn::Stmt::Local(l2) = &mut b.stmts[i + 1] {
                            if let Some(i2) = l2.init.as_mut() {
                                i2.expr = Box::new(init);
                            }
                        }
                        b.stmts.remove(i);
                        merged = true;
                    }
                }
            }
            if !merged {
                i += 1;
            }
        }
        // `ITER.try_for_each(|P| { BODY; Ok(()) })?;` / `ITER.for_each(|P| BODY);`  ->  `for P in ITER { BODY }`
        // (a `?` inside the closure ends the traversal and is propagated by the outer `?`, as it ends the loop)
        let n_stmts = b.stmts.len();
        let mut tail_ok_needed = false;
        for (st_ix, st) in b.stmts.iter_mut().enumerate() {
            let rewritten: Option<syn::Stmt> = (|| {
                // statement `ITER.try_for_each(..)?;` / `ITER.for_each(..);`, or `ITER.try_for_each(..)` as the value of
                // the block (then `Ok(())` follows the loop)
                let (e, as_tail) = match &*st {
                    syn::Stmt::Expr(e, Some(_)) => (e, false),
                    syn::Stmt::Expr(e, None) if st_ix + 1 == n_stmts && matches!(e, syn::Expr::MethodCall(mc) if mc.method == "try_for_each") => (e, true),
                    _ => return None,
                };
                let (mc, tried) = match e {
                    syn::Expr::Try(t) => match &*t.expr {
                        syn::Expr::MethodCall(mc) => (mc, true),
                        _ => return None,
                    },
                    syn::Expr::MethodCall(mc) => (mc, false),
                    _ => return None,
                };
                let tried = tried || as_tail;
                let want = if tried { "try_for_each" } else { "for_each" };
                if mc.method != want || mc.args.len() != 1 || !mc.attrs.is_empty() {
                    return None;
                }
                let syn::Expr::Closure(c) = &mc.args[0] else { return None };
                if c.inputs.len() != 1 || c.capture.is_some() {
                    return None;
                }
                let pat = match &c.inputs[0] {
                    syn::Pat::Type(pt) => (*pt.pat).clone(),
                    other => other.clone(),
                };
                let mut body: Vec<syn::Stmt> = match &*c.body {
                    syn::Expr::Block(bb) => bb.block.stmts.clone(),
                    other => vec![syn::Stmt::Expr(other.clone(), Some(Default::default()))],
                };
                // inside the closure `return Err(e)` ends the traversal with that error, which the enclosing `?` (or
                // the tail position) hands to the caller: in the loop it is the same `return Err(e)`; any other
                // `return` (`return Ok(())` = next element) has no loop counterpart here
                let body_t: String = body.iter().map(|s| sm::tsc(s)).collect();
                let returns = body_t.matches("return").count();
                let err_returns = body_t.matches("returnErr(").count();
                if returns != err_returns || (!tried && returns > 0) {
                    return None;
                }
                if tried {
                    // the closure must end in Ok(())
                    match body.pop() {
                        Some(syn::Stmt::Expr(x, None)) if sm::tsc(&x) == "Ok(())" => {}
                        _ => return None,
                    }
                } else if let Some(syn::Stmt::Expr(_, semi @ None)) = body.last_mut() {
                    *semi = Some(Default::default());
                }
                let iter = &mc.receiver;
                if as_tail {
                    tail_ok_needed = true;
                }
                syn::parse2::<syn::Stmt>(quote::quote! { for #pat in #iter { #(#body)* } }).ok()
            })();
            if let Some(n) = rewritten {
                *st = n;
            }
        }
        if tail_ok_needed {
            b.stmts.push(syn::Stmt::Expr(syn::parse_quote!(Ok(())), None));
        }
        // `X.extend(ITER.map(|P| BODY));`  ->  `for P in ITER { X.push(BODY); }`
        for st in b.stmts.iter_mut() {
            let rewritten: Option<syn::Stmt> = match st {
                syn::Stmt::Expr(syn::Expr::MethodCall(mc), Some(_)) if mc.method == "extend" && mc.args.len() == 1 && mc.attrs.is_empty() => match &mc.args[0] {
                    syn::Expr::MethodCall(inner) if inner.method == "map" && inner.args.len() == 1 => match &inner.args[0] {
                        syn::Expr::Closure(c) if c.inputs.len() == 1 && c.capture.is_none() => {
                            let recv = &mc.receiver;
                            let iter = &inner.receiver;
                            let pat = &c.inputs[0];
                            let body = &c.body;
                            let pat = match pat {
                                syn::Pat::Type(pt) => (*pt.pat).clone(),
                                other => other.clone(),
                            };
                            syn::parse2::<syn::Stmt>(quote::quote! { for #pat in #iter { #recv.push(#body); } }).ok()
                        }
                        _ => None,
                    },
                    _ => None,
                },
                _ => None,
            };
            if let Some(r) = rewritten {
                *st = r;
            }
        }
        inline_stable_locals(b);
        // `let P = E else { D }; REST`  ->  `match E { P => { REST }, _ => { D } }`
        if let Some(i) = b.stmts.iter().position(|s| matches!(s, syn::Stmt::Local(l) if l.attrs.is_empty() && l.init.as_ref().map_or(false, |x| x.diverge.is_some()))) {
            let rest: Vec<syn::Stmt> = b.stmts.drain(i + 1..).collect();
            if let Some(syn::Stmt::Local(l)) = b.stmts.pop() {
                let init = l.init.unwrap();
                let (_, div) = init.diverge.unwrap();
                let div = match *div {
                    syn::Expr::Block(_) => *div,
                    other => block_expr(vec![syn::Stmt::Expr(other, None)]),
                };
                let m = mk_match(*init.expr, vec![arm(l.pat, block_expr(rest)), wild_arm(div)]);
                b.stmts.push(syn::Stmt::Expr(m, None));
            }
        }
        visit_mut::visit_block_mut(self, b);
    }

    fn visit_pat_mut(&mut self, p: &mut syn::Pat) {
        visit_mut::visit_pat_mut(self, p);
        canon_pat(p);
    }

    fn visit_expr_mut(&mut self, e: &mut syn::Expr) {
        // rewrite this node first, then recurse into the result
        let mut replacement: Option<syn::Expr> = None;
        match e {
            syn::Expr::If(i) if i.attrs.is_empty() => {
                if let Some((scrut, pat, neg)) = cond_as_test(&i.cond) {
                    let then_e = block_expr(i.then_branch.stmts.clone());
                    let else_e = match &i.else_branch {
                        Some((_, el)) => match &**el {
                            syn::Expr::Block(_) => (**el).clone(),
                            other => block_expr(vec![syn::Stmt::Expr(other.clone(), None)]),
                        },
                        None => block_expr(vec![]),
                    };
                    let (a, b) = if neg { (else_e, then_e) } else { (then_e, else_e) };
                    replacement = Some(mk_match(scrut, vec![arm(pat, a), wild_arm(b)]));
                } else if matches!(&*i.cond, syn::Expr::Binary(b) if matches!(b.op, syn::BinOp::Ne(_))) && matches!(i.else_branch.as_ref().map(|x| &*x.1), Some(syn::Expr::Block(_))) {
                    // `if a != b {X} else {Y}`  ->  `if a == b {Y} else {X}`
                    let mut ni = i.clone();
                    if let syn::Expr::Binary(b) = &mut *ni.cond {
                        b.op = syn::BinOp::Eq(Default::default());
                    }
                    if let Some((_, el)) = &mut ni.else_branch {
                        if let syn::Expr::Block(eb) = &mut **el {
                            std::mem::swap(&mut ni.then_branch, &mut eb.block);
                        }
                    }
                    replacement = Some(syn::Expr::If(ni));
                }
            }
            syn::Expr::While(w) if w.attrs.is_empty() && w.label.is_none() => {
                if let Some((scrut, pat, neg)) = cond_as_test(&w.cond) {
                    let body = block_expr(w.body.stmts.clone());
                    let brk: syn::Expr = syn::parse_quote!(break);
                    // `while !matches!(S, P) {B}`  ->  `loop { match S { P => break, _ => {B} } }`
                    let inner = if neg { mk_match(scrut, vec![arm(pat, brk), wild_arm(body)]) } else { mk_match(scrut, vec![arm(pat, body), wild_arm(brk)]) };
                    replacement = Some(syn::Expr::Loop(syn::ExprLoop { attrs: vec![], label: None, loop_token: Default::default(), body: syn::Block { brace_token: Default::default(), stmts: vec![syn::Stmt::Expr(inner, None)] } }));
                }
            }
            syn::Expr::Loop(l) if l.attrs.is_empty() && l.label.is_none() => {
                // `loop { if C { break; } REST }`  ->  `while !C { REST }`
                let first_is_break_test = match l.body.stmts.first() {
                    Some(syn::Stmt::Expr(syn::Expr::If(i), _)) if i.else_branch.is_none() && i.attrs.is_empty() && !matches!(&*i.cond, syn::Expr::Let(_)) && cond_as_test(&i.cond).is_none() => {
                        matches!(i.then_branch.stmts.as_slice(), [syn::Stmt::Expr(syn::Expr::Break(b), _)] if b.expr.is_none() && b.label.is_none())
                    }
                    _ => false,
                };
                if first_is_break_test && l.body.stmts.len() >= 2 {
                    if let Some(syn::Stmt::Expr(syn::Expr::If(i), _)) = l.body.stmts.first() {
                        let mut c: &syn::Expr = &i.cond;
                        while let syn::Expr::Paren(p) = c {
                            c = &p.expr;
                        }
                        let negated: syn::Expr = match c {
                            syn::Expr::Unary(u) if matches!(u.op, syn::UnOp::Not(_)) => (*u.expr).clone(),
                            syn::Expr::Binary(_) | syn::Expr::Cast(_) | syn::Expr::Range(_) => syn::parse_quote!(!(#c)),
                            other => syn::parse_quote!(!#other),
                        };
                        let rest: Vec<syn::Stmt> = l.body.stmts[1..].to_vec();
                        replacement = Some(syn::Expr::While(syn::ExprWhile { attrs: vec![], label: None, while_token: Default::default(), cond: Box::new(negated), body: syn::Block { brace_token: Default::default(), stmts: rest } }));
                    }
                }
            }
            syn::Expr::Binary(b) => {
                let swapped = match b.op {
                    syn::BinOp::Gt(_) => Some(syn::BinOp::Lt(Default::default())),
                    syn::BinOp::Ge(_) => Some(syn::BinOp::Le(Default::default())),
                    _ => None,
                };
                if let Some(op) = swapped {
                    let (l, r) = ((*b.left).clone(), (*b.right).clone());
                    b.left = Box::new(r);
                    b.right = Box::new(l);
                    b.op = op;
                }
                // `X[..n] == [E; n]` / `X[..n] == [A, B]`  ->  `X[0] == E && X[1] == E` (slice equality of equal
                // lengths is element-wise equality; `!=` becomes the disjunction of `!=`)
                if matches!(b.op, syn::BinOp::Eq(_) | syn::BinOp::Ne(_)) {
                    if let Some(r) = slice_compare_as_elements(b) {
                        replacement = Some(r);
                    }
                }
            }
            syn::Expr::Unary(u) if matches!(u.op, syn::UnOp::Not(_)) => {
                let mut inner: &syn::Expr = &u.expr;
                while let syn::Expr::Paren(p) = inner {
                    inner = &p.expr;
                }
                if let syn::Expr::Binary(b) = inner {
                    let flipped = match b.op {
                        syn::BinOp::Eq(_) => Some(syn::BinOp::Ne(Default::default())),
                        syn::BinOp::Ne(_) => Some(syn::BinOp::Eq(Default::default())),
                        _ => None,
                    };
                    if let Some(op) = flipped {
                        let mut nb = b.clone();
                        nb.op = op;
                        replacement = Some(syn::Expr::Binary(nb));
                    }
                }
            }
            _ => {}
        }
        if let Some(r) = replacement {
            *e = r;
        }
        // `x = x + e` / `x = x - e`  ->  `x += e` / `x -= e`
        if let syn::Expr::Assign(a) = e {
            if let syn::Expr::Binary(b) = &*a.right {
                let compound = match b.op {
                    syn::BinOp::Add(_) => Some(syn::BinOp::AddAssign(Default::default())),
                    syn::BinOp::Sub(_) => Some(syn::BinOp::SubAssign(Default::default())),
                    _ => None,
                };
                if let Some(op) = compound {
                    if sm::tsc(&a.left) == sm::tsc(&b.left) && a.attrs.is_empty() {
                        *e = syn::Expr::Binary(syn::ExprBinary { attrs: vec![], left: a.left.clone(), op, right: b.right.clone() });
                    }
                }
            }
        }
        // parentheses around an expression that binds tighter than anything are noise
        loop {
            let inner: Option<syn::Expr> = match e {
                syn::Expr::Paren(p) if p.attrs.is_empty() => match &*p.expr {
                    syn::Expr::Path(_) | syn::Expr::Lit(_) | syn::Expr::Array(_) | syn::Expr::Repeat(_) | syn::Expr::Call(_) | syn::Expr::MethodCall(_) | syn::Expr::Index(_) | syn::Expr::Field(_) | syn::Expr::Macro(_) | syn::Expr::Tuple(_) | syn::Expr::Paren(_) => Some((*p.expr).clone()),
                    _ => None,
                },
                _ => None,
            };
            match inner {
                Some(x) => *e = x,
                None => break,
            }
        }
        visit_mut::visit_expr_mut(self, e);
        if let syn::Expr::Match(m) = e {
            // the complement of a single constructor pattern is the wildcard
            if m.arms.len() == 2 && m.arms.iter().all(|a| a.guard.is_none() && a.attrs.is_empty()) {
                let first = sm::tsc(&m.arms[0].pat);
                let second = sm::tsc(&m.arms[1].pat);
                let complement = (first.starts_with("Some(") && second == "None") || (first.starts_with("Ok(") && (second == "Err(_)" || second == "Err(..)")) || (first.starts_with("Err(") && (second == "Ok(_)")) || (first == "None" && second == "Some(_)");
                if complement {
                    m.arms[1].pat = syn::Pat::Wild(syn::PatWild { attrs: vec![], underscore_token: Default::default() });
                }
            }
            // an arm body that is a block holding a single tail expression is that expression
            for a in m.arms.iter_mut() {
                let single: Option<syn::Expr> = match &*a.body {
                    syn::Expr::Block(b) if b.attrs.is_empty() && b.label.is_none() && b.block.stmts.len() == 1 => match &b.block.stmts[0] {
                        syn::Stmt::Expr(x, None) if !matches!(x, syn::Expr::Let(_)) => Some(x.clone()),
                        // `{ a = b; }`, `{ a += b; }`, `{ break; }`, `{ continue; }`, `{ return x; }` have type () / ! either way
                        syn::Stmt::Expr(x, Some(_)) if matches!(x, syn::Expr::Assign(_) | syn::Expr::Break(_) | syn::Expr::Continue(_) | syn::Expr::Return(_)) => Some(x.clone()),
                        syn::Stmt::Expr(x @ syn::Expr::Binary(bx), Some(_)) if matches!(bx.op, syn::BinOp::AddAssign(_) | syn::BinOp::SubAssign(_) | syn::BinOp::MulAssign(_) | syn::BinOp::BitOrAssign(_) | syn::BinOp::BitAndAssign(_) | syn::BinOp::BitXorAssign(_) | syn::BinOp::ShlAssign(_) | syn::BinOp::ShrAssign(_)) => Some(x.clone()),
                        _ => None,
                    },
                    _ => None,
                };
                if let Some(x) = single {
                    *a.body = x;
                    a.comma = Some(Default::default());
                }
            }
            // a final catch-all arm that only names the scrutinee again (`r => Some(r)` on a local `token`) is the
            // wildcard arm using the scrutinee itself
            if let Some(scrut) = sm::as_ident(&m.expr) {
                if let Some(last) = m.arms.last_mut() {
                    let binder = match &last.pat {
                        syn::Pat::Ident(pi) if pi.by_ref.is_none() && pi.mutability.is_none() && pi.subpat.is_none() && pi.ident.to_string().chars().next().map_or(false, |c| c.is_lowercase()) => Some(pi.ident.to_string()),
                        _ => None,
                    };
                    if let (Some(b), true) = (binder, last.guard.is_none() && last.attrs.is_empty()) {
                        if b != scrut {
                            if let Some(nb) = rename_ident_in_expr(&last.body, &b, &scrut) {
                                *last.body = nb;
                                last.pat = syn::Pat::Wild(syn::PatWild { attrs: vec![], underscore_token: Default::default() });
                            }
                        }
                    }
                }
            }
            sort_arms(m);
            // every arm ends with a comma (optional after a block body)
            for a in m.arms.iter_mut() {
                a.comma = Some(Default::default());
            }
        }
    }
}

/// `e` with the local `from` renamed to `to` (token-wise; field and method names after a `.` are left alone).
/// None if `e` rebinds `from` or mentions `to` already.
fn rename_ident_in_expr(e: &syn::Expr, from: &str, to: &str) -> Option<syn::Expr> {
    fn go(ts: proc_macro2::TokenStream, from: &str, to: &str, clash: &mut bool) -> proc_macro2::TokenStream {
        let mut out = proc_macro2::TokenStream::new();
        let mut prev_dot = false;
        let mut prev_binder = false;
        for tt in ts {
            match tt {
                proc_macro2::TokenTree::Ident(i) => {
                    let name = i.to_string();
                    if name == from && !prev_dot {
                        if prev_binder {
                            *clash = true;
                        }
                        out.extend(std::iter::once(proc_macro2::TokenTree::Ident(proc_macro2::Ident::new(to, i.span()))));
                    } else {
                        if name == to && !prev_dot {
                            *clash = true;
                        }
                        prev_binder = name == "let" || name == "mut" || name == "for";
                        out.extend(std::iter::once(proc_macro2::TokenTree::Ident(i)));
                        prev_dot = false;
                        continue;
                    }
                    prev_dot = false;
                    prev_binder = false;
                }
                proc_macro2::TokenTree::Group(g) => {
                    let mut ng = proc_macro2::Group::new(g.delimiter(), go(g.stream(), from, to, clash));
                    ng.set_span(g.span());
                    out.extend(std::iter::once(proc_macro2::TokenTree::Group(ng)));
                    prev_dot = false;
                    prev_binder = false;
                }
                other => {
                    prev_dot = matches!(&other, proc_macro2::TokenTree::Punct(p) if p.as_char() == '.');
                    prev_binder = matches!(&other, proc_macro2::TokenTree::Punct(p) if p.as_char() == '|');
                    out.extend(std::iter::once(other));
                }
            }
        }
        out
    }
    let mut clash = false;
    let ts = go(quote::ToTokens::to_token_stream(e), from, to, &mut clash);
    if clash {
        return None;
    }
    syn::parse2::<syn::Expr>(ts).ok()
}

// ---------------------------------------------------------------- local inlining (window tests, constant locals)

const CONSUMING: &[&str] = &["next_char", "eat_single_char", "lex_", "take_", "radix_run", "eat_indentation", "parse_", "consume_", "slide", "next("];

fn replace_ident_in_stream(ts: proc_macro2::TokenStream, name: &str, with: &proc_macro2::TokenStream) -> proc_macro2::TokenStream {
    let mut out = proc_macro2::TokenStream::new();
    let mut prev_dot = false;
    for tt in ts {
        match tt {
            proc_macro2::TokenTree::Ident(ref i) if i == name && !prev_dot => {
                let g = proc_macro2::Group::new(proc_macro2::Delimiter::Parenthesis, with.clone());
                out.extend(std::iter::once(proc_macro2::TokenTree::Group(g)));
                prev_dot = false;
            }
            proc_macro2::TokenTree::Group(g) => {
                let mut ng = proc_macro2::Group::new(g.delimiter(), replace_ident_in_stream(g.stream(), name, with));
                ng.set_span(g.span());
                out.extend(std::iter::once(proc_macro2::TokenTree::Group(ng)));
                prev_dot = false;
            }
            other => {
                prev_dot = matches!(&other, proc_macro2::TokenTree::Punct(p) if p.as_char() == '.');
                out.extend(std::iter::once(other));
            }
        }
    }
    out
}

/// `let x = <test of the character window / constant built from immutable locals>;` is read in place at its uses
/// when nothing is consumed between the `let` and the last use (token order). Hoisting such a test into a local, or
/// not, is the same program.
fn inline_stable_locals(b: &mut syn::Block) {
    let mut i = 0;
    while i < b.stmts.len() {
        let cand: Option<(String, syn::Expr)> = match &b.stmts[i] {
            syn::Stmt::Local(l) if l.attrs.is_empty() => match (&l.pat, &l.init) {
                (syn::Pat::Ident(pi), Some(init)) if pi.mutability.is_none() && pi.by_ref.is_none() && pi.subpat.is_none() && init.diverge.is_none() => {
                    let t = sm::tsc(&init.expr);
                    let window_test = t.contains("self.window[") && !t.contains("()") && !t.contains("?") && !t.contains("self.window.");
                    // built only from literals, `Some(..)`, plain immutable locals and array repetition: no field access,
                    // no method call, no move out of a place
                    let constant = !t.contains("self") && !t.contains('.') && !t.contains("()") && !t.contains('&') && !t.contains('*') && (t.starts_with("[Some(") || t.starts_with("Some(") || matches!(&init.expr.as_ref(), syn::Expr::Lit(_)));
                    if (window_test || constant) && t.len() < 120 && !t.contains("{") {
                        Some((pi.ident.to_string(), (*init.expr).clone()))
                    } else {
                        None
                    }
                }
                _ => None,
            },
            _ => None,
        };
        let Some((name, init)) = cand else {
            i += 1;
            continue;
        };
        // token texts of the statements after the let, with positions of uses / reassignments / consumption
        let rest: Vec<String> = {
            let mut v = vec![];
            for st in &b.stmts[i + 1..] {
                sm::flat_tokens(quote::ToTokens::to_token_stream(st), &mut v);
            }
            v
        };
        let uses: Vec<usize> = rest.iter().enumerate().filter(|(k, t)| **t == name && (*k == 0 || rest[*k - 1] != ".")).map(|(k, _)| k).collect();
        if uses.is_empty() || uses.len() > 4 {
            i += 1;
            continue;
        }
        let is_window = sm::tsc(&init).contains("self.window[");
        let first_consume = rest.iter().enumerate().position(|(k, t)| CONSUMING.iter().any(|c| t.starts_with(c.trim_end_matches('('))) && rest.get(k + 1).map_or(false, |n| n == "(") && k > 0 && rest[k - 1] == ".");
        let shadowed = rest.windows(2).any(|w| (w[0] == "let" || w[0] == "mut") && w[1] == name);
        let ok = !shadowed && (!is_window || first_consume.map_or(true, |c| *uses.last().unwrap() < c));
        if !ok {
            i += 1;
            continue;
        }
        let with = quote::ToTokens::to_token_stream(&init);
        let mut new_stmts: Vec<syn::Stmt> = vec![];
        let mut all_ok = true;
        for st in &b.stmts[i + 1..] {
            let ts = replace_ident_in_stream(quote::ToTokens::to_token_stream(st), &name, &with);
            match syn::parse::Parser::parse2(syn::Block::parse_within, ts) {
                Ok(mut v) if v.len() == 1 => new_stmts.push(v.remove(0)),
                _ => {
                    all_ok = false;
                    break;
                }
            }
        }
        if all_ok {
            b.stmts.truncate(i);
            b.stmts.extend(new_stmts);
            // do not advance: the next statement now sits at index i
        } else {
            i += 1;
        }
    }
}

pub fn normalize_expr(e: &mut syn::Expr) {
    Normalizer.visit_expr_mut(e);
    Normalizer.visit_expr_mut(e);
}

// ---------------------------------------------------------------- new single-use helper methods are read in place

/// A private method that is not in the reviewed decomposition (`reviewed` = names listed in refdata/private_fns.json
/// for this file), takes only `self`, is called exactly once in the file as a whole statement (`self.h();` /
/// `self.h()?;`) and returns `()` or `Result<(), _>` without an early `return Ok`: its body is spliced into the call
/// site and the method is dropped. Splitting a function in two is then read as the unsplit function.
fn inline_new_helpers(f: &mut syn::File, reviewed: &BTreeSet<String>) {
    // candidates
    let mut cands: Vec<(String, syn::Block, bool)> = vec![]; // name, body, returns Result
    for it in &f.items {
        if let syn::Item::Impl(i) = it {
            if i.trait_.is_some() {
                continue;
            }
            for ii in &i.items {
                if let syn::ImplItem::Fn(m) = ii {
                    let name = m.sig.ident.to_string();
                    if reviewed.contains(&name) || matches!(m.vis, syn::Visibility::Public(_)) || m.sig.inputs.len() != 1 || !matches!(m.sig.inputs.first(), Some(syn::FnArg::Receiver(_))) || !m.sig.generics.params.is_empty() {
                        continue;
                    }
                    let ret = match &m.sig.output {
                        syn::ReturnType::Default => Some(false),
                        syn::ReturnType::Type(_, t) => {
                            let tt = sm::tsc(t);
                            if tt == "()" { Some(false) } else if tt.starts_with("Result<(),") { Some(true) } else { None }
                        }
                    };
                    let Some(is_result) = ret else { continue };
                    let body_t = sm::tsc(&m.block);
                    if body_t.contains("returnOk(") || body_t.contains("return;") {
                        continue;
                    }
                    cands.push((name, m.block.clone(), is_result));
                }
            }
        }
    }
    if cands.is_empty() {
        return;
    }
    let whole = sm::tsc(f);
    for (name, body, is_result) in cands {
        let call_q = format!("self.{}()?;", name);
        let call_p = format!("self.{}();", name);
        let n_calls = whole.matches(&format!(".{}(", name)).count();
        let stmt_calls = if is_result { whole.matches(&call_q).count() } else { whole.matches(&call_p).count() };
        if n_calls != 1 || stmt_calls != 1 {
            continue;
        }
        // splice
        struct Splice<'a> {
            name: &'a str,
            body: &'a syn::Block,
            is_result: bool,
            done: bool,
        }
        impl<'a> VisitMut for Splice<'a> {
            fn visit_block_mut(&mut self, b: &mut syn::Block) {
                let want = if self.is_result { format!("self.{}()?;", self.name) } else { format!("self.{}();", self.name) };
                let want_tail = if self.is_result { format!("self.{}()?", self.name) } else { format!("self.{}()", self.name) };
                if let Some(pos) = b.stmts.iter().position(|s| {
                    let t = sm::tsc(s);
                    t == want || t == want_tail
                }) {
                    let mut ins = self.body.stmts.clone();
                    // a trailing `Ok(())` of the helper is the fall-through of the caller
                    if self.is_result {
                        if let Some(syn::Stmt::Expr(e, None)) = ins.last() {
                            if sm::tsc(e) == "Ok(())" {
                                ins.pop();
                            }
                        }
                    }
                    let tail: Vec<syn::Stmt> = b.stmts.drain(pos + 1..).collect();
                    b.stmts.pop();
                    b.stmts.extend(ins);
                    b.stmts.extend(tail);
                    self.done = true;
                }
                visit_mut::visit_block_mut(self, b);
            }
        }
        let mut sp = Splice { name: &name, body: &body, is_result, done: false };
        sp.visit_file_mut(f);
        if sp.done {
            for it in f.items.iter_mut() {
                if let syn::Item::Impl(i) = it {
                    i.items.retain(|ii| !matches!(ii, syn::ImplItem::Fn(m) if m.sig.ident == name));
                }
            }
        }
    }
}

/// A private function or method that is not in the reviewed decomposition and whose body is one expression without
/// `return` / `?` (a constructor of an error value, a predicate, a projection): every call `self.h(args)` /
/// `Self::h(args)` / `h(args)` with side-effect-free arguments is replaced by the body with the parameters
/// substituted, and the helper is dropped once no call is left. Extracting an expression into a helper is then read
/// as the unextracted expression.
fn inline_expression_helpers(f: &mut syn::File, reviewed: &BTreeSet<String>) {
    struct Cand {
        name: String,
        params: Vec<String>,
        body: syn::Expr,
        method: bool,
    }
    fn simple_attrs(attrs: &[syn::Attribute]) -> bool {
        attrs.iter().all(|a| a.path().is_ident("doc") || a.path().is_ident("inline") || a.path().is_ident("must_use"))
    }
    fn cand_of(sig: &syn::Signature, vis: &syn::Visibility, attrs: &[syn::Attribute], block: &syn::Block, reviewed: &BTreeSet<String>) -> Option<Cand> {
        let name = sig.ident.to_string();
        if reviewed.contains(&name) || !matches!(vis, syn::Visibility::Inherited) || !sig.generics.params.is_empty() || !simple_attrs(attrs) || sig.asyncness.is_some() || sig.unsafety.is_some() {
            return None;
        }
        if matches!(sig.output, syn::ReturnType::Default) {
            return None;
        }
        let body = match block.stmts.as_slice() {
            [syn::Stmt::Expr(e, None)] => e.clone(),
            _ => return None,
        };
        let bt = sm::tsc(&body);
        if bt.contains("return") || bt.contains('?') || bt.contains(&format!("{}(", name)) {
            return None;
        }
        let mut params = vec![];
        let mut method = false;
        for a in &sig.inputs {
            match a {
                syn::FnArg::Receiver(r) => {
                    if r.reference.is_none() {
                        return None;
                    }
                    method = true;
                }
                syn::FnArg::Typed(pt) => match &*pt.pat {
                    syn::Pat::Ident(pi) if pi.by_ref.is_none() && pi.subpat.is_none() => params.push(pi.ident.to_string()),
                    _ => return None,
                },
            }
        }
        // a parameter that is rebound inside the body (closure parameter, match binding) defeats plain substitution
        for p in &params {
            let re = regex::Regex::new(&format!(r"\|{}\||\b{}=>|\b{}@", regex::escape(p), regex::escape(p), regex::escape(p))).unwrap();
            if re.is_match(&bt) {
                return None;
            }
        }
        Some(Cand { name, params, body, method })
    }
    fn pure_arg(e: &syn::Expr) -> bool {
        match e {
            syn::Expr::Path(_) | syn::Expr::Lit(_) => true,
            syn::Expr::Field(f) => pure_arg(&f.base),
            syn::Expr::Index(i) => pure_arg(&i.expr) && pure_arg(&i.index),
            syn::Expr::Paren(p) => pure_arg(&p.expr),
            syn::Expr::Reference(r) => pure_arg(&r.expr),
            syn::Expr::Unary(u) => pure_arg(&u.expr),
            syn::Expr::Cast(c) => pure_arg(&c.expr),
            _ => false,
        }
    }
    struct Subst<'a> {
        map: &'a BTreeMap<String, syn::Expr>,
    }
    impl<'a> VisitMut for Subst<'a> {
        fn visit_expr_mut(&mut self, e: &mut syn::Expr) {
            if let Some(id) = sm::as_ident(e) {
                if let Some(r) = self.map.get(&id) {
                    *e = match r {
                        syn::Expr::Path(_) | syn::Expr::Lit(_) | syn::Expr::Field(_) | syn::Expr::Index(_) | syn::Expr::Paren(_) => r.clone(),
                        other => syn::Expr::Paren(syn::ExprParen { attrs: vec![], paren_token: Default::default(), expr: Box::new(other.clone()) }),
                    };
                    return;
                }
            }
            visit_mut::visit_expr_mut(self, e);
        }
        fn visit_macro_mut(&mut self, m: &mut syn::Macro) {
            // identifiers inside macro arguments (format!, matches!) are substituted token-wise
            fn go(ts: proc_macro2::TokenStream, map: &BTreeMap<String, syn::Expr>) -> proc_macro2::TokenStream {
                let mut out = proc_macro2::TokenStream::new();
                for tt in ts {
                    match tt {
                        proc_macro2::TokenTree::Ident(ref i) if map.contains_key(&i.to_string()) => {
                            let r = &map[&i.to_string()];
                            out.extend(quote::quote!((#r)));
                        }
                        proc_macro2::TokenTree::Group(g) => {
                            let ng = proc_macro2::Group::new(g.delimiter(), go(g.stream(), map));
                            out.extend(std::iter::once(proc_macro2::TokenTree::Group(ng)));
                        }
                        other => out.extend(std::iter::once(other)),
                    }
                }
                out
            }
            m.tokens = go(m.tokens.clone(), self.map);
        }
    }
    struct Inline<'a> {
        cands: &'a [Cand],
        done: usize,
    }
    impl<'a> Inline<'a> {
        fn expand(&self, c: &Cand, args: Vec<syn::Expr>) -> Option<syn::Expr> {
            if args.len() != c.params.len() || !args.iter().all(pure_arg) {
                return None;
            }
            let map: BTreeMap<String, syn::Expr> = c.params.iter().cloned().zip(args).collect();
            let mut body = c.body.clone();
            Subst { map: &map }.visit_expr_mut(&mut body);
            Some(match body {
                syn::Expr::Struct(_) | syn::Expr::Call(_) | syn::Expr::MethodCall(_) | syn::Expr::Path(_) | syn::Expr::Lit(_) | syn::Expr::Macro(_) | syn::Expr::Field(_) | syn::Expr::Index(_) | syn::Expr::Paren(_) | syn::Expr::Tuple(_) => body,
                other => syn::Expr::Paren(syn::ExprParen { attrs: vec![], paren_token: Default::default(), expr: Box::new(other) }),
            })
        }
    }
    impl<'a> VisitMut for Inline<'a> {
        fn visit_expr_mut(&mut self, e: &mut syn::Expr) {
            visit_mut::visit_expr_mut(self, e);
            let repl = match e {
                syn::Expr::MethodCall(mc) if sm::tsc(&mc.receiver) == "self" && mc.turbofish.is_none() => {
                    let name = mc.method.to_string();
                    self.cands.iter().find(|c| c.method && c.name == name).and_then(|c| self.expand(c, mc.args.iter().cloned().collect()))
                }
                syn::Expr::Call(call) => {
                    let ft = sm::tsc(&call.func);
                    let (is_assoc, name) = match ft.rsplit_once("::") {
                        Some((q, n)) if q == "Self" || !q.contains("::") => (true, n.to_string()),
                        Some(_) => (false, String::new()),
                        None => (false, ft.clone()),
                    };
                    if name.is_empty() {
                        None
                    } else {
                        self.cands.iter().find(|c| !c.method && c.name == name && (is_assoc || !ft.contains("::"))).and_then(|c| self.expand(c, call.args.iter().cloned().collect()))
                    }
                }
                _ => None,
            };
            if let Some(r) = repl {
                *e = r;
                self.done += 1;
            }
        }
    }
    for _round in 0..3 {
        let mut cands: Vec<Cand> = vec![];
        for it in &f.items {
            match it {
                syn::Item::Impl(i) if i.trait_.is_none() => {
                    for ii in &i.items {
                        if let syn::ImplItem::Fn(m) = ii {
                            cands.extend(cand_of(&m.sig, &m.vis, &m.attrs, &m.block, reviewed));
                        }
                    }
                }
                syn::Item::Fn(func) => cands.extend(cand_of(&func.sig, &func.vis, &func.attrs, &func.block, reviewed)),
                _ => {}
            }
        }
        if cands.is_empty() {
            return;
        }
        let mut inl = Inline { cands: &cands, done: 0 };
        inl.visit_file_mut(f);
        if inl.done == 0 {
            return;
        }
        // drop helpers that are no longer called (or mentioned) anywhere
        let names: Vec<String> = cands.iter().map(|c| c.name.clone()).collect();
        for name in names {
            let re = regex::Regex::new(&format!(r"\b{}\b", regex::escape(&name))).unwrap();
            let whole = sm::ts(&*f);
            if re.find_iter(&whole).count() == 1 {
                for it in f.items.iter_mut() {
                    if let syn::Item::Impl(i) = it {
                        i.items.retain(|ii| !matches!(ii, syn::ImplItem::Fn(m) if m.sig.ident == name));
                    }
                }
                f.items.retain(|it| !matches!(it, syn::Item::Fn(func) if func.sig.ident == name));
            }
        }
    }
}

pub fn normalize_file_with(f: &mut syn::File, reviewed_private_fns: Option<&BTreeSet<String>>) {
    if let Some(r) = reviewed_private_fns {
        inline_expression_helpers(f, r);
        crate::inline::inline_single_call_helpers(f, r);
    }
    normalize_file(f);
}

pub fn normalize_file(f: &mut syn::File) {
    // two passes: the second one sees the tail positions created by the first (let-else, tail returns)
    Normalizer.visit_file_mut(f);
    Normalizer.visit_file_mut(f);
}
