//! Grammar normal form: the productions of the LALRPOP grammar as sets of symbol sequences, independent of how the
//! grammar is factored.
//!
//!  * macros are instantiated (`Test<"all">`, `OneOrMore<Test<"all">>`), alternatives whose `if Param == ".."`
//!    condition is false for the instance are dropped;
//!  * position captures, bindings and actions are ignored; `X?` is expanded into the two variants, `( .. )` groups are
//!    spliced, `X*` / `X+` become one repetition atom over the normal form of `X`;
//!  * *anchors* are the reviewed nonterminals (refdata/nonterminals.json) that are not generic over a symbol; every
//!    other nonterminal instance is a *helper*: a non-recursive helper is substituted by its sequences (so splitting an
//!    alternative, introducing or inlining a helper nonterminal, expanding a macro by hand do not show), a recursive
//!    helper is named by its shape (its productions with the self reference replaced by `SELF`), so a hand-written
//!    list nonterminal and the `OneOrMore<T>` instance it replaces are the same atom.
//!
//! Two grammars with the same normal form have, anchor by anchor, the same productions up to such factoring; any
//! production added, removed or changed (a different expression level, a swapped operand, a condition added to an
//! alternative) shows as a difference in the anchor it belongs to.

use crate::grammar::{Grammar, Sym, SymKind};
use std::collections::{BTreeMap, BTreeSet};

#[derive(Clone, Debug, PartialEq, Eq, PartialOrd, Ord)]
enum Atom {
    T(String),
    N(String),
    Rep(String, String),
}

#[derive(Clone, Debug)]
enum Arg {
    Lit(String),
    Inst(String),
}

type Seqs = BTreeSet<Vec<Atom>>;

struct Builder<'a> {
    g: &'a Grammar,
    /// instance name -> (def name, productions)
    insts: BTreeMap<String, (String, Seqs)>,
    work: Vec<(String, String, Vec<Arg>)>,
    limit_hit: bool,
}

fn arg_text(a: &Arg) -> String {
    match a {
        Arg::Lit(s) => format!("{:?}", s),
        Arg::Inst(s) => s.clone(),
    }
}

fn inst_name(def: &str, args: &[Arg]) -> String {
    if args.is_empty() {
        def.to_string()
    } else {
        format!("{}<{}>", def, args.iter().map(arg_text).collect::<Vec<_>>().join(", "))
    }
}

fn product(a: &Seqs, b: &Seqs, limit_hit: &mut bool) -> Seqs {
    let mut out = Seqs::new();
    for x in a {
        for y in b {
            let mut v = x.clone();
            v.extend(y.iter().cloned());
            out.insert(v);
            if out.len() > 20_000 {
                *limit_hit = true;
                return out;
            }
        }
    }
    out
}

fn render_atom(a: &Atom) -> String {
    match a {
        Atom::T(t) => format!("{:?}", t),
        Atom::N(n) => n.clone(),
        Atom::Rep(inner, rep) => format!("({}){}", inner, rep),
    }
}

fn render_seqs(s: &Seqs) -> String {
    let mut v: Vec<String> = s.iter().map(|q| if q.is_empty() { "ε".to_string() } else { q.iter().map(render_atom).collect::<Vec<_>>().join(" ") }).collect();
    v.sort();
    v.join(" | ")
}

impl<'a> Builder<'a> {
    fn arg_of(&mut self, s: &Sym, env: &BTreeMap<String, Arg>) -> Arg {
        match &s.kind {
            SymKind::Term(t) => Arg::Lit(t.clone()),
            SymKind::Name(n) => match env.get(n) {
                Some(a) => a.clone(),
                None => {
                    let name = inst_name(n, &[]);
                    self.request(n, vec![]);
                    Arg::Inst(name)
                }
            },
            SymKind::Macro(n, args) => {
                let vals: Vec<Arg> = args.iter().map(|a| self.arg_of(a, env)).collect();
                let name = inst_name(n, &vals);
                self.request(n, vals);
                Arg::Inst(name)
            }
            _ => Arg::Lit(crate::grammar::sym_text(s)),
        }
    }

    fn request(&mut self, def: &str, args: Vec<Arg>) {
        let name = inst_name(def, &args);
        if !self.insts.contains_key(&name) && !self.work.iter().any(|w| w.0 == name) {
            self.work.push((name, def.to_string(), args));
        }
    }

    fn expand_sym(&mut self, s: &Sym, env: &BTreeMap<String, Arg>) -> Seqs {
        let base: Seqs = match &s.kind {
            SymKind::Lookahead | SymKind::Lookbehind => [vec![]].into_iter().collect(),
            SymKind::Term(t) => [vec![Atom::T(t.clone())]].into_iter().collect(),
            SymKind::Name(n) => match env.get(n) {
                Some(Arg::Lit(t)) => [vec![Atom::T(t.clone())]].into_iter().collect(),
                Some(Arg::Inst(i)) => [vec![Atom::N(i.clone())]].into_iter().collect(),
                None => {
                    if self.g.def(n).is_some() {
                        self.request(n, vec![]);
                        [vec![Atom::N(n.clone())]].into_iter().collect()
                    } else {
                        // an extern terminal written as a name
                        [vec![Atom::T(n.clone())]].into_iter().collect()
                    }
                }
            },
            SymKind::Macro(n, args) => {
                let vals: Vec<Arg> = args.iter().map(|a| self.arg_of(a, env)).collect();
                let name = inst_name(n, &vals);
                self.request(n, vals);
                [vec![Atom::N(name)]].into_iter().collect()
            }
            SymKind::Group(v) => {
                let mut acc: Seqs = [vec![]].into_iter().collect();
                for x in v {
                    let e = self.expand_sym(x, env);
                    acc = product(&acc, &e, &mut self.limit_hit);
                }
                acc
            }
        };
        let mut cur = base;
        for r in s.rep.chars() {
            match r {
                '?' => {
                    cur.insert(vec![]);
                }
                '*' | '+' => {
                    let inner = render_seqs(&cur);
                    cur = [vec![Atom::Rep(inner, r.to_string())]].into_iter().collect();
                }
                _ => {}
            }
        }
        cur
    }

    fn run(&mut self) {
        while let Some((name, def, args)) = self.work.pop() {
            if self.insts.contains_key(&name) {
                continue;
            }
            let Some(d) = self.g.def(&def) else {
                self.insts.insert(name, (def, Seqs::new()));
                continue;
            };
            let env: BTreeMap<String, Arg> = d.params.iter().cloned().zip(args.into_iter()).collect();
            // reserve the slot (recursion)
            self.insts.insert(name.clone(), (def.clone(), Seqs::new()));
            let mut prods = Seqs::new();
            for a in &d.alts {
                if let Some((p, is_eq, lit)) = &a.cond {
                    let val = match env.get(p) {
                        Some(Arg::Lit(s)) => s.clone(),
                        Some(Arg::Inst(s)) => s.clone(),
                        None => String::new(),
                    };
                    let lit = lit.trim_matches('"');
                    if (val == lit) != *is_eq {
                        continue;
                    }
                }
                let mut acc: Seqs = [vec![]].into_iter().collect();
                for s in &a.syms {
                    let e = self.expand_sym(s, &env);
                    acc = product(&acc, &e, &mut self.limit_hit);
                }
                prods.extend(acc);
            }
            self.insts.insert(name, (def, prods));
        }
    }
}

/// Anchor instance -> its productions (rendered), after helper substitution.
pub fn normal_form(g: &Grammar, reviewed: &BTreeSet<String>) -> Result<BTreeMap<String, BTreeSet<String>>, String> {
    let mut b = Builder { g, insts: BTreeMap::new(), work: vec![], limit_hit: false };
    for d in &g.defs {
        if d.params.is_empty() {
            b.request(&d.name, vec![]);
        }
    }
    b.run();
    if b.limit_hit {
        return Err("the expansion of an alternative exceeds the size bound".into());
    }
    // an instance is generic over a symbol if one of its arguments is a nonterminal (`OneOrMore<Test<"all">>`,
    // `ParameterList<TypedParameter, ..>`); string arguments (`Test<"all">`) are goal flags
    let is_anchor = |inst: &str, def: &str| -> bool {
        let symbol_generic = match inst.find('<') {
            Some(p) => {
                // top-level arguments of the instance name
                let inner = &inst[p + 1..inst.len() - 1];
                let mut depth = 0;
                let mut args: Vec<String> = vec![String::new()];
                for c in inner.chars() {
                    match c {
                        '<' => {
                            depth += 1;
                            args.last_mut().unwrap().push(c);
                        }
                        '>' => {
                            depth -= 1;
                            args.last_mut().unwrap().push(c);
                        }
                        ',' if depth == 0 => args.push(String::new()),
                        _ => args.last_mut().unwrap().push(c),
                    }
                }
                args.iter().any(|a| !a.trim().starts_with('"'))
            }
            None => false,
        };
        reviewed.contains(def) && !symbol_generic
    };
    let anchors: BTreeSet<String> = b.insts.iter().filter(|(i, (d, _))| is_anchor(i, d)).map(|(i, _)| i.clone()).collect();
    // helpers: resolve to sequences (non-recursive) or to a shape name (recursive)
    let mut resolved: BTreeMap<String, Result<Seqs, String>> = BTreeMap::new(); // Ok(seqs) = substitute, Err(name) = atom name
    fn resolve(name: &str, insts: &BTreeMap<String, (String, Seqs)>, anchors: &BTreeSet<String>, resolved: &mut BTreeMap<String, Result<Seqs, String>>, stack: &mut Vec<String>, limit_hit: &mut bool) -> Result<Seqs, String> {
        if let Some(r) = resolved.get(name) {
            return r.clone();
        }
        if stack.iter().any(|s| s == name) {
            // recursion through this helper: the caller names it SELF (direct) or by its own name (mutual)
            return Err(if stack.last().map_or(false, |s| s == name) { "SELF".into() } else { name.to_string() });
        }
        let Some((_, prods)) = insts.get(name) else { return Err(name.to_string()) };
        stack.push(name.to_string());
        let mut recursive = false;
        let mut out = Seqs::new();
        for q in prods {
            let mut acc: Seqs = [vec![]].into_iter().collect();
            for a in q {
                let piece: Seqs = match a {
                    Atom::N(n) if n == name => {
                        recursive = true;
                        [vec![Atom::N("SELF".into())]].into_iter().collect()
                    }
                    Atom::N(n) if !anchors.contains(n) => match resolve(n, insts, anchors, resolved, stack, limit_hit) {
                        Ok(s) => s,
                        Err(nm) => {
                            if nm == "SELF" || nm == *name {
                                recursive = true;
                                [vec![Atom::N("SELF".into())]].into_iter().collect()
                            } else {
                                [vec![Atom::N(nm)]].into_iter().collect()
                            }
                        }
                    },
                    other => [vec![other.clone()]].into_iter().collect(),
                };
                acc = product(&acc, &piece, limit_hit);
            }
            out.extend(acc);
        }
        stack.pop();
        let r = if recursive { Err(format!("μ{{{}}}", render_seqs(&out))) } else { Ok(out) };
        resolved.insert(name.to_string(), r.clone());
        r
    }
    let mut limit_hit = false;
    let mut nf: BTreeMap<String, BTreeSet<String>> = BTreeMap::new();
    for a in &anchors {
        let (_, prods) = &b.insts[a];
        let mut out = Seqs::new();
        for q in prods {
            let mut acc: Seqs = [vec![]].into_iter().collect();
            for at in q {
                let piece: Seqs = match at {
                    Atom::N(n) if !anchors.contains(n) => {
                        let mut stack = vec![];
                        match resolve(n, &b.insts, &anchors, &mut resolved, &mut stack, &mut limit_hit) {
                            Ok(s) => s,
                            Err(nm) => [vec![Atom::N(nm)]].into_iter().collect(),
                        }
                    }
                    other => [vec![other.clone()]].into_iter().collect(),
                };
                acc = product(&acc, &piece, &mut limit_hit);
            }
            out.extend(acc);
        }
        nf.insert(a.clone(), out.iter().map(|q| if q.is_empty() { "ε".to_string() } else { q.iter().map(render_atom).collect::<Vec<_>>().join(" ") }).collect());
    }
    if limit_hit {
        return Err("the expansion of an alternative exceeds the size bound".into());
    }
    Ok(nf)
}
