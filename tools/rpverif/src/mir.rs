//! Engine M consumer: loads the fact files written by tools/mirfacts (resolved call edges, asserts).

use std::collections::{BTreeMap, BTreeSet};
use std::path::Path;

#[derive(Debug, Clone)]
pub struct Call {
    pub caller: String,
    pub callee: String,
    pub substs: String,
    pub file: String,
    pub line: usize,
    pub col: usize,
    pub from_expansion: bool,
    pub resolved: bool,
    /// macros whose expansion produced the call, innermost first ("panic>assert>debug_assert")
    pub macros: String,
}

#[derive(Debug, Clone)]
pub struct Assert {
    pub func: String,
    pub kind: String,
    pub detail: String,
    pub file: String,
    pub line: usize,
    pub from_expansion: bool,
    pub macros: String,
}

#[derive(Debug, Clone)]
pub struct Func {
    pub name: String,
    pub file: String,
    pub line: usize,
    pub vis: String,
}

#[derive(Debug, Clone)]
pub struct BinOp {
    pub func: String,
    pub op: String,
    pub ty: String,
    pub file: String,
    pub line: usize,
}

/// A freshly produced TextSize/TextRange value and its consumers within the producing function.
#[derive(Debug, Clone)]
pub struct ValUse {
    pub func: String,
    pub producer: String,
    /// "call:<callee>#<arg>@<file:line:col>", "return", "aggregate:<ty>", "field-store", "other:<kind>"
    pub uses: Vec<String>,
    pub file: String,
    pub line: usize,
    pub col: usize,
    pub from_expansion: bool,
}

#[derive(Default)]
pub struct CrateFacts {
    pub valuses: Vec<ValUse>,
    pub name: String,
    pub funcs: Vec<Func>,
    pub calls: Vec<Call>,
    pub asserts: Vec<Assert>,
    pub binops: Vec<BinOp>,
    pub casts: Vec<(String, String, String, String, usize)>, // func, from, to, file, line
}

pub struct Facts {
    pub crates: BTreeMap<String, CrateFacts>,
}

fn split_loc(s: &str) -> (String, usize, usize) {
    let mut it = s.rsplitn(3, ':');
    let col = it.next().and_then(|x| x.parse().ok()).unwrap_or(0);
    let line = it.next().and_then(|x| x.parse().ok()).unwrap_or(0);
    let file = it.next().unwrap_or("").to_string();
    (file, line, col)
}

/// Lifetime parameter names are not part of an item's identity: the leading named lifetimes of a generic
/// argument list are renamed by position (`<'src, 'index>` -> `<'a, 'b>`), so a renamed lifetime parameter
/// leaves every function name in the facts unchanged.
pub fn canon_lifetimes(l: &str) -> std::borrow::Cow<'_, str> {
    if !l.contains("<'") {
        return std::borrow::Cow::Borrowed(l);
    }
    thread_local! {
        static RE: regex::Regex = regex::Regex::new(r"<('[A-Za-z_][A-Za-z0-9_]*(?:, *'[A-Za-z_][A-Za-z0-9_]*)*)").unwrap();
    }
    RE.with(|re| {
        re.replace_all(l, |c: &regex::Captures| {
            let names: Vec<&str> = c[1].split(',').map(|x| x.trim()).collect();
            let mut out = String::from("<");
            let mut next = b'a';
            for (i, n) in names.iter().enumerate() {
                if i > 0 {
                    out.push_str(", ");
                }
                if *n == "'_" || *n == "'static" {
                    out.push_str(n);
                } else {
                    out.push('\'');
                    out.push(next as char);
                    next += 1;
                }
            }
            out
        })
    })
}

pub fn load(dir: &Path) -> Result<Facts, String> {
    let mut crates = BTreeMap::new();
    let rd = std::fs::read_dir(dir).map_err(|e| format!("{}: {}", dir.display(), e))?;
    for ent in rd.flatten() {
        let p = ent.path();
        if p.extension().map_or(true, |e| e != "facts") {
            continue;
        }
        let fname = p.file_stem().unwrap().to_string_lossy().to_string();
        let krate = fname.rsplitn(2, '-').nth(1).unwrap_or(&fname).to_string();
        let text = std::fs::read_to_string(&p).map_err(|e| e.to_string())?;
        let cf: &mut CrateFacts = crates.entry(krate.clone()).or_default();
        cf.name = krate;
        for l in text.lines() {
            let l = canon_lifetimes(l);
            let f: Vec<&str> = l.split('\t').collect();
            match f.first().copied() {
                Some("FN") if f.len() >= 4 => {
                    let (file, line, _) = split_loc(f[2]);
                    cf.funcs.push(Func { name: f[1].to_string(), file, line, vis: f[3].to_string() });
                }
                Some("CALL") if f.len() >= 7 => {
                    let (file, line, col) = split_loc(f[4]);
                    cf.calls.push(Call { caller: f[1].to_string(), callee: f[2].to_string(), substs: f[3].to_string(), file, line, col, from_expansion: f[5] == "true", resolved: f[6] == "true", macros: f.get(7).map(|x| x.to_string()).unwrap_or_default() });
                }
                Some("ASSERT") if f.len() >= 6 => {
                    let (file, line, _) = split_loc(f[4]);
                    cf.asserts.push(Assert { func: f[1].to_string(), kind: f[2].to_string(), detail: f[3].to_string(), file, line, from_expansion: f[5] == "true", macros: f.get(6).map(|x| x.to_string()).unwrap_or_default() });
                }
                Some("BINOP") if f.len() >= 6 => {
                    let (file, line, _) = split_loc(f[4]);
                    cf.binops.push(BinOp { func: f[1].to_string(), op: f[2].to_string(), ty: f[3].to_string(), file, line });
                }
                Some("VALUSE") if f.len() >= 6 => {
                    let (file, line, col) = split_loc(f[4]);
                    cf.valuses.push(ValUse { func: f[1].to_string(), producer: f[2].to_string(), uses: f[3].split(';').filter(|x| !x.is_empty()).map(|x| x.to_string()).collect(), file, line, col, from_expansion: f[5] == "true" });
                }
                Some("CAST") if f.len() >= 7 => {
                    let (file, line, _) = split_loc(f[5]);
                    cf.casts.push((f[1].to_string(), f[3].to_string(), f[4].to_string(), file, line));
                }
                _ => {}
            }
        }
    }
    if crates.is_empty() {
        return Err(format!("no fact files in {}", dir.display()));
    }
    Ok(Facts { crates })
}

impl Facts {
    pub fn krate(&self, name: &str) -> Option<&CrateFacts> {
        self.crates.get(name)
    }
}

impl CrateFacts {
    /// caller -> set of callees (within this crate's names, i.e. callee paths that are also FN names here)
    pub fn local_call_graph(&self) -> BTreeMap<String, BTreeSet<String>> {
        let names: BTreeSet<&String> = self.funcs.iter().map(|f| &f.name).collect();
        let mut g: BTreeMap<String, BTreeSet<String>> = BTreeMap::new();
        for c in &self.calls {
            if names.contains(&c.callee) {
                g.entry(c.caller.clone()).or_default().insert(c.callee.clone());
            }
        }
        // trait-method calls that could not be resolved in a generic context may reach every impl of the method
        for c in &self.calls {
            // callback through the external generic LR driver: it calls every method of the local ParserDefinition impl
            if c.callee.contains("__lalrpop_util::state_machine::Parser::<D, I>::") {
                for f in &self.funcs {
                    if f.name.contains("as python::__lalrpop_util::state_machine::ParserDefinition>::") {
                        g.entry(c.caller.clone()).or_default().insert(f.name.clone());
                    }
                }
            }
            if !c.resolved && !c.callee.starts_with("std::") && !c.callee.starts_with("core::") && !c.callee.starts_with("alloc::") && !c.callee.starts_with("<") {
                if let Some(p) = c.callee.rfind("::") {
                    let (tr, m) = (&c.callee[..p], &c.callee[p + 2..]);
                    let suffix = format!(" as {}>::{}", tr, m);
                    for f in &self.funcs {
                        if f.name.ends_with(&suffix) {
                            g.entry(c.caller.clone()).or_default().insert(f.name.clone());
                        }
                    }
                }
            }
        }
        // closures belong to their parent: parent -> closure edge
        for f in &self.funcs {
            if let Some(p) = f.name.find("::{closure#") {
                g.entry(f.name[..p].to_string()).or_default().insert(f.name.clone());
            }
        }
        g
    }

    /// Functions reachable from the crate's API: public functions, every trait-impl method (it may be called through
    /// the trait from outside) and everything they call (closures belong to their parents). A private function that
    /// nothing reaches is dead code: it cannot run, so it carries no obligation.
    pub fn reachable_from_api(&self) -> BTreeSet<String> {
        let g = self.local_call_graph();
        let mut seen: BTreeSet<String> = BTreeSet::new();
        let mut work: Vec<String> = self.funcs.iter().filter(|f| f.vis.starts_with("Public") || f.name.starts_with('<') || f.name.contains(" as ")).map(|f| f.name.clone()).collect();
        while let Some(u) = work.pop() {
            if !seen.insert(u.clone()) {
                continue;
            }
            if let Some(vs) = g.get(&u) {
                for v in vs {
                    if !seen.contains(v) {
                        work.push(v.clone());
                    }
                }
            }
        }
        seen
    }

    /// Strongly connected components with more than one node or a self loop.
    pub fn recursive_sccs(&self, filter: &dyn Fn(&str) -> bool) -> Vec<Vec<String>> {
        let g = self.local_call_graph();
        let nodes: Vec<String> = self.funcs.iter().map(|f| f.name.clone()).filter(|n| filter(n)).collect();
        let idx: BTreeMap<&String, usize> = nodes.iter().enumerate().map(|(i, n)| (n, i)).collect();
        let n = nodes.len();
        let adj: Vec<Vec<usize>> = nodes.iter().map(|u| g.get(u).map(|s| s.iter().filter_map(|v| idx.get(v).copied()).collect()).unwrap_or_default()).collect();
        // Tarjan (iterative)
        let mut index = vec![usize::MAX; n];
        let mut low = vec![0usize; n];
        let mut on = vec![false; n];
        let mut stack: Vec<usize> = vec![];
        let mut next = 0usize;
        let mut out = vec![];
        for s in 0..n {
            if index[s] != usize::MAX {
                continue;
            }
            let mut work: Vec<(usize, usize)> = vec![(s, 0)];
            while let Some(&mut (v, ref mut i)) = work.last_mut() {
                if *i == 0 {
                    index[v] = next;
                    low[v] = next;
                    next += 1;
                    stack.push(v);
                    on[v] = true;
                }
                if *i < adj[v].len() {
                    let w = adj[v][*i];
                    *i += 1;
                    if index[w] == usize::MAX {
                        work.push((w, 0));
                    } else if on[w] {
                        low[v] = low[v].min(index[w]);
                    }
                } else {
                    if low[v] == index[v] {
                        let mut comp = vec![];
                        loop {
                            let w = stack.pop().unwrap();
                            on[w] = false;
                            comp.push(w);
                            if w == v {
                                break;
                            }
                        }
                        let self_loop = comp.len() == 1 && adj[v].contains(&v);
                        if comp.len() > 1 || self_loop {
                            let mut names: Vec<String> = comp.iter().map(|i| nodes[*i].clone()).collect();
                            names.sort();
                            out.push(names);
                        }
                    }
                    work.pop();
                    if let Some(&mut (u, _)) = work.last_mut() {
                        low[u] = low[u].min(low[v]);
                    }
                }
            }
        }
        out.sort();
        out
    }
}
