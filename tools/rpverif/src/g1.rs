//! Engine G1: translation validation of parser/src/python.rs against lalrpop(python.lalrpop).
//! The checked-in file is what is compiled; build.rs only compares a hash. We regenerate with the
//! lalrpop crate (0.20.2) and compare item by item after a whitelisted normalisation (DESIGN §2.2).

use crate::report::Ctx;
use crate::srcmodel as sm;
use std::collections::BTreeMap;
use std::path::{Path, PathBuf};
use syn::visit_mut::VisitMut;

struct Norm;

fn is_whitelisted_attr(a: &syn::Attribute) -> bool {
    let p = sm::tsc(a.path());
    p == "allow" || p == "rustfmt::skip"
}

impl VisitMut for Norm {
    fn visit_attributes_mut(&mut self, attrs: &mut Vec<syn::Attribute>) {
        attrs.retain(|a| !is_whitelisted_attr(a));
    }
    fn visit_visibility_mut(&mut self, v: &mut syn::Visibility) {
        if let syn::Visibility::Restricted(_) = v {
            *v = syn::Visibility::Inherited;
        }
    }
    fn visit_expr_mut(&mut self, e: &mut syn::Expr) {
        syn::visit_mut::visit_expr_mut(self, e);
        // `X.clone()` on the Copy-typed location values the generator started cloning in 0.20.2
        if let syn::Expr::MethodCall(mc) = e {
            if mc.method == "clone" && mc.args.is_empty() {
                let r = sm::tsc(&mc.receiver);
                if r == "s.2" || r == "__start" || r == "__lookahead_start" || r == "__lookbehind" || r.ends_with(".2") || r.ends_with(".0") {
                    let inner = (*mc.receiver).clone();
                    *e = inner;
                }
            }
        }
    }
}

fn item_name(it: &syn::Item, counter: &mut BTreeMap<String, usize>) -> String {
    let base = match it {
        syn::Item::Fn(f) => format!("fn {}", f.sig.ident),
        syn::Item::Mod(m) => format!("mod {}", m.ident),
        syn::Item::Struct(s) => format!("struct {}", s.ident),
        syn::Item::Enum(s) => format!("enum {}", s.ident),
        syn::Item::Const(s) => format!("const {}", s.ident),
        syn::Item::Static(s) => format!("static {}", s.ident),
        syn::Item::Trait(s) => format!("trait {}", s.ident),
        syn::Item::Type(s) => format!("type {}", s.ident),
        syn::Item::Impl(i) => format!(
            "impl {} for {}",
            i.trait_.as_ref().map(|t| sm::tsc(&t.1)).unwrap_or_default(),
            sm::tsc(&i.self_ty)
        ),
        syn::Item::Use(u) => format!("use {}", sm::tsc(&u.tree)),
        syn::Item::ExternCrate(e) => format!("extern crate {}", e.ident),
        other => format!("item {}", sm::tsc(other).chars().take(40).collect::<String>()),
    };
    let n = counter.entry(base.clone()).or_insert(0);
    *n += 1;
    if *n > 1 {
        format!("{}#{}", base, n)
    } else {
        base
    }
}

fn collect(prefix: &str, items: &[syn::Item], out: &mut BTreeMap<String, (String, usize)>) {
    let mut counter = BTreeMap::new();
    for it in items {
        let name = item_name(it, &mut counter);
        let full = if prefix.is_empty() { name.clone() } else { format!("{}::{}", prefix, name) };
        match it {
            syn::Item::Mod(m) if m.content.is_some() => {
                collect(&full, &m.content.as_ref().unwrap().1, out);
            }
            syn::Item::Impl(i) => {
                // split impls into methods so that a report names the method
                let mut c2 = BTreeMap::new();
                let mut header = i.clone();
                header.items.clear();
                out.insert(format!("{} {{header}}", full), (sm::ts(&header), sm::line(i.impl_token.span)));
                for ii in &i.items {
                    let nm = match ii {
                        syn::ImplItem::Fn(f) => format!("fn {}", f.sig.ident),
                        syn::ImplItem::Type(t) => format!("type {}", t.ident),
                        syn::ImplItem::Const(t) => format!("const {}", t.ident),
                        o => sm::tsc(o).chars().take(30).collect(),
                    };
                    let n = c2.entry(nm.clone()).or_insert(0usize);
                    *n += 1;
                    let nm = if *n > 1 { format!("{}#{}", nm, n) } else { nm };
                    let l = match ii {
                        syn::ImplItem::Fn(f) => sm::line(f.sig.ident.span()),
                        _ => sm::line(i.impl_token.span),
                    };
                    out.insert(format!("{}::{}", full, nm), (sm::ts(ii), l));
                }
            }
            _ => {
                let l = match it {
                    syn::Item::Fn(f) => sm::line(f.sig.ident.span()),
                    syn::Item::Const(c) => sm::line(c.ident.span()),
                    syn::Item::Struct(c) => sm::line(c.ident.span()),
                    syn::Item::Enum(c) => sm::line(c.ident.span()),
                    _ => 0,
                };
                out.insert(full, (sm::ts(it), l));
            }
        }
    }
}

pub fn regenerate(repo: &Path) -> Result<PathBuf, String> {
    let dir = std::env::temp_dir().join(format!("rpverif-g1-{}", std::process::id()));
    let _ = std::fs::remove_dir_all(&dir);
    std::fs::create_dir_all(&dir).map_err(|e| e.to_string())?;
    let src = repo.join("parser/src/python.lalrpop");
    std::fs::copy(&src, dir.join("python.lalrpop")).map_err(|e| format!("{}: {}", src.display(), e))?;
    let r = lalrpop::Configuration::new()
        .set_in_dir(&dir)
        .set_out_dir(&dir)
        .emit_rerun_directives(false)
        .log_quiet()
        .force_build(true)
        .process_file(dir.join("python.lalrpop"));
    if let Err(e) = r {
        let _ = std::fs::remove_dir_all(&dir);
        return Err(format!("lalrpop failed on python.lalrpop: {}", e));
    }
    Ok(dir)
}

/// Runs G1 under rule id `rule` of the current property. Returns number of compared items.
pub fn run(cx: &mut Ctx, rule: &str) {
    cx.rule(rule, "the compiled parser/src/python.rs equals lalrpop(parser/src/python.lalrpop) item by item, modulo the whitelisted generator-version differences (#[allow]/#[rustfmt::skip] attributes, pub(crate) visibility, .clone() on Copy locations, impl Default for TopParser, version header); the sha3 header equals the grammar's hash");
    cx.floor(rule, 2500);
    cx.trust("lalrpop 0.20.2 generator (regeneration oracle for python.rs)");
    let dir = match regenerate(&cx.repo) {
        Ok(d) => d,
        Err(e) => {
            cx.fail(rule, &format!("{}/regenerate", rule), "parser/src/python.lalrpop", &e);
            return;
        }
    };
    let gen_text = std::fs::read_to_string(dir.join("python.rs")).unwrap_or_default();
    let _ = std::fs::remove_dir_all(&dir);
    let cur_text = match std::fs::read_to_string(cx.repo.join("parser/src/python.rs")) {
        Ok(t) => t,
        Err(e) => return cx.anchor_missing(rule, &format!("parser/src/python.rs: {}", e)),
    };
    // header: sha3 line must agree
    let sha = |t: &str| t.lines().find(|l| l.starts_with("// sha3: ")).map(|s| s.to_string());
    match (sha(&cur_text), sha(&gen_text)) {
        (Some(a), Some(b)) if a == b => cx.ok(rule, &format!("sha3 header {}", &a[9..21])),
        (a, b) => cx.fail(rule, &format!("{}/sha3", rule), "parser/src/python.rs:2", &format!("sha3 header {:?} differs from the grammar's {:?}", a, b)),
    }
    let parse = |t: &str, what: &str| -> Result<syn::File, String> { syn::parse_file(t).map_err(|e| format!("{}: {}", what, e)) };
    let (mut cur, mut gen) = match (parse(&cur_text, "python.rs"), parse(&gen_text, "regenerated python.rs")) {
        (Ok(a), Ok(b)) => (a, b),
        (Err(e), _) | (_, Err(e)) => {
            cx.fail(rule, &format!("{}/parse", rule), "parser/src/python.rs", &e);
            return;
        }
    };
    Norm.visit_file_mut(&mut cur);
    Norm.visit_file_mut(&mut gen);
    let mut a = BTreeMap::new();
    let mut b = BTreeMap::new();
    collect("", &cur.items, &mut a);
    collect("", &gen.items, &mut b);
    // whitelist: impl Default for TopParser exists only in newer generators
    let wl = |k: &str| k.contains("impl Default for TopParser");
    let mut n = 0;
    for (k, (txt, line)) in &a {
        if wl(k) {
            continue;
        }
        n += 1;
        match b.get(k) {
            None => cx.fail(rule, &format!("{}/extra/{}", rule, k), &format!("parser/src/python.rs:{}", line), &format!("item `{}` exists in python.rs but not in the regenerated parser", k)),
            Some((t2, _)) if t2 != txt => {
                let (x, y) = first_diff(txt, t2);
                cx.fail(rule, &format!("{}/differs/{}", rule, k), &format!("parser/src/python.rs:{}", line), &format!("item `{}` differs from the regenerated parser: checked-in `…{}…` vs generated `…{}…`", k, x, y));
            }
            Some(_) => cx.ok_trivial(rule),
        }
    }
    for (k, (_, _)) in &b {
        if wl(k) {
            continue;
        }
        if !a.contains_key(k) {
            cx.fail(rule, &format!("{}/missing/{}", rule, k), "parser/src/python.rs", &format!("item `{}` is generated from the grammar but missing in python.rs", k));
        }
    }
    let actions = a.keys().filter(|k| k.contains("fn __action")).count();
    let reduces = a.keys().filter(|k| k.contains("fn __reduce")).count();
    cx.unit("python.rs items compared", n);
    cx.unit("python.rs __action functions", actions);
    cx.unit("python.rs __reduce functions", reduces);
    cx.ok(rule, &format!("{} items ({} __action, {} __reduce functions) equal the regenerated parser", n, actions, reduces));
}

fn first_diff(a: &str, b: &str) -> (String, String) {
    let ab: Vec<char> = a.chars().collect();
    let bb: Vec<char> = b.chars().collect();
    let mut i = 0;
    while i < ab.len() && i < bb.len() && ab[i] == bb[i] {
        i += 1;
    }
    let st = i.saturating_sub(30);
    let ea = (i + 50).min(ab.len());
    let eb = (i + 50).min(bb.len());
    (ab[st..ea].iter().collect(), bb[st..eb].iter().collect())
}
