//! Reading a function that was split in two as the unsplit function.
//!
//! A private function or method that is **not** in the reviewed decomposition (refdata/private_fns.json) and is
//! called exactly once in its file is spliced into that call site when the splice is semantics-preserving by
//! construction:
//!
//!  * exit position -- the call is the operand of a `return`, or the tail expression of the caller (through blocks,
//!    `if`/`else` branches and `match` arms): the helper's value is the caller's value, so the helper's own `return`s
//!    and `?`s leave the caller exactly as they left the helper;
//!  * statement position -- `h(..)?;` / `h(..);` with a helper returning `Result<(), _>` / `()` and no early
//!    `return Ok(..)` / `return;`: the body's statements run in place, `return Err(..)` and `?` propagate as before,
//!    a trailing `Ok(())` is the fall-through;
//!  * binding position -- `let P = h(..)?;` / `let P = h(..);` with a body that has no `return`: the statements run
//!    in place and `P` is bound to the body's value (`Ok(v)` unwrapped under `?`).
//!
//! Arguments must be side-effect free (paths, literals, field reads, references, casts of those) and are substituted
//! for the parameters; names bound at the top level of the body must not be used by the caller's following statements.
//! The helper is removed afterwards, so the rules see the unsplit function.

use crate::srcmodel as sm;
use std::collections::{BTreeMap, BTreeSet};
use syn::visit_mut::{self, VisitMut};

pub fn pure_arg(e: &syn::Expr) -> bool {
    match e {
        syn::Expr::Path(_) | syn::Expr::Lit(_) => true,
        syn::Expr::Field(f) => pure_arg(&f.base),
        syn::Expr::Index(i) => pure_arg(&i.expr) && pure_arg(&i.index),
        syn::Expr::Paren(p) => pure_arg(&p.expr),
        syn::Expr::Reference(r) => pure_arg(&r.expr),
        syn::Expr::Unary(u) => pure_arg(&u.expr),
        syn::Expr::Cast(c) => pure_arg(&c.expr),
        // accessors without effects on a side-effect-free receiver
        syn::Expr::MethodCall(mc) => mc.args.is_empty() && pure_arg(&mc.receiver) && matches!(mc.method.to_string().as_str(), "as_deref" | "as_ref" | "as_str" | "as_slice" | "clone" | "copied" | "cloned" | "len" | "is_empty" | "is_some" | "is_none" | "to_owned"),
        _ => false,
    }
}

/// Substitute parameters by argument expressions (also inside macro arguments, token-wise).
pub struct Subst<'a> {
    pub map: &'a BTreeMap<String, syn::Expr>,
}

impl<'a> VisitMut for Subst<'a> {
    fn visit_expr_mut(&mut self, e: &mut syn::Expr) {
        if let Some(id) = sm::as_ident(e) {
            if let Some(r) = self.map.get(&id) {
                *e = match r {
                    syn::Expr::Path(_) | syn::Expr::Lit(_) | syn::Expr::Field(_) | syn::Expr::Index(_) | syn::Expr::Paren(_) => r.clone(),
                    other => syn::Expr::Paren(syn::ExprParen { attrs: vec![], paren_token: Default::default(), expr: Box::new(other.clone()) }),
                };
                return;
            }
        }
        visit_mut::visit_expr_mut(self, e);
    }
    fn visit_field_value_mut(&mut self, fv: &mut syn::FieldValue) {
        // shorthand `S { x }` with x substituted becomes `S { x: arg }`
        if fv.colon_token.is_none() {
            if let syn::Member::Named(m) = &fv.member {
                if self.map.contains_key(&m.to_string()) {
                    fv.colon_token = Some(Default::default());
                }
            }
        }
        self.visit_expr_mut(&mut fv.expr);
    }
    fn visit_macro_mut(&mut self, m: &mut syn::Macro) {
        fn go(ts: proc_macro2::TokenStream, map: &BTreeMap<String, syn::Expr>) -> proc_macro2::TokenStream {
            let mut out = proc_macro2::TokenStream::new();
            let mut prev_dot = false;
            for tt in ts {
                match tt {
                    proc_macro2::TokenTree::Ident(ref i) if !prev_dot && map.contains_key(&i.to_string()) => {
                        let r = &map[&i.to_string()];
                        match r {
                            syn::Expr::Path(_) | syn::Expr::Lit(_) => out.extend(quote::quote!(#r)),
                            _ => out.extend(quote::quote!((#r))),
                        }
                        prev_dot = false;
                    }
                    proc_macro2::TokenTree::Group(g) => {
                        let ng = proc_macro2::Group::new(g.delimiter(), go(g.stream(), map));
                        out.extend(std::iter::once(proc_macro2::TokenTree::Group(ng)));
                        prev_dot = false;
                    }
                    other => {
                        prev_dot = matches!(&other, proc_macro2::TokenTree::Punct(p) if p.as_char() == '.');
                        out.extend(std::iter::once(other));
                    }
                }
            }
            out
        }
        m.tokens = go(m.tokens.clone(), self.map);
    }
}

struct Cand {
    name: String,
    method: bool,
    params: Vec<String>,
    /// parameters the body assigns to or rebinds: the argument must be a local of the same name
    fixed: BTreeSet<String>,
    body: syn::Block,
    /// Some(true): returns Result<(), _>; Some(false): returns (); None: returns a value
    unit: Option<bool>,
}

fn simple_attrs(attrs: &[syn::Attribute]) -> bool {
    attrs.iter().all(|a| a.path().is_ident("doc") || a.path().is_ident("inline") || a.path().is_ident("must_use") || a.path().is_ident("allow") || a.path().is_ident("cold"))
}

fn cand_of(sig: &syn::Signature, vis: &syn::Visibility, attrs: &[syn::Attribute], block: &syn::Block, reviewed: &BTreeSet<String>) -> Option<Cand> {
    let name = sig.ident.to_string();
    if reviewed.contains(&name) || !matches!(vis, syn::Visibility::Inherited) || !simple_attrs(attrs) || sig.asyncness.is_some() || sig.unsafety.is_some() || sig.constness.is_some() {
        return None;
    }
    // a generic parameter that the body names (turbofish, associated call) would dangle after the splice
    let body_toks = {
        let mut v = vec![];
        sm::flat_tokens(quote::ToTokens::to_token_stream(block), &mut v);
        v
    };
    for gp in &sig.generics.params {
        let n = match gp {
            syn::GenericParam::Type(t) => t.ident.to_string(),
            syn::GenericParam::Const(c) => c.ident.to_string(),
            syn::GenericParam::Lifetime(_) => continue,
        };
        if body_toks.contains(&n) {
            return None;
        }
    }
    // recursion
    if body_toks.windows(2).any(|w| w[0] == name && w[1] == "(") {
        return None;
    }
    let mut params = vec![];
    let mut method = false;
    for a in &sig.inputs {
        match a {
            syn::FnArg::Receiver(_) => {
                // `self`, `&self`, `&mut self`: the body's `self` is the caller's `self` (calls are `self.h(..)` only)
                method = true;
            }
            syn::FnArg::Typed(pt) => match &*pt.pat {
                syn::Pat::Ident(pi) if pi.by_ref.is_none() && pi.subpat.is_none() => params.push(pi.ident.to_string()),
                _ => return None,
            },
        }
    }
    // a parameter that the body assigns to or rebinds cannot be replaced by an argument expression
    let mut fixed: BTreeSet<String> = BTreeSet::new();
    for p in &params {
        for (i, t) in body_toks.iter().enumerate() {
            if t != p {
                continue;
            }
            let prev = if i > 0 { body_toks[i - 1].as_str() } else { "" };
            let next = body_toks.get(i + 1).map(|s| s.as_str()).unwrap_or("");
            let next2 = body_toks.get(i + 2).map(|s| s.as_str()).unwrap_or("");
            let assigned = (next == "=" && next2 != "=") || (matches!(next, "+" | "-" | "*" | "/" | "|" | "&" | "^" | "<<" | ">>") && next2 == "=");
            let rebound = matches!(prev, "let" | "mut" | "|" | "for") || (next == "@");
            if prev != "." && (assigned || rebound) {
                fixed.insert(p.clone());
            }
        }
    }
    // a parameter that some pattern inside the body binds again (`if let Some(kind) = kind`) is shadowed there: the
    // scope-unaware substitution would reach into the shadowed region
    {
        struct Binds(BTreeSet<String>);
        impl<'ast> syn::visit::Visit<'ast> for Binds {
            fn visit_pat_ident(&mut self, p: &'ast syn::PatIdent) {
                self.0.insert(p.ident.to_string());
                syn::visit::visit_pat_ident(self, p);
            }
        }
        let mut b = Binds(BTreeSet::new());
        syn::visit::Visit::visit_block(&mut b, block);
        for p in &params {
            if b.0.contains(p) {
                fixed.insert(p.clone());
            }
        }
    }
    let unit = match &sig.output {
        syn::ReturnType::Default => Some(false),
        syn::ReturnType::Type(_, t) => {
            let tt = sm::tsc(t);
            if tt == "()" {
                Some(false)
            } else if tt.starts_with("Result<(),") || tt == "fmt::Result" || tt == "std::fmt::Result" || tt == "core::fmt::Result" {
                Some(true)
            } else {
                None
            }
        }
    };
    Some(Cand { name, method, params, fixed, body: block.clone(), unit })
}

/// `e` (possibly under `?`) is a call of `c` with pure arguments: the arguments and whether a `?` follows.
fn call_of<'e>(e: &'e syn::Expr, c: &Cand) -> Option<(Vec<syn::Expr>, bool)> {
    let (inner, tried) = match e {
        syn::Expr::Try(t) => (&*t.expr, true),
        other => (other, false),
    };
    let args: Vec<syn::Expr> = match inner {
        syn::Expr::MethodCall(mc) if c.method && mc.method == c.name.as_str() && sm::tsc(&mc.receiver) == "self" && mc.turbofish.is_none() => mc.args.iter().cloned().collect(),
        syn::Expr::Call(call) if !c.method => {
            let ft = sm::tsc(&call.func);
            let ok = ft == c.name || ft == format!("Self::{}", c.name) || (ft.ends_with(&format!("::{}", c.name)) && ft.matches("::").count() == 1);
            if !ok {
                return None;
            }
            call.args.iter().cloned().collect()
        }
        _ => return None,
    };
    if args.len() != c.params.len() || !args.iter().all(|a| pure_arg(a) || closure_arg(a)) {
        return None;
    }
    for (p, a) in c.params.iter().zip(&args) {
        if closure_arg(a) && !only_called(&c.body, p) {
            return None;
        }
    }
    for (p, a) in c.params.iter().zip(&args) {
        if c.fixed.contains(p) && sm::as_ident(a).as_deref() != Some(p.as_str()) {
            return None;
        }
    }
    Some((args, tried))
}

/// A closure literal with plain identifier parameters and a body without `return`: it can be applied in place.
fn closure_arg(e: &syn::Expr) -> bool {
    match e {
        syn::Expr::Closure(c) => {
            c.capture.is_none()
                && c.inputs.iter().all(|p| match p {
                    syn::Pat::Ident(pi) => pi.by_ref.is_none() && pi.subpat.is_none(),
                    syn::Pat::Type(pt) => matches!(&*pt.pat, syn::Pat::Ident(pi) if pi.by_ref.is_none() && pi.subpat.is_none()),
                    _ => false,
                })
                && {
                    let mut v = vec![];
                    sm::flat_tokens(quote::ToTokens::to_token_stream(&c.body), &mut v);
                    !v.iter().any(|t| t == "return")
                }
        }
        _ => false,
    }
}

/// Is the parameter `p` used in `body` only as the callee of direct calls `p(args)` with pure arguments?
fn only_called(body: &syn::Block, p: &str) -> bool {
    let mut v = vec![];
    sm::flat_tokens(quote::ToTokens::to_token_stream(body), &mut v);
    v.iter().enumerate().all(|(i, t)| t != p || (v.get(i + 1).map_or(false, |n| n == "(") && (i == 0 || (v[i - 1] != "." && v[i - 1] != "&"))))
}

/// Apply closure arguments in place: `f(a)` with `f := |x| body`  ->  `body[x := a]`.
struct Beta<'a> {
    closures: &'a BTreeMap<String, syn::ExprClosure>,
    failed: bool,
}

impl<'a> VisitMut for Beta<'a> {
    fn visit_expr_mut(&mut self, e: &mut syn::Expr) {
        visit_mut::visit_expr_mut(self, e);
        let repl: Option<syn::Expr> = match e {
            syn::Expr::Call(call) => match sm::as_ident(&call.func).and_then(|n| self.closures.get(&n)) {
                Some(cl) => {
                    if call.args.len() != cl.inputs.len() || !call.args.iter().all(pure_arg) {
                        self.failed = true;
                        None
                    } else {
                        let names: Vec<String> = cl
                            .inputs
                            .iter()
                            .map(|p| match p {
                                syn::Pat::Ident(pi) => pi.ident.to_string(),
                                syn::Pat::Type(pt) => match &*pt.pat {
                                    syn::Pat::Ident(pi) => pi.ident.to_string(),
                                    _ => String::new(),
                                },
                                _ => String::new(),
                            })
                            .collect();
                        let map: BTreeMap<String, syn::Expr> = names.into_iter().zip(call.args.iter().cloned()).collect();
                        let mut body = (*cl.body).clone();
                        Subst { map: &map }.visit_expr_mut(&mut body);
                        Some(match body {
                            syn::Expr::Struct(_) | syn::Expr::Call(_) | syn::Expr::MethodCall(_) | syn::Expr::Path(_) | syn::Expr::Lit(_) | syn::Expr::Macro(_) | syn::Expr::Field(_) | syn::Expr::Index(_) | syn::Expr::Paren(_) | syn::Expr::Tuple(_) | syn::Expr::Block(_) => body,
                            other => syn::Expr::Paren(syn::ExprParen { attrs: vec![], paren_token: Default::default(), expr: Box::new(other) }),
                        })
                    }
                }
                None => None,
            },
            _ => None,
        };
        if let Some(r) = repl {
            *e = r;
        }
    }
}

fn instantiate(c: &Cand, args: Vec<syn::Expr>) -> syn::Block {
    let closures: BTreeMap<String, syn::ExprClosure> = c.params.iter().cloned().zip(args.iter().cloned()).filter_map(|(p, a)| if let syn::Expr::Closure(cl) = a { Some((p, cl)) } else { None }).collect();
    let map: BTreeMap<String, syn::Expr> = c.params.iter().cloned().zip(args).filter(|(p, a)| !closures.contains_key(p) && sm::as_ident(a).as_deref() != Some(p.as_str())).collect();
    let mut b = c.body.clone();
    if !closures.is_empty() {
        let mut beta = Beta { closures: &closures, failed: false };
        beta.visit_block_mut(&mut b);
    }
    // `use` items inside the helper body are dropped (paths resolve the same way at file level in this code base or
    // the rules do not depend on them)
    b.stmts.retain(|s| !matches!(s, syn::Stmt::Item(syn::Item::Use(_))));
    if !map.is_empty() {
        Subst { map: &map }.visit_block_mut(&mut b);
    }
    b
}

fn top_level_bound(b: &syn::Block) -> BTreeSet<String> {
    let mut out = vec![];
    for s in &b.stmts {
        if let syn::Stmt::Local(l) = s {
            sm::pat_idents(&l.pat, &mut out);
        }
    }
    out.into_iter().collect()
}

fn idents_of_stmts(stmts: &[syn::Stmt]) -> BTreeSet<String> {
    let mut v = vec![];
    for s in stmts {
        sm::flat_tokens(quote::ToTokens::to_token_stream(s), &mut v);
    }
    v.into_iter().collect()
}

fn has_return(b: &syn::Block) -> bool {
    let mut v = vec![];
    sm::flat_tokens(quote::ToTokens::to_token_stream(b), &mut v);
    v.iter().any(|t| t == "return")
}

fn has_early_ok_return(b: &syn::Block) -> bool {
    let t = sm::tsc(b);
    t.contains("returnOk(") || t.contains("return;")
}

struct Splicer<'a> {
    c: &'a Cand,
    /// is the expression being visited in exit position of the enclosing function?
    exit: bool,
    done: bool,
}

impl<'a> Splicer<'a> {
    fn block_expr(b: syn::Block) -> syn::Expr {
        syn::Expr::Block(syn::ExprBlock { attrs: vec![], label: None, block: b })
    }
}

impl<'a> VisitMut for Splicer<'a> {
    fn visit_item_fn_mut(&mut self, f: &mut syn::ItemFn) {
        if f.sig.ident == self.c.name.as_str() {
            return;
        }
        self.exit = true;
        self.visit_block_mut(&mut f.block);
    }
    fn visit_impl_item_fn_mut(&mut self, f: &mut syn::ImplItemFn) {
        if f.sig.ident == self.c.name.as_str() {
            return;
        }
        self.exit = true;
        self.visit_block_mut(&mut f.block);
    }
    fn visit_expr_closure_mut(&mut self, c: &mut syn::ExprClosure) {
        // a closure body is its own function: `return` and `?` leave the closure
        let saved = self.exit;
        self.exit = false;
        // a call inside a closure is never spliced: hide the candidate by not descending
        let _ = c;
        self.exit = saved;
    }
    fn visit_block_mut(&mut self, b: &mut syn::Block) {
        let exit = self.exit;
        let mut i = 0;
        while i < b.stmts.len() {
            if self.done {
                break;
            }
            let last = i + 1 == b.stmts.len();
            // what to do with statement i
            enum Act {
                SpliceStmts(Vec<syn::Stmt>),
                None,
            }
            let act = match &b.stmts[i] {
                syn::Stmt::Expr(e, semi) => {
                    if let (Some((args, tried)), Some(_)) = (call_of(e, self.c), semi) {
                        // statement position
                        match self.c.unit {
                            Some(is_result) if tried == is_result && !has_early_ok_return(&self.c.body) => {
                                let mut body = instantiate(self.c, args);
                                if is_result {
                                    if let Some(syn::Stmt::Expr(x, None)) = body.stmts.last() {
                                        if sm::tsc(x) == "Ok(())" {
                                            body.stmts.pop();
                                        }
                                    }
                                }
                                // a value-less tail expression becomes a statement
                                if let Some(syn::Stmt::Expr(x, semi @ None)) = body.stmts.last_mut() {
                                    if !matches!(x, syn::Expr::If(_) | syn::Expr::Match(_) | syn::Expr::Loop(_) | syn::Expr::While(_) | syn::Expr::ForLoop(_) | syn::Expr::Block(_)) {
                                        *semi = Some(Default::default());
                                    }
                                }
                                let bound = top_level_bound(&body);
                                let following = idents_of_stmts(&b.stmts[i + 1..]);
                                if bound.is_disjoint(&following) {
                                    Act::SpliceStmts(body.stmts)
                                } else {
                                    Act::None
                                }
                            }
                            _ => Act::None,
                        }
                    } else if let syn::Expr::Return(r) = e {
                        match r.expr.as_ref().and_then(|x| call_of(x, self.c)) {
                            Some((args, false)) => {
                                // `return h(..);`: the body runs in place, its value is returned
                                let mut body = instantiate(self.c, args);
                                if let Some(syn::Stmt::Expr(x, semi @ None)) = body.stmts.last_mut() {
                                    let x2 = x.clone();
                                    *x = syn::parse_quote!(return #x2);
                                    *semi = Some(Default::default());
                                }
                                Act::SpliceStmts(body.stmts)
                            }
                            _ => Act::None,
                        }
                    } else if last && semi.is_none() && exit {
                        match call_of(e, self.c) {
                            Some((args, false)) => Act::SpliceStmts(instantiate(self.c, args).stmts),
                            _ => Act::None,
                        }
                    } else {
                        Act::None
                    }
                }
                syn::Stmt::Local(l) if l.attrs.is_empty() => match &l.init {
                    Some(init) if init.diverge.is_none() => match call_of(&init.expr, self.c) {
                        Some((args, tried)) if self.c.unit.is_none() && !has_return(&self.c.body) => {
                            let mut body = instantiate(self.c, args);
                            match body.stmts.pop() {
                                Some(syn::Stmt::Expr(x, None)) => {
                                    let value: syn::Expr = if tried {
                                        match &x {
                                            syn::Expr::Call(c) if sm::tsc(&c.func) == "Ok" && c.args.len() == 1 => c.args[0].clone(),
                                            other => syn::parse_quote!(#other?),
                                        }
                                    } else {
                                        x
                                    };
                                    let mut nl = l.clone();
                                    if let Some(ni) = nl.init.as_mut() {
                                        ni.expr = Box::new(value);
                                    }
                                    let mut bound = top_level_bound(&body);
                                    let mut pat_names = vec![];
                                    sm::pat_idents(&l.pat, &mut pat_names);
                                    for n in &pat_names {
                                        bound.remove(n);
                                    }
                                    let following = idents_of_stmts(&b.stmts[i + 1..]);
                                    if bound.is_disjoint(&following) {
                                        let mut stmts = body.stmts;
                                        stmts.push(syn::Stmt::Local(nl));
                                        Act::SpliceStmts(stmts)
                                    } else {
                                        Act::None
                                    }
                                }
                                _ => Act::None,
                            }
                        }
                        _ => Act::None,
                    },
                    _ => Act::None,
                },
                _ => Act::None,
            };
            match act {
                Act::SpliceStmts(stmts) => {
                    let tail: Vec<syn::Stmt> = b.stmts.drain(i + 1..).collect();
                    b.stmts.pop();
                    b.stmts.extend(stmts);
                    b.stmts.extend(tail);
                    self.done = true;
                    break;
                }
                Act::None => {}
            }
            // descend
            match &mut b.stmts[i] {
                syn::Stmt::Expr(e, semi) => {
                    self.exit = exit && last && semi.is_none();
                    self.visit_expr_mut(e);
                }
                syn::Stmt::Local(l) => {
                    self.exit = false;
                    if let Some(init) = l.init.as_mut() {
                        self.visit_expr_mut(&mut init.expr);
                        if let Some((_, d)) = init.diverge.as_mut() {
                            self.visit_expr_mut(d);
                        }
                    }
                }
                syn::Stmt::Macro(_) | syn::Stmt::Item(_) => {}
            }
            i += 1;
        }
        self.exit = exit;
    }
    fn visit_expr_mut(&mut self, e: &mut syn::Expr) {
        if self.done {
            return;
        }
        let exit = self.exit;
        match e {
            syn::Expr::Block(b) => {
                self.visit_block_mut(&mut b.block);
            }
            syn::Expr::If(i) => {
                self.exit = false;
                self.visit_expr_mut(&mut i.cond);
                self.exit = exit;
                self.visit_block_mut(&mut i.then_branch);
                if let Some((_, el)) = i.else_branch.as_mut() {
                    self.exit = exit;
                    self.visit_expr_mut(el);
                }
            }
            syn::Expr::Match(m) => {
                self.exit = false;
                self.visit_expr_mut(&mut m.expr);
                for arm in m.arms.iter_mut() {
                    if self.done {
                        break;
                    }
                    if exit {
                        if let Some((args, false)) = call_of(&arm.body, self.c) {
                            *arm.body = Self::block_expr(instantiate(self.c, args));
                            self.done = true;
                            break;
                        }
                    }
                    self.exit = exit;
                    self.visit_expr_mut(&mut arm.body);
                }
            }
            syn::Expr::Return(r) => {
                if let Some(x) = r.expr.as_mut() {
                    if let Some((args, false)) = call_of(x, self.c) {
                        **x = Self::block_expr(instantiate(self.c, args));
                        self.done = true;
                    } else {
                        self.exit = true;
                        self.visit_expr_mut(x);
                    }
                }
            }
            syn::Expr::Closure(_) => {}
            syn::Expr::Loop(l) => {
                self.exit = false;
                self.visit_block_mut(&mut l.body);
            }
            syn::Expr::While(w) => {
                self.exit = false;
                self.visit_expr_mut(&mut w.cond);
                self.visit_block_mut(&mut w.body);
            }
            syn::Expr::ForLoop(f) => {
                self.exit = false;
                self.visit_expr_mut(&mut f.expr);
                self.visit_block_mut(&mut f.body);
            }
            syn::Expr::Paren(p) => self.visit_expr_mut(&mut p.expr),
            other => {
                self.exit = false;
                visit_mut::visit_expr_mut(self, other);
            }
        }
        self.exit = exit;
    }
}

fn count_calls(f: &syn::File, c: &Cand) -> usize {
    let mut toks = vec![];
    sm::flat_tokens(quote::ToTokens::to_token_stream(f), &mut toks);
    let mut n = 0;
    for (i, t) in toks.iter().enumerate() {
        if *t != c.name {
            continue;
        }
        let prev = if i > 0 { toks[i - 1].as_str() } else { "" };
        if prev == "fn" {
            continue;
        }
        // every other mention counts (calls, function values): more than one means the helper is shared
        n += 1;
    }
    n
}

pub fn inline_single_call_helpers(f: &mut syn::File, reviewed: &BTreeSet<String>) {
    for _round in 0..4 {
        let mut cands: Vec<Cand> = vec![];
        for it in &f.items {
            match it {
                syn::Item::Impl(i) if i.trait_.is_none() => {
                    for ii in &i.items {
                        if let syn::ImplItem::Fn(m) = ii {
                            cands.extend(cand_of(&m.sig, &m.vis, &m.attrs, &m.block, reviewed));
                        }
                    }
                }
                syn::Item::Fn(func) => cands.extend(cand_of(&func.sig, &func.vis, &func.attrs, &func.block, reviewed)),
                _ => {}
            }
        }
        let mut any = false;
        for c in &cands {
            let n_calls = count_calls(f, c);
            if n_calls == 0 || n_calls > 4 {
                continue;
            }
            // a helper with several call sites is spliced only if every one of them can be
            let saved = if n_calls > 1 { Some(f.clone()) } else { None };
            let mut spliced = 0;
            for _ in 0..n_calls {
                let mut sp = Splicer { c, exit: false, done: false };
                sp.visit_file_mut(f);
                if !sp.done {
                    break;
                }
                spliced += 1;
            }
            if spliced != n_calls {
                if let Some(s) = saved {
                    *f = s;
                }
                if spliced == 0 || n_calls > 1 {
                    continue;
                }
            }
            {
                any = true;
                let name = c.name.clone();
                for it in f.items.iter_mut() {
                    if let syn::Item::Impl(i) = it {
                        i.items.retain(|ii| !matches!(ii, syn::ImplItem::Fn(m) if m.sig.ident == name.as_str()));
                    }
                }
                f.items.retain(|it| !matches!(it, syn::Item::Fn(func) if func.sig.ident == name.as_str()));
                // an impl block that only held the helper is gone with it
                f.items.retain(|it| !matches!(it, syn::Item::Impl(i) if i.items.is_empty() && i.trait_.is_none()));
            }
        }
        if !any {
            break;
        }
    }
}
