//! Reader for the LALRPOP subset used by parser/src/python.lalrpop (DESIGN A.1).
//! Fails closed (Err) on any form outside the subset.

use std::collections::{BTreeMap, BTreeSet};

#[derive(Debug, Clone)]
pub enum SymKind {
    Term(String),                // "..." terminal (string literal spelling)
    Name(String),                // nonterminal, macro parameter or extern terminal name
    Macro(String, Vec<Sym>),     // Name<args>
    Group(Vec<Sym>),             // ( ... )
    Lookahead,                   // @L
    Lookbehind,                  // @R
}

#[derive(Debug, Clone)]
pub struct Sym {
    pub kind: SymKind,
    pub binding: Option<String>, // <name:S>
    pub mutable: bool,
    pub selected: bool,          // <S> or <name:S>
    pub rep: String,             // "", "?", "*", "+", or combinations
    pub line: usize,
}

#[derive(Debug, Clone)]
pub struct Action {
    pub fallible: bool,
    pub code: String,
    pub line: usize,
    pub expr: Option<syn::Expr>,
}

#[derive(Debug, Clone)]
pub struct Alt {
    pub syms: Vec<Sym>,
    pub cond: Option<(String, bool, String)>, // (param, is_eq, literal)
    pub action: Option<Action>,
    pub line: usize,
    pub index: usize,
}

#[derive(Debug, Clone)]
pub struct NtDef {
    pub name: String,
    pub params: Vec<String>,
    pub ty: Option<String>,
    pub inline: bool,
    pub public: bool,
    pub alts: Vec<Alt>,
    pub line: usize,
}

#[derive(Debug, Clone)]
pub struct Grammar {
    pub defs: Vec<NtDef>,
    pub externs: Vec<(String, String)>, // (terminal as written (quoted => without quotes, marked), pattern)
    pub extern_quoted: BTreeSet<String>, // terminals written as string literals
    pub header_uses: String,
}

struct Sc<'a> {
    s: &'a [u8],
    i: usize,
    line: usize,
}

type R<T> = Result<T, String>;

impl<'a> Sc<'a> {
    fn err<T>(&self, m: &str) -> R<T> {
        Err(format!("python.lalrpop:{}: {}", self.line, m))
    }
    fn peek(&self) -> Option<u8> {
        self.s.get(self.i).copied()
    }
    fn peek_at(&self, k: usize) -> Option<u8> {
        self.s.get(self.i + k).copied()
    }
    fn bump(&mut self) -> Option<u8> {
        let c = self.peek()?;
        if c == b'\n' {
            self.line += 1;
        }
        self.i += 1;
        Some(c)
    }
    fn starts(&self, p: &str) -> bool {
        self.s[self.i..].starts_with(p.as_bytes())
    }
    fn ws(&mut self) {
        loop {
            match self.peek() {
                Some(c) if c.is_ascii_whitespace() => {
                    self.bump();
                }
                Some(b'/') if self.peek_at(1) == Some(b'/') => {
                    while let Some(c) = self.peek() {
                        if c == b'\n' {
                            break;
                        }
                        self.bump();
                    }
                }
                _ => break,
            }
        }
    }
    fn ident(&mut self) -> Option<String> {
        let st = self.i;
        match self.peek() {
            Some(c) if c.is_ascii_alphabetic() || c == b'_' => {}
            _ => return None,
        }
        while let Some(c) = self.peek() {
            if c.is_ascii_alphanumeric() || c == b'_' {
                self.bump();
            } else {
                break;
            }
        }
        Some(String::from_utf8_lossy(&self.s[st..self.i]).into_owned())
    }
    fn expect(&mut self, p: &str) -> R<()> {
        self.ws();
        if self.starts(p) {
            for _ in 0..p.len() {
                self.bump();
            }
            Ok(())
        } else {
            self.err(&format!("expected `{}`", p))
        }
    }
    fn string_lit(&mut self) -> R<String> {
        // at '"'
        self.bump();
        let mut out = Vec::new();
        loop {
            match self.bump() {
                None => return self.err("unterminated string literal"),
                Some(b'"') => break,
                Some(b'\\') => {
                    let c = self.bump().ok_or("eof")?;
                    out.push(match c {
                        b'n' => b'\n',
                        b't' => b'\t',
                        b'r' => b'\r',
                        b'\\' => b'\\',
                        b'"' => b'"',
                        other => return self.err(&format!("escape \\{}", other as char)),
                    });
                }
                Some(c) => out.push(c),
            }
        }
        Ok(String::from_utf8_lossy(&out).into_owned())
    }

    /// Skip Rust code until one of `stops` at bracket depth 0; returns code text.
    fn rust_code_until(&mut self, stops: &[u8]) -> R<String> {
        let st = self.i;
        let mut depth: i32 = 0;
        loop {
            let c = match self.peek() {
                None => return self.err("eof in action code"),
                Some(c) => c,
            };
            if depth == 0 && stops.contains(&c) && matches!(c, b'(' | b'[' | b'{') {
                break;
            }
            match c {
                b'/' if self.peek_at(1) == Some(b'/') => {
                    while let Some(c) = self.peek() {
                        if c == b'\n' {
                            break;
                        }
                        self.bump();
                    }
                }
                b'"' => {
                    self.bump();
                    loop {
                        match self.bump() {
                            None => return self.err("eof in string"),
                            Some(b'\\') => {
                                self.bump();
                            }
                            Some(b'"') => break,
                            _ => {}
                        }
                    }
                }
                b'\'' => {
                    // char literal or lifetime
                    if self.peek_at(1) == Some(b'\\') {
                        self.bump();
                        self.bump();
                        self.bump();
                        while self.peek() != Some(b'\'') {
                            if self.bump().is_none() {
                                return self.err("eof in char literal");
                            }
                        }
                        self.bump();
                    } else if self.peek_at(2) == Some(b'\'') {
                        self.bump();
                        self.bump();
                        self.bump();
                    } else {
                        // lifetime or multi-byte char literal
                        self.bump();
                        // multi-byte char: scan up to 4 bytes for closing quote
                        let mut k = 0;
                        let mut found = false;
                        while k < 5 {
                            if self.peek_at(k) == Some(b'\'') {
                                found = true;
                                break;
                            }
                            if let Some(ch) = self.peek_at(k) {
                                if ch < 0x80 && k > 0 {
                                    break;
                                }
                            }
                            k += 1;
                        }
                        if found && self.peek().map_or(false, |b| b >= 0x80) {
                            for _ in 0..=k {
                                self.bump();
                            }
                        }
                    }
                }
                b'(' | b'[' | b'{' => {
                    depth += 1;
                    self.bump();
                }
                b')' | b']' | b'}' => {
                    if depth == 0 {
                        if stops.contains(&c) {
                            break;
                        }
                        return self.err("unbalanced bracket in action code");
                    }
                    depth -= 1;
                    self.bump();
                }
                _ => {
                    if depth == 0 && stops.contains(&c) {
                        break;
                    }
                    self.bump();
                }
            }
        }
        Ok(String::from_utf8_lossy(&self.s[st..self.i]).trim().to_string())
    }
}

fn parse_sym(sc: &mut Sc, in_macro_args: bool) -> R<Sym> {
    sc.ws();
    let line = sc.line;
    let mut binding = None;
    let mut mutable = false;
    let mut selected = false;
    let kind;
    if sc.peek() == Some(b'<') {
        // binding or anonymous selection
        sc.bump();
        selected = true;
        sc.ws();
        let save = (sc.i, sc.line);
        if let Some(id) = sc.ident() {
            let mut id = id;
            if id == "mut" {
                sc.ws();
                mutable = true;
                id = sc.ident().ok_or_else(|| format!("line {}: ident after mut", sc.line))?;
            }
            sc.ws();
            if sc.peek() == Some(b':') && sc.peek_at(1) != Some(b':') {
                sc.bump();
                binding = Some(id);
            } else {
                if mutable {
                    return sc.err("`mut` without binding");
                }
                sc.i = save.0;
                sc.line = save.1;
            }
        }
        let inner = parse_sym(sc, false)?;
        sc.ws();
        if sc.peek() != Some(b'>') {
            return sc.err("expected `>` closing binding");
        }
        sc.bump();
        if inner.selected {
            return sc.err("nested selection");
        }
        kind = inner.kind;
        let rep_inner = inner.rep;
        // repetition may also follow the closing '>'? Not used in this grammar.
        return Ok(Sym { kind, binding, mutable, selected, rep: rep_inner, line });
    }
    match sc.peek() {
        Some(b'"') => {
            let s = sc.string_lit()?;
            kind = SymKind::Term(s);
        }
        Some(b'@') => {
            sc.bump();
            match sc.bump() {
                Some(b'L') => kind = SymKind::Lookahead,
                Some(b'R') => kind = SymKind::Lookbehind,
                _ => return sc.err("expected @L or @R"),
            }
        }
        Some(b'(') => {
            sc.bump();
            let mut v = Vec::new();
            loop {
                sc.ws();
                if sc.peek() == Some(b')') {
                    sc.bump();
                    break;
                }
                v.push(parse_sym(sc, false)?);
            }
            kind = SymKind::Group(v);
        }
        _ => {
            let id = match sc.ident() {
                Some(i) => i,
                None => return sc.err(&format!("unexpected character `{}` in symbol position", sc.peek().map(|c| c as char).unwrap_or('?'))),
            };
            if sc.peek() == Some(b'<') {
                // macro application: identifier IMMEDIATELY followed by '<'
                sc.bump();
                let mut args = Vec::new();
                loop {
                    sc.ws();
                    args.push(parse_sym(sc, true)?);
                    sc.ws();
                    match sc.peek() {
                        Some(b',') => {
                            sc.bump();
                        }
                        Some(b'>') => {
                            sc.bump();
                            break;
                        }
                        _ => return sc.err("expected `,` or `>` in macro arguments"),
                    }
                }
                kind = SymKind::Macro(id, args);
            } else {
                kind = SymKind::Name(id);
            }
        }
    }
    let mut rep = String::new();
    loop {
        match sc.peek() {
            Some(c @ (b'?' | b'*' | b'+')) => {
                rep.push(c as char);
                sc.bump();
            }
            _ => break,
        }
    }
    let _ = in_macro_args;
    Ok(Sym { kind, binding, mutable, selected, rep, line })
}

fn parse_alt(sc: &mut Sc, terminators: &[u8], index: usize) -> R<Alt> {
    sc.ws();
    let line = sc.line;
    let mut syms = Vec::new();
    let mut cond = None;
    let mut action = None;
    loop {
        sc.ws();
        if sc.starts("=>") {
            sc.bump();
            sc.bump();
            let fallible = if sc.peek() == Some(b'?') {
                sc.bump();
                true
            } else {
                false
            };
            sc.ws();
            let aline = sc.line;
            let code = sc.rust_code_until(terminators)?;
            let expr = parse_action_code(&code);
            if expr.is_none() {
                return Err(format!("python.lalrpop:{}: action code does not parse as a Rust expression", aline));
            }
            action = Some(Action { fallible, code, line: aline, expr });
            break;
        }
        match sc.peek() {
            Some(c) if terminators.contains(&c) => break,
            None => return sc.err("eof in alternative"),
            _ => {}
        }
        if sc.starts("if ") {
            sc.bump();
            sc.bump();
            sc.ws();
            let p = sc.ident().ok_or("cond ident")?;
            sc.ws();
            let is_eq = if sc.starts("==") {
                true
            } else if sc.starts("!=") {
                false
            } else {
                return sc.err("expected == or != in condition");
            };
            sc.bump();
            sc.bump();
            sc.ws();
            if sc.peek() != Some(b'"') {
                return sc.err("expected string literal in condition");
            }
            let lit = sc.string_lit()?;
            cond = Some((p, is_eq, lit));
            continue;
        }
        syms.push(parse_sym(sc, false)?);
    }
    Ok(Alt { syms, cond, action, line, index })
}

pub fn parse_action_code(code: &str) -> Option<syn::Expr> {
    let replaced = code.replace("<>", "__placeholder");
    let mut e = match syn::parse_str::<syn::Expr>(&replaced) {
        Ok(e) => e,
        // `=> { stmts }` forms parse as block expressions already; try wrapping
        Err(_) => syn::parse_str::<syn::Expr>(&format!("{{ {} }}", replaced)).ok()?,
    };
    // action code is read in the same normal form as the rest of the source
    if std::env::var("VERIF_NO_NORMALIZE").is_err() {
        crate::normalize::normalize_expr(&mut e);
    }
    Some(e)
}

pub fn parse_grammar(text: &str) -> R<Grammar> {
    let mut sc = Sc { s: text.as_bytes(), i: 0, line: 1 };
    // header up to `grammar;`
    let pos = text.find("\ngrammar;").ok_or("no `grammar;` line")?;
    let header_uses = text[..pos].to_string();
    while sc.i < pos + 1 {
        sc.bump();
    }
    sc.expect("grammar")?;
    sc.expect(";")?;
    let mut defs = Vec::new();
    let mut externs = Vec::new();
    let mut extern_quoted = BTreeSet::new();
    loop {
        sc.ws();
        if sc.peek().is_none() {
            break;
        }
        let mut inline = false;
        let mut public = false;
        while sc.starts("#[") {
            let st = sc.i;
            while sc.peek() != Some(b']') {
                if sc.bump().is_none() {
                    return sc.err("eof in attribute");
                }
            }
            sc.bump();
            let attr = &text[st..sc.i];
            if attr == "#[inline]" {
                inline = true;
            } else {
                return sc.err(&format!("unsupported attribute {}", attr));
            }
            sc.ws();
        }
        let line = sc.line;
        let id = sc.ident().ok_or_else(|| format!("python.lalrpop:{}: expected definition", sc.line))?;
        if id == "extern" {
            sc.expect("{")?;
            loop {
                sc.ws();
                if sc.starts("type ") {
                    sc.rust_code_until(b";")?;
                    sc.bump();
                    continue;
                }
                if sc.starts("enum ") {
                    sc.rust_code_until(b"{")?;
                    sc.bump();
                    loop {
                        sc.ws();
                        if sc.peek() == Some(b'}') {
                            sc.bump();
                            break;
                        }
                        let (name, quoted) = if sc.peek() == Some(b'"') {
                            (sc.string_lit()?, true)
                        } else {
                            (sc.ident().ok_or_else(|| format!("python.lalrpop:{}: extern terminal", sc.line))?, false)
                        };
                        sc.expect("=>")?;
                        sc.ws();
                        let pat = sc.rust_code_until(b",}")?;
                        if sc.peek() == Some(b',') {
                            sc.bump();
                        }
                        if quoted {
                            extern_quoted.insert(name.clone());
                        }
                        externs.push((name, pat));
                    }
                    continue;
                }
                if sc.peek() == Some(b'}') {
                    sc.bump();
                    break;
                }
                return sc.err("unsupported item in extern block");
            }
            continue;
        }
        let mut name = id;
        if name == "pub" {
            public = true;
            sc.ws();
            name = sc.ident().ok_or("name after pub")?;
        }
        let mut params = Vec::new();
        if sc.peek() == Some(b'<') {
            sc.bump();
            loop {
                sc.ws();
                params.push(sc.ident().ok_or("macro param")?);
                sc.ws();
                match sc.bump() {
                    Some(b',') => {}
                    Some(b'>') => break,
                    _ => return sc.err("macro params"),
                }
            }
        }
        sc.ws();
        let mut ty = None;
        if sc.peek() == Some(b':') {
            sc.bump();
            // type up to '=' at angle/paren depth 0
            let st = sc.i;
            let mut depth = 0i32;
            loop {
                match sc.peek() {
                    None => return sc.err("eof in type"),
                    Some(b'<') | Some(b'(') => {
                        depth += 1;
                        sc.bump();
                    }
                    Some(b'>') | Some(b')') => {
                        depth -= 1;
                        sc.bump();
                    }
                    Some(b'=') if depth == 0 => break,
                    _ => {
                        sc.bump();
                    }
                }
            }
            ty = Some(text[st..sc.i].trim().to_string());
        }
        sc.expect("=")?;
        sc.ws();
        let mut alts = Vec::new();
        if sc.peek() == Some(b'{') {
            sc.bump();
            loop {
                sc.ws();
                if sc.peek() == Some(b'}') {
                    sc.bump();
                    break;
                }
                let alt = parse_alt(&mut sc, b",}", alts.len())?;
                alts.push(alt);
                sc.ws();
                if sc.peek() == Some(b',') {
                    sc.bump();
                }
            }
            sc.ws();
            if sc.peek() == Some(b';') {
                sc.bump();
            }
        } else {
            let alt = parse_alt(&mut sc, b";", 0)?;
            alts.push(alt);
            sc.expect(";")?;
        }
        defs.push(NtDef { name, params, ty, inline, public, alts, line });
    }
    Ok(Grammar { defs, externs, extern_quoted, header_uses })
}

impl Grammar {
    pub fn def(&self, name: &str) -> Option<&NtDef> {
        self.defs.iter().find(|d| d.name == name)
    }
    pub fn n_alts(&self) -> usize {
        self.defs.iter().map(|d| d.alts.len()).sum()
    }
    pub fn n_actions(&self) -> usize {
        self.defs.iter().flat_map(|d| d.alts.iter()).filter(|a| a.action.is_some()).count()
    }
    pub fn n_fallible(&self) -> usize {
        self.defs
            .iter()
            .flat_map(|d| d.alts.iter())
            .filter(|a| a.action.as_ref().map_or(false, |x| x.fallible))
            .count()
    }
    pub fn is_extern_name(&self, n: &str) -> bool {
        self.externs.iter().any(|(t, _)| t == n) && !self.extern_quoted.contains(n)
    }

    /// All names referenced by a symbol (nonterminals / macro names / params), recursively.
    pub fn sym_names(sym: &Sym, out: &mut Vec<String>) {
        match &sym.kind {
            SymKind::Name(n) => out.push(n.clone()),
            SymKind::Macro(n, args) => {
                out.push(n.clone());
                for a in args {
                    Self::sym_names(a, out);
                }
            }
            SymKind::Group(v) => {
                for s in v {
                    Self::sym_names(s, out);
                }
            }
            _ => {}
        }
    }

    /// consumer graph: for each definition name, the set of names it references.
    pub fn refs(&self) -> BTreeMap<String, BTreeSet<String>> {
        let mut m = BTreeMap::new();
        for d in &self.defs {
            let mut set = BTreeSet::new();
            for a in &d.alts {
                for s in &a.syms {
                    let mut v = Vec::new();
                    Self::sym_names(s, &mut v);
                    set.extend(v);
                }
            }
            m.insert(d.name.clone(), set);
        }
        m
    }

    /// Definitions whose alternatives mention `name` (directly, as macro or macro argument).
    pub fn consumers_of(&self, name: &str) -> Vec<(String, usize)> {
        let mut out = Vec::new();
        for d in &self.defs {
            for a in &d.alts {
                let mut v = Vec::new();
                for s in &a.syms {
                    Self::sym_names(s, &mut v);
                }
                if v.iter().any(|n| n == name) {
                    out.push((d.name.clone(), a.index));
                }
            }
        }
        out
    }
}

/// Render a symbol back to compact text (for messages/keys).
pub fn sym_text(s: &Sym) -> String {
    let base = match &s.kind {
        SymKind::Term(t) => format!("{:?}", t),
        SymKind::Name(n) => n.clone(),
        SymKind::Macro(n, a) => format!("{}<{}>", n, a.iter().map(sym_text).collect::<Vec<_>>().join(", ")),
        SymKind::Group(v) => format!("({})", v.iter().map(sym_text).collect::<Vec<_>>().join(" ")),
        SymKind::Lookahead => "@L".into(),
        SymKind::Lookbehind => "@R".into(),
    };
    let base = format!("{}{}", base, s.rep);
    match (&s.binding, s.selected) {
        (Some(b), _) => format!("<{}:{}>", b, base),
        (None, true) => format!("<{}>", base),
        _ => base,
    }
}
