//! Engine S: syn-based source model helpers.

use proc_macro2::Span;
use quote::ToTokens;
use std::path::Path;
use syn::visit::Visit;

pub struct Src {
    pub rel: String,
    pub file: syn::File,
    pub text: String,
}

/// Signature of a function without its name: receiver, parameter names and types, return type (compact text).
fn signature_text(sig: &syn::Signature) -> String {
    let params: Vec<String> = sig.inputs.iter().map(|a| tsc(a)).collect();
    format!("({})->{}", params.join(","), match &sig.output {
        syn::ReturnType::Default => "()".to_string(),
        syn::ReturnType::Type(_, t) => tsc(t),
    })
}

/// Non-public functions and methods of a file: (owner, name, signature). Owner is the impl's self type or "".
pub fn private_fns(file: &syn::File) -> Vec<(String, String, String)> {
    let mut out = vec![];
    for it in &file.items {
        match it {
            syn::Item::Fn(f) if !matches!(f.vis, syn::Visibility::Public(_)) => out.push((String::new(), f.sig.ident.to_string(), signature_text(&f.sig))),
            syn::Item::Impl(i) if i.trait_.is_none() => {
                for ii in &i.items {
                    if let syn::ImplItem::Fn(f) = ii {
                        if !matches!(f.vis, syn::Visibility::Public(_)) {
                            out.push((self_ty_name(i), f.sig.ident.to_string(), signature_text(&f.sig)));
                        }
                    }
                }
            }
            _ => {}
        }
    }
    out
}

thread_local! {
    /// (rel, new name -> reference name) for every file loaded in this run; used to undo renames in MIR facts too
    pub static FN_RENAMES: std::cell::RefCell<std::collections::BTreeMap<String, std::collections::BTreeMap<String, String>>> = std::cell::RefCell::new(Default::default());
}

/// A private function that was merely renamed is given its reference name back (refdata/private_fns.json lists the
/// private functions of the reviewed tree with their signatures): a reference name that no longer exists is matched
/// with the one new private function of the same owner that has the identical signature. Rules are written against
/// the reference names, so a rename is not a finding.
fn undo_private_renames(rel: &str, file: &mut syn::File) {
    let Some(verif) = std::env::var_os("VERIF_DIR") else { return };
    let p = std::path::Path::new(&verif).join("refdata/private_fns.json");
    let Ok(txt) = std::fs::read_to_string(p) else { return };
    let Ok(v) = serde_json::from_str::<serde_json::Value>(&txt) else { return };
    let Some(refs) = v.get(rel).and_then(|x| x.as_array()) else { return };
    let reference: Vec<(String, String, String)> = refs.iter().filter_map(|r| Some((r.get(0)?.as_str()?.to_string(), r.get(1)?.as_str()?.to_string(), r.get(2)?.as_str()?.to_string()))).collect();
    let current = private_fns(file);
    let cur_names: std::collections::BTreeSet<(String, String)> = current.iter().map(|c| (c.0.clone(), c.1.clone())).collect();
    let ref_names: std::collections::BTreeSet<(String, String)> = reference.iter().map(|c| (c.0.clone(), c.1.clone())).collect();
    let mut map: std::collections::BTreeMap<String, String> = Default::default();
    for (owner, name, sig) in &reference {
        if cur_names.contains(&(owner.clone(), name.clone())) {
            continue;
        }
        // candidates: new private functions of the same owner with the same signature
        let cands: Vec<&(String, String, String)> = current.iter().filter(|c| c.0 == *owner && c.2 == *sig && !ref_names.contains(&(c.0.clone(), c.1.clone()))).collect();
        // and no other missing reference function competes for it
        let competitors = reference.iter().filter(|r| r.0 == *owner && r.2 == *sig && !cur_names.contains(&(r.0.clone(), r.1.clone()))).count();
        if cands.len() == 1 && competitors == 1 {
            map.insert(cands[0].1.clone(), name.clone());
        }
    }
    if map.is_empty() {
        return;
    }
    struct R<'a>(&'a std::collections::BTreeMap<String, String>);
    fn rename_stream(ts: proc_macro2::TokenStream, m: &std::collections::BTreeMap<String, String>) -> proc_macro2::TokenStream {
        ts.into_iter()
            .map(|tt| match tt {
                proc_macro2::TokenTree::Ident(i) => match m.get(&i.to_string()) {
                    Some(n) => proc_macro2::TokenTree::Ident(proc_macro2::Ident::new(n, i.span())),
                    None => proc_macro2::TokenTree::Ident(i),
                },
                proc_macro2::TokenTree::Group(g) => {
                    let mut ng = proc_macro2::Group::new(g.delimiter(), rename_stream(g.stream(), m));
                    ng.set_span(g.span());
                    proc_macro2::TokenTree::Group(ng)
                }
                other => other,
            })
            .collect()
    }
    impl<'a> syn::visit_mut::VisitMut for R<'a> {
        fn visit_ident_mut(&mut self, i: &mut proc_macro2::Ident) {
            if let Some(n) = self.0.get(&i.to_string()) {
                *i = proc_macro2::Ident::new(n, i.span());
            }
        }
        fn visit_macro_mut(&mut self, m: &mut syn::Macro) {
            m.tokens = rename_stream(std::mem::take(&mut m.tokens), self.0);
            syn::visit_mut::visit_macro_mut(self, m);
        }
    }
    syn::visit_mut::VisitMut::visit_file_mut(&mut R(&map), file);
    FN_RENAMES.with(|r| {
        r.borrow_mut().insert(rel.to_string(), map);
    });
}

/// Every function of a file with its parameters: (owner, name, [(parameter name, parameter type)]). Owner is "" for
/// free functions, the self type for inherent impls and `Type/Trait` for trait impls.
pub fn fn_params(file: &syn::File) -> Vec<(String, String, Vec<(String, String)>)> {
    fn params(sig: &syn::Signature) -> Vec<(String, String)> {
        sig.inputs
            .iter()
            .filter_map(|a| match a {
                syn::FnArg::Typed(pt) => match &*pt.pat {
                    syn::Pat::Ident(pi) if pi.subpat.is_none() => Some((pi.ident.to_string(), tsc(&pt.ty))),
                    other => Some((format!("<{}>", tsc(other)), tsc(&pt.ty))),
                },
                syn::FnArg::Receiver(_) => None,
            })
            .collect()
    }
    let mut out = vec![];
    for it in &file.items {
        match it {
            syn::Item::Fn(f) => out.push((String::new(), f.sig.ident.to_string(), params(&f.sig))),
            syn::Item::Impl(i) => {
                let owner = match trait_name(i) {
                    Some(t) => format!("{}/{}", self_ty_name(i), t),
                    None => self_ty_name(i),
                };
                for ii in &i.items {
                    if let syn::ImplItem::Fn(f) = ii {
                        out.push((owner.clone(), f.sig.ident.to_string(), params(&f.sig)));
                    }
                }
            }
            _ => {}
        }
    }
    out
}

/// A parameter that was merely renamed is given its reference name back (refdata/fn_params.json lists every function
/// of the reviewed tree with its parameter names and types): for a function that still exists under the same owner
/// and name with the same parameter types, each parameter whose name differs is renamed inside that function, unless
/// the reference name is already used there. Rules are written against the reference names.
fn undo_param_renames(rel: &str, file: &mut syn::File) {
    let Some(verif) = std::env::var_os("VERIF_DIR") else { return };
    let Ok(txt) = std::fs::read_to_string(std::path::Path::new(&verif).join("refdata/fn_params.json")) else { return };
    let Ok(v) = serde_json::from_str::<serde_json::Value>(&txt) else { return };
    let Some(refs) = v.get(rel).and_then(|x| x.as_array()) else { return };
    let mut reference: std::collections::BTreeMap<(String, String), Option<Vec<(String, String)>>> = Default::default();
    for r in refs {
        let (Some(o), Some(n), Some(ps)) = (r.get(0).and_then(|x| x.as_str()), r.get(1).and_then(|x| x.as_str()), r.get(2).and_then(|x| x.as_array())) else { continue };
        let ps: Vec<(String, String)> = ps.iter().filter_map(|p| Some((p.get(0)?.as_str()?.to_string(), p.get(1)?.as_str()?.to_string()))).collect();
        // the same owner/name twice (cfg alternatives): ambiguous, leave alone
        reference.entry((o.to_string(), n.to_string())).and_modify(|e| *e = None).or_insert(Some(ps));
    }
    fn rename_in(sig: &mut syn::Signature, block: &mut syn::Block, want: &[(String, String)]) {
        let cur: Vec<(String, String)> = sig
            .inputs
            .iter()
            .filter_map(|a| match a {
                syn::FnArg::Typed(pt) => match &*pt.pat {
                    syn::Pat::Ident(pi) if pi.subpat.is_none() => Some((pi.ident.to_string(), tsc(&pt.ty))),
                    other => Some((format!("<{}>", tsc(other)), tsc(&pt.ty))),
                },
                syn::FnArg::Receiver(_) => None,
            })
            .collect();
        if cur.len() != want.len() || cur.iter().zip(want).any(|(c, w)| c.1 != w.1) {
            return;
        }
        let mut body_toks = vec![];
        flat_tokens(block.to_token_stream(), &mut body_toks);
        let mut map: std::collections::BTreeMap<String, String> = Default::default();
        for (c, w) in cur.iter().zip(want) {
            if c.0 != w.0 && !c.0.starts_with('<') && !w.0.starts_with('<') && !body_toks.contains(&w.0) && !cur.iter().any(|x| x.0 == w.0) {
                map.insert(c.0.clone(), w.0.clone());
            }
        }
        if map.is_empty() {
            return;
        }
        let mut r = IdentRenamer(&map);
        for a in sig.inputs.iter_mut() {
            if let syn::FnArg::Typed(pt) = a {
                syn::visit_mut::VisitMut::visit_pat_mut(&mut r, &mut pt.pat);
            }
        }
        syn::visit_mut::VisitMut::visit_block_mut(&mut r, block);
    }
    for it in file.items.iter_mut() {
        match it {
            syn::Item::Fn(f) => {
                if let Some(Some(want)) = reference.get(&(String::new(), f.sig.ident.to_string())) {
                    rename_in(&mut f.sig, &mut f.block, want);
                }
            }
            syn::Item::Impl(i) => {
                let owner = match trait_name(i) {
                    Some(t) => format!("{}/{}", self_ty_name(i), t),
                    None => self_ty_name(i),
                };
                for ii in i.items.iter_mut() {
                    if let syn::ImplItem::Fn(f) = ii {
                        if let Some(Some(want)) = reference.get(&(owner.clone(), f.sig.ident.to_string())) {
                            rename_in(&mut f.sig, &mut f.block, want);
                        }
                    }
                }
            }
            _ => {}
        }
    }
}

/// Renames identifiers (also inside macro arguments and format strings' inline arguments are left alone).
struct IdentRenamer<'a>(&'a std::collections::BTreeMap<String, String>);
impl<'a> IdentRenamer<'a> {
    fn stream(&self, ts: proc_macro2::TokenStream) -> proc_macro2::TokenStream {
        ts.into_iter()
            .map(|tt| match tt {
                proc_macro2::TokenTree::Ident(i) => match self.0.get(&i.to_string()) {
                    Some(n) => proc_macro2::TokenTree::Ident(proc_macro2::Ident::new(n, i.span())),
                    None => proc_macro2::TokenTree::Ident(i),
                },
                proc_macro2::TokenTree::Group(g) => {
                    let mut ng = proc_macro2::Group::new(g.delimiter(), self.stream(g.stream()));
                    ng.set_span(g.span());
                    proc_macro2::TokenTree::Group(ng)
                }
                proc_macro2::TokenTree::Literal(l) => {
                    // inline format arguments: "{name}" / "{name:?}"
                    let t = l.to_string();
                    if t.starts_with('"') && t.contains('{') {
                        let mut nt = t.clone();
                        for (from, to) in self.0 {
                            let re = regex::Regex::new(&format!(r"\{{{}(\}}|:)", regex::escape(from))).unwrap();
                            nt = re.replace_all(&nt, format!("{{{}$1", to)).to_string();
                        }
                        if nt != t {
                            if let Ok(lit) = nt.parse::<proc_macro2::Literal>() {
                                return proc_macro2::TokenTree::Literal(lit);
                            }
                        }
                    }
                    proc_macro2::TokenTree::Literal(l)
                }
                other => other,
            })
            .collect()
    }
}
impl<'a> syn::visit_mut::VisitMut for IdentRenamer<'a> {
    fn visit_ident_mut(&mut self, i: &mut proc_macro2::Ident) {
        if let Some(n) = self.0.get(&i.to_string()) {
            *i = proc_macro2::Ident::new(n, i.span());
        }
    }
    fn visit_member_mut(&mut self, _m: &mut syn::Member) {
        // field names are not locals
    }
    fn visit_expr_method_call_mut(&mut self, mc: &mut syn::ExprMethodCall) {
        // the method name is not a local
        self.visit_expr_mut(&mut mc.receiver);
        for a in mc.args.iter_mut() {
            self.visit_expr_mut(a);
        }
    }
    fn visit_field_value_mut(&mut self, fv: &mut syn::FieldValue) {
        // shorthand `S { x }` with x renamed becomes `S { x: new }`
        if fv.colon_token.is_none() {
            if let syn::Member::Named(m) = &fv.member {
                if self.0.contains_key(&m.to_string()) {
                    fv.colon_token = Some(Default::default());
                }
            }
        }
        self.visit_expr_mut(&mut fv.expr);
    }
    fn visit_macro_mut(&mut self, m: &mut syn::Macro) {
        m.tokens = self.stream(std::mem::take(&mut m.tokens));
    }
}

/// Names of all `const` items of a file (file level, impl level, function level).
pub fn const_names(file: &syn::File) -> Vec<String> {
    struct C(Vec<String>);
    impl<'ast> Visit<'ast> for C {
        fn visit_item_const(&mut self, i: &'ast syn::ItemConst) {
            self.0.push(i.ident.to_string());
        }
        fn visit_impl_item_const(&mut self, i: &'ast syn::ImplItemConst) {
            self.0.push(i.ident.to_string());
        }
        fn visit_trait_item_const(&mut self, i: &'ast syn::TraitItemConst) {
            self.0.push(i.ident.to_string());
        }
    }
    let mut c = C(vec![]);
    c.visit_file(file);
    c.0
}

/// A private file-level constant that the reviewed tree does not have (refdata/consts.json) and whose value is a
/// literal is read as that literal at its uses: naming a repeated literal is not a change.
fn inline_new_literal_consts(rel: &str, file: &mut syn::File) {
    let Some(verif) = std::env::var_os("VERIF_DIR") else { return };
    let Ok(txt) = std::fs::read_to_string(std::path::Path::new(&verif).join("refdata/consts.json")) else { return };
    let Ok(v) = serde_json::from_str::<serde_json::Value>(&txt) else { return };
    let reviewed: std::collections::BTreeSet<String> = match v.get(rel).and_then(|x| x.as_array()) {
        Some(a) => a.iter().filter_map(|x| x.as_str().map(|s| s.to_string())).collect(),
        None => return,
    };
    let mut map: std::collections::BTreeMap<String, proc_macro2::TokenStream> = Default::default();
    // file-level and function-level constants alike
    struct Collect<'a> {
        reviewed: &'a std::collections::BTreeSet<String>,
        found: Vec<(String, Option<proc_macro2::TokenStream>)>,
    }
    impl<'a, 'ast> Visit<'ast> for Collect<'a> {
        fn visit_item_const(&mut self, c: &'ast syn::ItemConst) {
            let name = c.ident.to_string();
            if self.reviewed.contains(&name) || !matches!(c.vis, syn::Visibility::Inherited) || !c.attrs.is_empty() {
                self.found.push((name, None));
                return;
            }
            let lit = match &*c.expr {
                syn::Expr::Lit(_) => true,
                syn::Expr::Unary(u) => matches!(u.op, syn::UnOp::Neg(_)) && matches!(&*u.expr, syn::Expr::Lit(_)),
                _ => false,
            };
            self.found.push((name, if lit { Some(c.expr.to_token_stream()) } else { None }));
        }
    }
    let mut col = Collect { reviewed: &reviewed, found: vec![] };
    col.visit_file(file);
    for (name, val) in &col.found {
        // a name defined twice (two functions with a local constant of the same name) is left alone
        if col.found.iter().filter(|(n, _)| n == name).count() == 1 {
            if let Some(v) = val {
                map.insert(name.clone(), v.clone());
            }
        }
    }
    if map.is_empty() {
        return;
    }
    fn go(ts: proc_macro2::TokenStream, map: &std::collections::BTreeMap<String, proc_macro2::TokenStream>) -> proc_macro2::TokenStream {
        let mut out = proc_macro2::TokenStream::new();
        let mut prev_sep = false; // previous token was `.` or `::`
        let mut colons = 0;
        for tt in ts {
            match tt {
                proc_macro2::TokenTree::Ident(ref i) if !prev_sep && map.contains_key(&i.to_string()) => {
                    out.extend(map[&i.to_string()].clone());
                    colons = 0;
                }
                proc_macro2::TokenTree::Group(g) => {
                    let mut ng = proc_macro2::Group::new(g.delimiter(), go(g.stream(), map));
                    ng.set_span(g.span());
                    out.extend(std::iter::once(proc_macro2::TokenTree::Group(ng)));
                    prev_sep = false;
                    colons = 0;
                }
                other => {
                    match &other {
                        proc_macro2::TokenTree::Punct(p) if p.as_char() == '.' => {
                            prev_sep = true;
                            colons = 0;
                        }
                        proc_macro2::TokenTree::Punct(p) if p.as_char() == ':' => {
                            colons += 1;
                            prev_sep = colons >= 2;
                        }
                        _ => {
                            prev_sep = false;
                            colons = 0;
                        }
                    }
                    out.extend(std::iter::once(other));
                    continue;
                }
            }
            prev_sep = false;
        }
        out
    }
    let names: Vec<String> = map.keys().cloned().collect();
    file.items.retain(|it| !matches!(it, syn::Item::Const(c) if names.contains(&c.ident.to_string())));
    struct Drop<'a>(&'a [String]);
    impl<'a> syn::visit_mut::VisitMut for Drop<'a> {
        fn visit_block_mut(&mut self, b: &mut syn::Block) {
            b.stmts.retain(|s| !matches!(s, syn::Stmt::Item(syn::Item::Const(c)) if self.0.contains(&c.ident.to_string())));
            syn::visit_mut::visit_block_mut(self, b);
        }
    }
    syn::visit_mut::VisitMut::visit_file_mut(&mut Drop(&names), file);
    let ts = go(file.to_token_stream(), &map);
    if let Ok(nf) = syn::parse2::<syn::File>(ts) {
        *file = nf;
    }
}

/// names of the private functions of `rel` in the reviewed tree (refdata/private_fns.json); None if not listed
fn reviewed_private_fn_names(rel: &str) -> Option<std::collections::BTreeSet<String>> {
    let verif = std::env::var_os("VERIF_DIR")?;
    let txt = std::fs::read_to_string(std::path::Path::new(&verif).join("refdata/private_fns.json")).ok()?;
    let v: serde_json::Value = serde_json::from_str(&txt).ok()?;
    let arr = v.get(rel)?.as_array()?;
    Some(arr.iter().filter_map(|r| r.get(1)?.as_str().map(|s| s.to_string())).collect())
}

pub fn load(repo: &Path, rel: &str) -> Result<Src, String> {
    let p = repo.join(rel);
    let text = std::fs::read_to_string(&p).map_err(|e| format!("{}: {}", p.display(), e))?;
    let mut file = syn::parse_file(&text).map_err(|e| format!("{}: parse error: {}", rel, e))?;
    strip_tests(&mut file.items);
    strip_docs(&mut file);
    inline_new_literal_consts(rel, &mut file);
    undo_private_renames(rel, &mut file);
    undo_param_renames(rel, &mut file);
    if std::env::var("VERIF_NO_NORMALIZE").is_err() {
        let reviewed = reviewed_private_fn_names(rel);
        crate::normalize::normalize_file_with(&mut file, reviewed.as_ref());
    }
    Ok(Src { rel: rel.to_string(), file, text })
}

/// Doc comments (`#[doc = ".."]`) are documentation, not code: they are removed from the model.
fn strip_docs(file: &mut syn::File) {
    struct D;
    fn clean(a: &mut Vec<syn::Attribute>) {
        a.retain(|x| !x.path().is_ident("doc"));
    }
    impl syn::visit_mut::VisitMut for D {
        fn visit_item_fn_mut(&mut self, i: &mut syn::ItemFn) {
            clean(&mut i.attrs);
            syn::visit_mut::visit_item_fn_mut(self, i);
        }
        fn visit_impl_item_fn_mut(&mut self, i: &mut syn::ImplItemFn) {
            clean(&mut i.attrs);
            syn::visit_mut::visit_impl_item_fn_mut(self, i);
        }
        fn visit_impl_item_const_mut(&mut self, i: &mut syn::ImplItemConst) {
            clean(&mut i.attrs);
            syn::visit_mut::visit_impl_item_const_mut(self, i);
        }
        fn visit_item_impl_mut(&mut self, i: &mut syn::ItemImpl) {
            clean(&mut i.attrs);
            syn::visit_mut::visit_item_impl_mut(self, i);
        }
        fn visit_item_struct_mut(&mut self, i: &mut syn::ItemStruct) {
            clean(&mut i.attrs);
            syn::visit_mut::visit_item_struct_mut(self, i);
        }
        fn visit_item_enum_mut(&mut self, i: &mut syn::ItemEnum) {
            clean(&mut i.attrs);
            syn::visit_mut::visit_item_enum_mut(self, i);
        }
        fn visit_field_mut(&mut self, i: &mut syn::Field) {
            clean(&mut i.attrs);
            syn::visit_mut::visit_field_mut(self, i);
        }
        fn visit_variant_mut(&mut self, i: &mut syn::Variant) {
            clean(&mut i.attrs);
            syn::visit_mut::visit_variant_mut(self, i);
        }
        fn visit_item_const_mut(&mut self, i: &mut syn::ItemConst) {
            clean(&mut i.attrs);
            syn::visit_mut::visit_item_const_mut(self, i);
        }
        fn visit_item_static_mut(&mut self, i: &mut syn::ItemStatic) {
            clean(&mut i.attrs);
            syn::visit_mut::visit_item_static_mut(self, i);
        }
        fn visit_item_type_mut(&mut self, i: &mut syn::ItemType) {
            clean(&mut i.attrs);
            syn::visit_mut::visit_item_type_mut(self, i);
        }
        fn visit_item_trait_mut(&mut self, i: &mut syn::ItemTrait) {
            clean(&mut i.attrs);
            syn::visit_mut::visit_item_trait_mut(self, i);
        }
        fn visit_trait_item_fn_mut(&mut self, i: &mut syn::TraitItemFn) {
            clean(&mut i.attrs);
            syn::visit_mut::visit_trait_item_fn_mut(self, i);
        }
        fn visit_item_mod_mut(&mut self, i: &mut syn::ItemMod) {
            clean(&mut i.attrs);
            syn::visit_mut::visit_item_mod_mut(self, i);
        }
        fn visit_item_use_mut(&mut self, i: &mut syn::ItemUse) {
            clean(&mut i.attrs);
        }
        fn visit_item_macro_mut(&mut self, i: &mut syn::ItemMacro) {
            clean(&mut i.attrs);
        }
        fn visit_local_mut(&mut self, i: &mut syn::Local) {
            clean(&mut i.attrs);
            syn::visit_mut::visit_local_mut(self, i);
        }
        fn visit_arm_mut(&mut self, i: &mut syn::Arm) {
            clean(&mut i.attrs);
            syn::visit_mut::visit_arm_mut(self, i);
        }
        fn visit_field_value_mut(&mut self, i: &mut syn::FieldValue) {
            clean(&mut i.attrs);
            syn::visit_mut::visit_field_value_mut(self, i);
        }
    }
    file.attrs.retain(|x| !x.path().is_ident("doc"));
    syn::visit_mut::VisitMut::visit_file_mut(&mut D, file);
}

pub fn is_cfg_test(attrs: &[syn::Attribute]) -> bool {
    attrs.iter().any(|a| {
        a.path().is_ident("cfg") && {
            let t = ts(&a.meta);
            t.contains("test") && !t.contains("not (test)") && !t.contains("not(test)")
        }
    }) || attrs.iter().any(|a| a.path().is_ident("test"))
}

fn strip_tests(items: &mut Vec<syn::Item>) {
    items.retain(|it| match it {
        syn::Item::Mod(m) => !is_cfg_test(&m.attrs),
        syn::Item::Fn(f) => !is_cfg_test(&f.attrs),
        syn::Item::Use(u) => !is_cfg_test(&u.attrs),
        syn::Item::Impl(i) => !is_cfg_test(&i.attrs),
        _ => true,
    });
    for it in items.iter_mut() {
        if let syn::Item::Mod(m) = it {
            if let Some((_, inner)) = &mut m.content {
                strip_tests(inner);
            }
        }
    }
}

/// Normalised token string of any syntax node (whitespace/comment insensitive).
pub fn ts<T: ToTokens>(t: &T) -> String {
    t.to_token_stream().to_string()
}

fn canon_char(c: char, quote: char) -> String {
    match c {
        '\n' => "\\n".into(),
        '\r' => "\\r".into(),
        '\t' => "\\t".into(),
        '\\' => "\\\\".into(),
        c if c == quote => format!("\\{}", c),
        c if (c as u32) < 0x20 || c as u32 == 0x7f => format!("\\x{:02X}", c as u32),
        c if (c as u32) < 0x7f => c.to_string(),
        c if c.is_alphanumeric() => c.to_string(),
        c => format!("\\u{{{:x}}}", c as u32),
    }
}

/// Canonical text of a literal token: equal values get equal text (`'\x0C'` = `'\u{c}'`, `0x7f` = `127`, `"\u{22}"` = `"\""`),
/// so that rules never depend on how a literal is spelled.
pub fn canon_literal(text: &str) -> String {
    let Ok(l) = syn::parse_str::<syn::Lit>(text) else { return text.to_string() };
    match l {
        syn::Lit::Char(c) => format!("'{}'", canon_char(c.value(), '\'')),
        syn::Lit::Byte(b) => format!("b'{}'", canon_char(b.value() as char, '\'')),
        syn::Lit::Str(st) => format!("\"{}\"", st.value().chars().map(|c| canon_char(c, '"')).collect::<String>()),
        syn::Lit::Int(i) => match i.base10_parse::<u128>() {
            Ok(v) => format!("{}{}", v, i.suffix()),
            Err(_) => text.to_string(),
        },
        _ => text.to_string(),
    }
}

fn tok_text(tt: &proc_macro2::TokenTree) -> String {
    match tt {
        proc_macro2::TokenTree::Literal(l) => canon_literal(&l.to_string()),
        other => other.to_string(),
    }
}

/// Compact token string: tokens concatenated without separators; literal tokens are rendered canonically
/// (see `canon_literal`).
pub fn tsc<T: ToTokens>(t: &T) -> String {
    // a trailing comma before a closing delimiter is layout (rustfmt adds it to multi-line lists and removes it from
    // single-line ones): it is not part of the compact text
    fn go(ts: proc_macro2::TokenStream, out: &mut String, in_group: bool) {
        let mut it = ts.into_iter().peekable();
        while let Some(tt) = it.next() {
            match tt {
                proc_macro2::TokenTree::Group(g) => {
                    let (o, c) = match g.delimiter() {
                        proc_macro2::Delimiter::Parenthesis => ("(", ")"),
                        proc_macro2::Delimiter::Brace => ("{", "}"),
                        proc_macro2::Delimiter::Bracket => ("[", "]"),
                        proc_macro2::Delimiter::None => ("", ""),
                    };
                    out.push_str(o);
                    go(g.stream(), out, !o.is_empty());
                    out.push_str(c);
                }
                proc_macro2::TokenTree::Punct(ref p) if in_group && p.as_char() == ',' && it.peek().is_none() => {}
                other => out.push_str(&tok_text(&other)),
            }
        }
    }
    let mut out = String::new();
    go(t.to_token_stream(), &mut out, false);
    out
}

/// Compact text of a statement/local without its attributes.
pub fn tsc_no_attrs_local(l: &syn::Local) -> String {
    let mut c = l.clone();
    c.attrs.clear();
    tsc(&c)
}

/// An order-preserving element-wise map of a list, however it is spelled:
///   `LIST.into_iter().map(|v| BODY).collect()`  (optionally `::<Result<Vec<_>, _>>()?`),
///   `{ let mut out = Vec::with_capacity(..); for v in LIST { out.push(BODY); } out }` (compact text of a statement run),
/// or a call `helper(LIST, args..)` of a private free function of `file` whose body is one of these over its first
/// parameter (parameters are replaced by the call's arguments).
/// Returns (list text, BODY text with the element variable renamed to `_elem`).
pub fn elementwise(text: &str, file: Option<&syn::File>) -> Option<(String, String)> {
    use regex::Regex;
    thread_local! {
        static CHAIN: Regex = Regex::new(r"^(?P<list>[\w.]+)\.into_iter\(\)\.map\(\|(?P<v>\w+)\|(?P<body>.+)\)\.collect(?:::<.+>)?\(\)\??;?$").unwrap();
        static LOOP: Regex = Regex::new(r"^\{?letmut(?P<out>\w+)(?::[^=]+)?=(?:Vec::with_capacity\([^;]*\)|Vec::new\(\)|vec!\[\]);for(?P<v>\w+)in(?P<list>[\w.]+)\{(?P<out2>\w+)\.push\((?P<body>.+)\);?\}(?P<tail>\w*)\}?;?$").unwrap();
        static CALL: Regex = Regex::new(r"^(?P<f>\w+)\((?P<args>.*)\)\??;?$").unwrap();
    }
    let rename = |body: &str, v: &str| -> String {
        let re = Regex::new(&format!(r"\b{}\b", regex::escape(v))).unwrap();
        re.replace_all(body, "_elem").to_string()
    };
    if let Some(c) = CHAIN.with(|r| r.captures(text).map(|c| (c["list"].to_string(), c["v"].to_string(), c["body"].to_string()))) {
        return Some((c.0, rename(&c.2, &c.1)));
    }
    if let Some(c) = LOOP.with(|r| r.captures(text).map(|c| (c["list"].to_string(), c["v"].to_string(), c["body"].to_string(), c["out"].to_string(), c["out2"].to_string(), c["tail"].to_string()))) {
        if c.3 == c.4 && (c.5.is_empty() || c.5 == c.3) {
            let body = c.2.trim_end_matches('?').to_string();
            return Some((c.0, rename(&body, &c.1)));
        }
    }
    if let (Some(file), Some((f, args))) = (file, CALL.with(|r| r.captures(text).map(|c| (c["f"].to_string(), c["args"].to_string())))) {
        for it in &file.items {
            if let syn::Item::Fn(func) = it {
                if func.sig.ident == f && matches!(func.vis, syn::Visibility::Inherited) {
                    let params: Vec<String> = func.sig.inputs.iter().filter_map(|a| if let syn::FnArg::Typed(pt) = a { Some(tsc(&pt.pat).trim_start_matches("mut").to_string()) } else { None }).collect();
                    let args: Vec<&str> = args.split(',').collect();
                    if params.len() != args.len() || params.is_empty() {
                        return None;
                    }
                    let inner = tsc(&func.block);
                    let inner = inner.strip_prefix('{').and_then(|x| x.strip_suffix('}')).unwrap_or(&inner).to_string();
                    let (list, body) = elementwise(&inner, None)?;
                    if list != params[0] {
                        return None;
                    }
                    let mut body = body;
                    for (p, a) in params.iter().zip(args.iter()).skip(1) {
                        let re = Regex::new(&format!(r"\b{}\b", regex::escape(p))).unwrap();
                        body = re.replace_all(&body, *a).to_string();
                    }
                    return Some((args[0].to_string(), body));
                }
            }
        }
    }
    None
}

/// Every statement of `b` and of all nested blocks.
pub fn for_each_stmt_in_block<'a>(b: &'a syn::Block, f: &mut dyn FnMut(&'a syn::Stmt)) {
    struct V<'a, 'f> {
        f: &'f mut dyn FnMut(&'a syn::Stmt),
    }
    impl<'a, 'f> syn::visit::Visit<'a> for V<'a, 'f> {
        fn visit_stmt(&mut self, s: &'a syn::Stmt) {
            (self.f)(s);
            syn::visit::visit_stmt(self, s);
        }
    }
    use syn::visit::Visit;
    V { f }.visit_block(b);
}

/// `if let P = S { A } else { B }` or its normal form `match S { P => A, _ => B }` (arm bodies may be bare
/// expressions; they are presented as blocks).
pub struct IfLet<'a> {
    pub pat: &'a syn::Pat,
    pub scrut: &'a syn::Expr,
    pub then_block: std::borrow::Cow<'a, syn::Block>,
    /// None when there is no else branch (or it is empty)
    pub else_block: Option<std::borrow::Cow<'a, syn::Block>>,
}

fn as_block(e: &syn::Expr) -> std::borrow::Cow<'_, syn::Block> {
    match e {
        syn::Expr::Block(b) if b.label.is_none() => std::borrow::Cow::Borrowed(&b.block),
        other => std::borrow::Cow::Owned(syn::Block { brace_token: Default::default(), stmts: vec![syn::Stmt::Expr(other.clone(), None)] }),
    }
}

fn is_empty_body(e: &syn::Expr) -> bool {
    match e {
        syn::Expr::Block(b) => b.block.stmts.is_empty(),
        syn::Expr::Tuple(t) => t.elems.is_empty(),
        _ => false,
    }
}

pub fn if_let_form(e: &syn::Expr) -> Option<IfLet<'_>> {
    match e {
        syn::Expr::If(i) => {
            let syn::Expr::Let(l) = &*i.cond else { return None };
            let else_block = match &i.else_branch {
                Some((_, el)) if is_empty_body(el) => None,
                Some((_, el)) => Some(as_block(el)),
                None => None,
            };
            Some(IfLet { pat: &l.pat, scrut: &l.expr, then_block: std::borrow::Cow::Borrowed(&i.then_branch), else_block })
        }
        syn::Expr::Match(m) => {
            if m.arms.len() != 2 || !matches!(m.arms[1].pat, syn::Pat::Wild(_)) || m.arms[0].guard.is_some() || matches!(m.arms[0].pat, syn::Pat::Wild(_)) {
                return None;
            }
            let else_block = if is_empty_body(&m.arms[1].body) { None } else { Some(as_block(&m.arms[1].body)) };
            Some(IfLet { pat: &m.arms[0].pat, scrut: &m.expr, then_block: as_block(&m.arms[0].body), else_block })
        }
        _ => None,
    }
}

/// `while let P = S { body }` or its normal form `loop { match S { P => body, _ => break } }`:
/// (scrutinee text, pattern text, body statements).
pub fn loop_form(e: &syn::Expr) -> Option<(String, String, Vec<syn::Stmt>)> {
    match e {
        syn::Expr::While(w) => {
            if let syn::Expr::Let(l) = &*w.cond {
                Some((tsc(&l.expr), tsc(&l.pat), w.body.stmts.clone()))
            } else {
                None
            }
        }
        syn::Expr::Loop(l) => {
            if l.body.stmts.len() != 1 {
                return None;
            }
            let syn::Stmt::Expr(syn::Expr::Match(m), _) = &l.body.stmts[0] else { return None };
            if m.arms.len() != 2 || !matches!(m.arms[1].pat, syn::Pat::Wild(_)) || tsc(unblock(&m.arms[1].body)) != "break" {
                return None;
            }
            Some((tsc(&m.expr), tsc(&m.arms[0].pat), as_block(&m.arms[0].body).stmts.clone()))
        }
        _ => None,
    }
}

/// One way out of a function body: the decisions taken (normal-form texts: `SCRUT~PAT` for a match arm, `COND` /
/// `!COND` for an if, `for PAT in EXPR` / `loop` for being inside a loop body) and the value returned — the text of
/// `Err(..)` / `Ok(..)` / another expression — no matter whether it leaves through `return`, `Err(..)?` or as the
/// tail expression.
#[derive(Debug, Clone)]
pub struct Exit {
    pub conds: Vec<String>,
    pub result: String,
}

pub fn exits(block: &syn::Block) -> Vec<Exit> {
    fn stmts(ss: &[syn::Stmt], conds: &Vec<String>, tail_is_result: bool, out: &mut Vec<Exit>) {
        for (i, s) in ss.iter().enumerate() {
            let last = i + 1 == ss.len();
            match s {
                syn::Stmt::Expr(e, semi) => expr(e, conds, last && semi.is_none() && tail_is_result, out),
                syn::Stmt::Local(l) => {
                    if let Some(init) = &l.init {
                        expr(&init.expr, conds, false, out);
                        if let Some((_, d)) = &init.diverge {
                            let mut c = conds.clone();
                            c.push(format!("!let {}={}", tsc(&l.pat), tsc(&init.expr)));
                            expr(d, &c, false, out);
                        }
                    }
                }
                _ => {}
            }
        }
    }
    fn expr(e: &syn::Expr, conds: &Vec<String>, is_result: bool, out: &mut Vec<Exit>) {
        match e {
            syn::Expr::Return(r) => out.push(Exit { conds: conds.clone(), result: r.expr.as_ref().map(|x| tsc(x)).unwrap_or_default() }),
            syn::Expr::Try(t) => {
                // Err(..)? leaves with that error; other `?` propagate the callee's error
                let inner = tsc(&t.expr);
                if inner.starts_with("Err(") {
                    out.push(Exit { conds: conds.clone(), result: inner });
                } else {
                    expr(&t.expr, conds, false, out);
                }
            }
            syn::Expr::If(i) => {
                let c = tsc(&i.cond);
                let mut c1 = conds.clone();
                c1.push(c.clone());
                stmts(&i.then_branch.stmts, &c1, is_result, out);
                let mut c2 = conds.clone();
                c2.push(format!("!{}", c));
                match &i.else_branch {
                    Some((_, el)) => expr(el, &c2, is_result, out),
                    None => {}
                }
            }
            syn::Expr::Match(m) => {
                let sc = tsc(&m.expr);
                expr(&m.expr, conds, false, out);
                // guards of earlier catch-all arms (`x if G =>`) are false in a later catch-all arm
                let mut neg: Vec<String> = vec![];
                for a in &m.arms {
                    let catch_all = matches!(&a.pat, syn::Pat::Wild(_)) || matches!(&a.pat, syn::Pat::Ident(i) if i.subpat.is_none() && i.ident.to_string().chars().next().map_or(false, |c| c.is_lowercase()));
                    let mut c = conds.clone();
                    c.push(format!("{}~{}", sc, tsc(&a.pat)));
                    if catch_all {
                        for n in &neg {
                            c.push(format!("!{}", n));
                        }
                    }
                    if let Some((_, g)) = &a.guard {
                        c.push(tsc(g));
                        if catch_all {
                            neg.push(tsc(g));
                        }
                    }
                    expr(&a.body, &c, is_result, out);
                }
            }
            syn::Expr::Block(b) => stmts(&b.block.stmts, conds, is_result, out),
            syn::Expr::ForLoop(f) => {
                let mut c = conds.clone();
                c.push(format!("for {} in {}", tsc(&f.pat), tsc(&f.expr)));
                stmts(&f.body.stmts, &c, false, out);
            }
            syn::Expr::While(w) => {
                let mut c = conds.clone();
                c.push(format!("while {}", tsc(&w.cond)));
                stmts(&w.body.stmts, &c, false, out);
            }
            syn::Expr::Loop(l) => {
                let mut c = conds.clone();
                c.push("loop".to_string());
                stmts(&l.body.stmts, &c, false, out);
            }
            syn::Expr::Paren(p) => expr(&p.expr, conds, is_result, out),
            other => {
                if is_result {
                    out.push(Exit { conds: conds.clone(), result: tsc(other) });
                } else {
                    // nested closures / calls are not exits of this function
                }
            }
        }
    }
    let mut out = vec![];
    stmts(&block.stmts, &vec![], true, &mut out);
    out
}

pub fn line(span: Span) -> usize {
    span.start().line
}

pub fn loc(src: &Src, span: Span) -> String {
    format!("{}:{}", src.rel, line(span))
}

impl Src {
    pub fn loc<T: syn::spanned::Spanned>(&self, t: &T) -> String {
        format!("{}:{}", self.rel, t.span().start().line)
    }

    /// Free functions named `name` anywhere in the file (non-test).
    pub fn free_fns(&self, name: &str) -> Vec<&syn::ItemFn> {
        fn walk<'a>(items: &'a [syn::Item], name: &str, out: &mut Vec<&'a syn::ItemFn>) {
            for it in items {
                match it {
                    syn::Item::Fn(f) if f.sig.ident == name => out.push(f),
                    syn::Item::Mod(m) => {
                        if let Some((_, inner)) = &m.content {
                            walk(inner, name, out)
                        }
                    }
                    _ => {}
                }
            }
        }
        let mut out = vec![];
        walk(&self.file.items, name, &mut out);
        out
    }

    pub fn all_free_fns(&self) -> Vec<&syn::ItemFn> {
        fn walk<'a>(items: &'a [syn::Item], out: &mut Vec<&'a syn::ItemFn>) {
            for it in items {
                match it {
                    syn::Item::Fn(f) => out.push(f),
                    syn::Item::Mod(m) => {
                        if let Some((_, inner)) = &m.content {
                            walk(inner, out)
                        }
                    }
                    _ => {}
                }
            }
        }
        let mut out = vec![];
        walk(&self.file.items, &mut out);
        out
    }

    /// All impl blocks (including nested modules).
    pub fn impls(&self) -> Vec<&syn::ItemImpl> {
        fn walk<'a>(items: &'a [syn::Item], out: &mut Vec<&'a syn::ItemImpl>) {
            for it in items {
                match it {
                    syn::Item::Impl(i) => out.push(i),
                    syn::Item::Mod(m) => {
                        if let Some((_, inner)) = &m.content {
                            walk(inner, out)
                        }
                    }
                    _ => {}
                }
            }
        }
        let mut out = vec![];
        walk(&self.file.items, &mut out);
        out
    }

    /// Methods named `name` in impl blocks whose self type's last path segment is `ty`
    /// (trait impls included; `trait_name` filters when given).
    pub fn methods(&self, ty: &str, name: &str) -> Vec<(&syn::ItemImpl, &syn::ImplItemFn)> {
        let mut out = vec![];
        for i in self.impls() {
            if self_ty_name(i) != ty {
                continue;
            }
            for it in &i.items {
                if let syn::ImplItem::Fn(f) = it {
                    if f.sig.ident == name {
                        out.push((i, f));
                    }
                }
            }
        }
        out
    }

    pub fn method(&self, ty: &str, name: &str) -> Option<&syn::ImplItemFn> {
        let v = self.methods(ty, name);
        if v.len() == 1 {
            Some(v[0].1)
        } else {
            None
        }
    }

    pub fn structs(&self) -> Vec<&syn::ItemStruct> {
        self.file.items.iter().filter_map(|i| if let syn::Item::Struct(s) = i { Some(s) } else { None }).collect()
    }
    pub fn enums(&self) -> Vec<&syn::ItemEnum> {
        self.file.items.iter().filter_map(|i| if let syn::Item::Enum(s) = i { Some(s) } else { None }).collect()
    }
    pub fn enum_named(&self, n: &str) -> Option<&syn::ItemEnum> {
        self.enums().into_iter().find(|e| e.ident == n)
    }
    pub fn struct_named(&self, n: &str) -> Option<&syn::ItemStruct> {
        self.structs().into_iter().find(|e| e.ident == n)
    }
}

pub fn self_ty_name(i: &syn::ItemImpl) -> String {
    type_last_ident(&i.self_ty)
}

pub fn type_last_ident(t: &syn::Type) -> String {
    match t {
        syn::Type::Path(p) => p.path.segments.last().map(|s| s.ident.to_string()).unwrap_or_default(),
        syn::Type::Reference(r) => type_last_ident(&r.elem),
        _ => String::new(),
    }
}

pub fn trait_name(i: &syn::ItemImpl) -> Option<String> {
    i.trait_.as_ref().and_then(|(_, p, _)| p.segments.last().map(|s| s.ident.to_string()))
}

/// cfg classification of an attribute list: returns list of (feature, positive) atoms found in cfg attributes.
pub fn cfg_features(attrs: &[syn::Attribute]) -> Vec<(String, bool)> {
    let mut out = vec![];
    for a in attrs {
        if a.path().is_ident("cfg") || a.path().is_ident("cfg_attr") {
            let t = tsc(&a.meta);
            collect_features(&t, &mut out);
        }
    }
    out
}

/// From compact text like `cfg(not(feature="full-lexer"))` collect (feature, positive).
pub fn collect_features(t: &str, out: &mut Vec<(String, bool)>) {
    let mut rest = t;
    while let Some(p) = rest.find("feature=\"") {
        let before = &rest[..p];
        let after = &rest[p + 9..];
        let end = after.find('"').unwrap_or(after.len());
        let name = &after[..end];
        // negated if the nearest enclosing open paren group is `not(`
        let neg = before.trim_end_matches('(').ends_with("not") || before.ends_with("not(");
        out.push((name.to_string(), !neg));
        rest = &after[end..];
    }
}

/// Visit all expressions in a block / function.
pub struct ExprCollector<'a, F: FnMut(&'a syn::Expr)> {
    pub f: F,
    pub _p: std::marker::PhantomData<&'a ()>,
}
impl<'a, F: FnMut(&'a syn::Expr)> Visit<'a> for ExprCollector<'a, F> {
    fn visit_expr(&mut self, e: &'a syn::Expr) {
        (self.f)(e);
        syn::visit::visit_expr(self, e);
    }
}
pub fn for_each_expr_in_block<'a>(b: &'a syn::Block, f: impl FnMut(&'a syn::Expr)) {
    let mut c = ExprCollector { f, _p: std::marker::PhantomData };
    c.visit_block(b);
}
pub fn for_each_expr<'a>(e: &'a syn::Expr, f: impl FnMut(&'a syn::Expr)) {
    let mut c = ExprCollector { f, _p: std::marker::PhantomData };
    c.visit_expr(e);
}

/// Strip parens, references, `Box::new(..)`, `.into()`, `?`, `Some(..)`, `*x`, `.clone()` from an expression.
pub fn peel(e: &syn::Expr) -> &syn::Expr {
    match e {
        syn::Expr::Paren(p) => peel(&p.expr),
        syn::Expr::Group(p) => peel(&p.expr),
        syn::Expr::Reference(r) => peel(&r.expr),
        syn::Expr::Try(t) => peel(&t.expr),
        syn::Expr::Unary(u) if matches!(u.op, syn::UnOp::Deref(_)) => peel(&u.expr),
        syn::Expr::MethodCall(m) if (m.method == "into" || m.method == "clone") && m.args.is_empty() => peel(&m.receiver),
        syn::Expr::Call(c) if c.args.len() == 1 => {
            let f = tsc(&c.func);
            if f == "Box::new" || f == "Some" {
                peel(&c.args[0])
            } else {
                e
            }
        }
        _ => e,
    }
}

/// If the expression is a path with a single identifier, return it.
pub fn as_ident(e: &syn::Expr) -> Option<String> {
    if let syn::Expr::Path(p) = e {
        if p.path.segments.len() == 1 && p.qself.is_none() {
            return Some(p.path.segments[0].ident.to_string());
        }
    }
    None
}

/// Last identifier of a path expression.
pub fn path_last(e: &syn::Expr) -> Option<String> {
    if let syn::Expr::Path(p) = e {
        return p.path.segments.last().map(|s| s.ident.to_string());
    }
    None
}

/// All single-identifier paths mentioned in an expression.
pub fn idents_in(e: &syn::Expr) -> Vec<String> {
    let mut v = vec![];
    for_each_expr(e, |x| {
        if let Some(i) = as_ident(x) {
            v.push(i);
        }
    });
    // also macro token streams (vec![e], format!(..)) — scan tokens for identifiers
    for_each_expr(e, |x| {
        if let syn::Expr::Macro(m) = x {
            for tt in m.mac.tokens.clone() {
                collect_tt_idents(tt, &mut v);
            }
        }
    });
    v
}

fn collect_tt_idents(tt: proc_macro2::TokenTree, out: &mut Vec<String>) {
    match tt {
        proc_macro2::TokenTree::Ident(i) => out.push(i.to_string()),
        proc_macro2::TokenTree::Group(g) => {
            for t in g.stream() {
                collect_tt_idents(t, out)
            }
        }
        _ => {}
    }
}

pub fn pat_idents(p: &syn::Pat, out: &mut Vec<String>) {
    match p {
        syn::Pat::Ident(i) => {
            out.push(i.ident.to_string());
            if let Some((_, sub)) = &i.subpat {
                pat_idents(sub, out)
            }
        }
        syn::Pat::Tuple(t) => t.elems.iter().for_each(|e| pat_idents(e, out)),
        syn::Pat::TupleStruct(t) => t.elems.iter().for_each(|e| pat_idents(e, out)),
        syn::Pat::Struct(s) => s.fields.iter().for_each(|f| pat_idents(&f.pat, out)),
        syn::Pat::Reference(r) => pat_idents(&r.pat, out),
        syn::Pat::Type(t) => pat_idents(&t.pat, out),
        syn::Pat::Or(o) => o.cases.iter().for_each(|e| pat_idents(e, out)),
        syn::Pat::Paren(p) => pat_idents(&p.pat, out),
        syn::Pat::Slice(s) => s.elems.iter().for_each(|e| pat_idents(e, out)),
        _ => {}
    }
}

/// `Ok(x)` -> x
pub fn peel_ok(e: &syn::Expr) -> Option<&syn::Expr> {
    if let syn::Expr::Call(c) = e {
        if tsc(&c.func) == "Ok" && c.args.len() == 1 {
            return Some(&c.args[0]);
        }
    }
    None
}

/// Decompose `root.m1(a).m2(b)?` into (root, [(m1,[a]),(m2,[b])]); `?` and parens are skipped.
pub fn method_chain(e: &syn::Expr) -> (&syn::Expr, Vec<(String, Vec<&syn::Expr>)>) {
    let mut chain = vec![];
    let mut cur = e;
    loop {
        match cur {
            syn::Expr::MethodCall(mc) => {
                chain.push((mc.method.to_string(), mc.args.iter().collect::<Vec<_>>()));
                cur = &mc.receiver;
            }
            syn::Expr::Try(t) => cur = &t.expr,
            syn::Expr::Paren(p) => cur = &p.expr,
            syn::Expr::Group(p) => cur = &p.expr,
            _ => break,
        }
    }
    chain.reverse();
    (cur, chain)
}

/// For a closure `|p| body` with one simple parameter, return (param, body).
pub fn closure1(e: &syn::Expr) -> Option<(String, &syn::Expr)> {
    if let syn::Expr::Closure(c) = e {
        if c.inputs.len() == 1 {
            let mut ids = vec![];
            pat_idents(&c.inputs[0], &mut ids);
            if ids.len() == 1 {
                return Some((ids[0].clone(), &c.body));
            }
        }
    }
    None
}

/// `{ e }` -> e (a block holding a single tail expression, as rustfmt produces for long arms)
pub fn unblock(e: &syn::Expr) -> &syn::Expr {
    if let syn::Expr::Block(b) = e {
        if b.block.stmts.len() == 1 && b.label.is_none() {
            if let syn::Stmt::Expr(inner, None) = &b.block.stmts[0] {
                return unblock(inner);
            }
        }
    }
    e
}

// ---------------------------------------------------------------------------------------------
// Rename-tolerant fragment matching.
//
// Shape rules compare pieces of the subject with expected fragments. To keep such a rule from firing on
// a behaviour-preserving rename of a local variable, fragments written as SPACE-SEPARATED TOKENS are
// matched modulo a consistent, injective renaming of local-looking identifiers. (Fragments without
// spaces are compared on the compact text, exactly.)

#[derive(Clone, Debug)]
pub struct Compact {
    pub text: String,
    pub toks: Vec<String>,
    /// char offset in `text` at which each token starts
    pub offs: Vec<usize>,
}

pub fn flat_tokens(ts: proc_macro2::TokenStream, out: &mut Vec<String>) {
    for tt in ts {
        match tt {
            proc_macro2::TokenTree::Group(g) => {
                let (o, c) = match g.delimiter() {
                    proc_macro2::Delimiter::Parenthesis => ("(", ")"),
                    proc_macro2::Delimiter::Brace => ("{", "}"),
                    proc_macro2::Delimiter::Bracket => ("[", "]"),
                    proc_macro2::Delimiter::None => ("", ""),
                };
                if !o.is_empty() {
                    out.push(o.to_string());
                }
                flat_tokens(g.stream(), out);
                if !c.is_empty() {
                    out.push(c.to_string());
                }
            }
            other => out.push(tok_text(&other)),
        }
    }
}

pub fn tsx<T: ToTokens>(t: &T) -> Compact {
    let mut all = vec![];
    flat_tokens(t.to_token_stream(), &mut all);
    // trailing commas before a closing delimiter are layout (see `tsc`)
    let mut toks: Vec<String> = Vec::with_capacity(all.len());
    for (i, k) in all.iter().enumerate() {
        if k == "," && all.get(i + 1).map_or(false, |n| n == ")" || n == "]" || n == "}") {
            continue;
        }
        toks.push(k.clone());
    }
    let mut text = String::new();
    let mut offs = vec![];
    for k in &toks {
        offs.push(text.len());
        text.push_str(k);
    }
    Compact { text, toks, offs }
}

const KEEP_IDENTS: &[&str] = &[
    "self", "Self", "crate", "super", "let", "mut", "if", "else", "match", "while", "loop", "for", "in", "return", "break", "continue", "fn", "as", "ref", "move", "true", "false", "where", "impl", "pub", "use", "mod", "struct", "enum", "const", "static", "unsafe", "dyn", "type", "trait",
];

fn renamable(toks: &[String], i: usize) -> bool {
    let t = &toks[i];
    let first = t.chars().next().unwrap_or(' ');
    if !(first.is_ascii_lowercase() || first == '_') || !t.chars().all(|c| c.is_alphanumeric() || c == '_') || KEEP_IDENTS.contains(&t.as_str()) || t == "_" {
        return false;
    }
    let prev = if i > 0 { toks[i - 1].as_str() } else { "" };
    let next = toks.get(i + 1).map(|s| s.as_str()).unwrap_or("");
    // fields / methods / path segments / macro names / calls / labelled fields keep their names
    if prev == "." || (prev == ":" && i > 1 && toks[i - 2] == ":") || next == "!" || next == "(" || next == ":" {
        return false;
    }
    true
}

fn match_at(hay: &[String], at: usize, needle: &[String]) -> bool {
    if at + needle.len() > hay.len() {
        return false;
    }
    let mut fwd: std::collections::BTreeMap<&str, &str> = std::collections::BTreeMap::new();
    let mut bwd: std::collections::BTreeMap<&str, &str> = std::collections::BTreeMap::new();
    for j in 0..needle.len() {
        let (n, h) = (needle[j].as_str(), hay[at + j].as_str());
        let rn = renamable(needle, j);
        let rh = renamable(&hay[at..at + needle.len()], j);
        if rn && rh {
            match (fwd.get(n), bwd.get(h)) {
                (Some(x), _) if *x != h => return false,
                (_, Some(y)) if *y != n => return false,
                _ => {
                    fwd.insert(n, h);
                    bwd.insert(h, n);
                }
            }
        } else if n != h {
            return false;
        }
    }
    true
}

/// Is the identifier token at `j` at a binding position (`let x`, `let mut x`, `for x in`, `|x|`, `ref x`,
/// `Some(x) =>`, tuple patterns after `let` / `for` / `|`)?
fn binding_position(toks: &[String], j: usize) -> bool {
    if j == 0 {
        return false;
    }
    let prev = toks[j - 1].as_str();
    if matches!(prev, "let" | "mut" | "for" | "|" | "ref") {
        return true;
    }
    if prev == "&" && j >= 2 && matches!(toks[j - 2].as_str(), "|" | "(" | ",") {
        // |&x| / (&x, ..) in a pattern: judged by what precedes the `&`
        return binding_position_after(toks, j - 1);
    }
    if prev == "(" || prev == "," {
        return binding_position_after(toks, j);
    }
    false
}

fn binding_position_after(toks: &[String], j: usize) -> bool {
    // walk back to the opening parenthesis of the enclosing tuple / constructor pattern
    let mut depth = 0i32;
    let mut k = j;
    while k > 0 {
        k -= 1;
        match toks[k].as_str() {
            ")" | "]" | "}" => depth += 1,
            "(" | "[" | "{" => {
                if depth == 0 {
                    let before = if k > 0 { toks[k - 1].as_str() } else { "" };
                    if matches!(before, "let" | "mut" | "for" | "|" | "Some" | "Ok" | "Err") {
                        // a constructor pattern binds only when it is a pattern: followed (after its `)`) by `=>`, `=` or `in` / `|`
                        return true;
                    }
                    if before == "(" || before == "," {
                        return binding_position_after(toks, k);
                    }
                    return false;
                }
                depth -= 1;
            }
            ";" => return false,
            _ => {}
        }
    }
    false
}

fn ident_like(s: &str) -> bool {
    let f = s.chars().next().unwrap_or(' ');
    (f.is_ascii_lowercase() || f == '_') && s.chars().all(|c| c.is_alphanumeric() || c == '_') && !KEEP_IDENTS.contains(&s) && s != "_"
}

/// Alpha-equivalent match of a compact (unspaced) fragment against the token stream starting at token `at`:
/// identifiers that are BOUND inside the matched window (their first occurrence there is a binding position) may be
/// renamed consistently and bijectively; every other token must match literally. Returns the number of tokens matched.
fn alpha_match_at(hay: &[String], at: usize, frag: &str) -> Option<usize> {
    fn go<'a>(hay: &'a [String], at: usize, j: usize, frag: &str, p: usize, fwd: &mut Vec<(String, String)>) -> Option<usize> {
        if p == frag.len() {
            return Some(j - at);
        }
        let tok = hay.get(j)?;
        let rest = &frag[p..];
        // a local may be renamed only if its binder (`let`, `for`, `|`, a pattern constructor) lies inside the matched
        // window, i.e. was itself matched literally against the fragment
        let renamable_here = renamable(hay, j) && (fwd.iter().any(|(_, h)| h == tok) || (j > at && binding_position(hay, j)));
        if renamable_here {
            // the name this local has in the fragment: already fixed, or any identifier prefix of the rest
            if let Some((n, _)) = fwd.iter().find(|(_, h)| h == tok).cloned() {
                if rest.starts_with(n.as_str()) {
                    // the fragment identifier must end here (next char is not an identifier char, or the next token is a word)
                    return go(hay, at, j + 1, frag, p + n.len(), fwd);
                }
                return None;
            }
            let run: usize = rest.chars().take_while(|c| c.is_alphanumeric() || *c == '_').map(|c| c.len_utf8()).sum();
            for len in (1..=run).rev() {
                if !rest.is_char_boundary(len) {
                    continue;
                }
                let name = &rest[..len];
                if !ident_like(name) || fwd.iter().any(|(n, _)| n == name) {
                    continue;
                }
                fwd.push((name.to_string(), tok.clone()));
                if let Some(r) = go(hay, at, j + 1, frag, p + len, fwd) {
                    return Some(r);
                }
                fwd.pop();
            }
            return None;
        }
        // a free identifier that the fragment renamed is not allowed: literal match only
        if fwd.iter().any(|(n, h)| rest.starts_with(n.as_str()) && h != tok && ident_like(tok) && tok == n) {
            return None;
        }
        if rest.starts_with(tok.as_str()) {
            go(hay, at, j + 1, frag, p + tok.len(), fwd)
        } else {
            None
        }
    }
    let mut fwd = vec![];
    go(hay, at, at, frag, 0, &mut fwd)
}

/// Lex a fragment (prefix `§`, tokens separated by blanks where needed) into the token alphabet of
/// `flat_tokens`: identifiers/numbers, string and char literals (kept whole), single punctuation characters.
fn frag_tokens(frag: &str) -> Vec<String> {
    let s: Vec<char> = frag.trim_start_matches('§').chars().collect();
    let mut out = vec![];
    let mut i = 0;
    while i < s.len() {
        let c = s[i];
        if c.is_whitespace() {
            i += 1;
        } else if c.is_alphanumeric() || c == '_' {
            let st = i;
            while i < s.len() && (s[i].is_alphanumeric() || s[i] == '_') {
                i += 1;
            }
            // byte / byte-string / raw prefixes directly followed by a quote belong to the literal
            if i < s.len() && (s[i] == '"' || s[i] == '\'') && ["b", "r", "br"].contains(&s[st..i].iter().collect::<String>().as_str()) {
                let q = s[i];
                i += 1;
                while i < s.len() && s[i] != q {
                    if s[i] == '\\' {
                        i += 1;
                    }
                    i += 1;
                }
                i += 1;
            }
            out.push(s[st..i.min(s.len())].iter().collect());
        } else if c == '"' {
            let st = i;
            i += 1;
            while i < s.len() && s[i] != '"' {
                if s[i] == '\\' {
                    i += 1;
                }
                i += 1;
            }
            i += 1;
            out.push(s[st..i.min(s.len())].iter().collect());
        } else if c == '\'' {
            // char literal 'x' / '\n' / '\u{..}'; otherwise a lone quote (lifetime)
            let st = i;
            let mut j = i + 1;
            if j < s.len() && s[j] == '\\' {
                j += 2;
                while j < s.len() && s[j] != '\'' {
                    j += 1;
                }
            } else {
                j += 1;
            }
            if j < s.len() && s[j] == '\'' {
                i = j + 1;
                out.push(s[st..i].iter().collect());
            } else {
                i += 1;
                out.push("'".to_string());
            }
        } else {
            out.push(c.to_string());
            i += 1;
        }
    }
    for t in out.iter_mut() {
        let f = t.chars().next().unwrap_or(' ');
        if f == '\'' && t.len() > 1 || f == '"' || f.is_ascii_digit() || ((f == 'b' || f == 'r') && (t.contains('"') || t.contains('\''))) {
            *t = canon_literal(t);
        }
    }
    out
}

/// A fragment with the layout commas removed (`,)` `,]` `,}`), as the compact text has them removed.
pub fn canon_frag(frag: &str) -> std::borrow::Cow<'_, str> {
    thread_local! {
        static RE: regex::Regex = regex::Regex::new(r",\s*([)\]}])").unwrap();
    }
    RE.with(|re| re.replace_all(frag, "$1"))
}

impl Compact {
    /// A fragment that ends with `,` anchors the end of a list element / match arm: in the compact text the last
    /// element has no comma, so the closing delimiter is accepted in its place.
    fn alternatives(frag: &str) -> Vec<String> {
        let f = canon_frag(frag).to_string();
        match f.strip_suffix(',') {
            Some(base) if !Self::token_mode(&f) => vec![f.clone(), format!("{}}}", base), format!("{})", base), format!("{}]", base)],
            _ => vec![f],
        }
    }
    /// token index of the first match
    pub fn find(&self, frag: &str) -> Option<usize> {
        Self::alternatives(frag).iter().filter_map(|f| self.find_one(f)).min()
    }
    pub fn starts_with(&self, frag: &str) -> bool {
        Self::alternatives(frag).iter().any(|f| self.starts_with_one(f))
    }
    pub fn ends_with(&self, frag: &str) -> bool {
        self.ends_with_one(&canon_frag(frag))
    }
    pub fn is(&self, frag: &str) -> bool {
        self.is_one(&canon_frag(frag))
    }
    fn token_mode(frag: &str) -> bool {
        frag.starts_with('§')
    }
    fn find_one(&self, frag: &str) -> Option<usize> {
        if Self::token_mode(frag) {
            let n = frag_tokens(frag);
            (0..self.toks.len()).find(|&i| match_at(&self.toks, i, &n))
        } else {
            if let Some(p) = self.text.find(frag) {
                return Some(match self.offs.binary_search(&p) {
                    Ok(i) => i,
                    Err(i) => i.saturating_sub(1),
                });
            }
            // same code with locals (bound inside the fragment) renamed
            (0..self.toks.len()).find(|&i| alpha_match_at(&self.toks, i, frag).is_some())
        }
    }
    pub fn contains(&self, frag: &str) -> bool {
        self.find(frag).is_some()
    }
    pub fn matches(&self, frag: &str) -> std::vec::IntoIter<usize> {
        let frag = &*canon_frag(frag);
        let v: Vec<usize> = if Self::token_mode(frag) {
            let n = frag_tokens(frag);
            (0..self.toks.len()).filter(|&i| match_at(&self.toks, i, &n)).collect()
        } else {
            self.text.match_indices(frag).map(|(i, _)| i).collect()
        };
        v.into_iter()
    }
    fn starts_with_one(&self, frag: &str) -> bool {
        if Self::token_mode(frag) {
            match_at(&self.toks, 0, &frag_tokens(frag))
        } else {
            self.text.starts_with(frag) || alpha_match_at(&self.toks, 0, frag).is_some()
        }
    }
    fn ends_with_one(&self, frag: &str) -> bool {
        if Self::token_mode(frag) {
            let n = frag_tokens(frag);
            n.len() <= self.toks.len() && match_at(&self.toks, self.toks.len() - n.len(), &n)
        } else {
            self.text.ends_with(frag) || (0..self.toks.len()).any(|i| alpha_match_at(&self.toks, i, frag) == Some(self.toks.len() - i))
        }
    }
    fn is_one(&self, frag: &str) -> bool {
        if Self::token_mode(frag) {
            let n = frag_tokens(frag);
            n.len() == self.toks.len() && match_at(&self.toks, 0, &n)
        } else {
            self.text == frag || alpha_match_at(&self.toks, 0, frag) == Some(self.toks.len())
        }
    }
}

impl std::ops::Deref for Compact {
    type Target = String;
    fn deref(&self) -> &String {
        &self.text
    }
}
impl std::fmt::Display for Compact {
    fn fmt(&self, f: &mut std::fmt::Formatter<'_>) -> std::fmt::Result {
        f.write_str(&self.text)
    }
}
impl PartialEq<&str> for Compact {
    fn eq(&self, o: &&str) -> bool {
        self.is(o)
    }
}
impl PartialEq<str> for Compact {
    fn eq(&self, o: &str) -> bool {
        self.is(o)
    }
}
impl PartialEq<String> for Compact {
    fn eq(&self, o: &String) -> bool {
        self.is(o)
    }
}

/// Visit every expression of a block together with the stack of branch conditions it sits under
/// (`if C` then-branch: "C"; else-branch: "!C"; a match arm: "PAT@SCRUTINEE"; an expression inside a condition
/// sees the conditions of the enclosing branches only).
pub fn for_each_expr_with_conds<'a>(b: &'a syn::Block, f: &mut dyn FnMut(&'a syn::Expr, &[String])) {
    struct W<'a, 'f> {
        conds: Vec<String>,
        f: &'f mut dyn FnMut(&'a syn::Expr, &[String]),
    }
    impl<'a, 'f> Visit<'a> for W<'a, 'f> {
        fn visit_expr(&mut self, e: &'a syn::Expr) {
            (self.f)(e, &self.conds);
            match e {
                syn::Expr::If(i) => {
                    self.visit_expr(&i.cond);
                    let c = tsc(&i.cond);
                    self.conds.push(c.clone());
                    self.visit_block(&i.then_branch);
                    self.conds.pop();
                    if let Some((_, el)) = &i.else_branch {
                        self.conds.push(format!("!{}", c));
                        self.visit_expr(el);
                        self.conds.pop();
                    }
                }
                syn::Expr::Match(m) => {
                    self.visit_expr(&m.expr);
                    let s = tsc(&m.expr);
                    for a in &m.arms {
                        self.conds.push(format!("{}@{}", tsc(&a.pat), s));
                        if let Some((_, g)) = &a.guard {
                            self.visit_expr(g);
                        }
                        self.visit_expr(&a.body);
                        self.conds.pop();
                    }
                }
                syn::Expr::Binary(b) if matches!(b.op, syn::BinOp::And(_) | syn::BinOp::Or(_)) => {
                    // short circuit: the right operand is evaluated only if the left one is true (&&) / false (||)
                    self.visit_expr(&b.left);
                    let l = tsc(&b.left);
                    self.conds.push(if matches!(b.op, syn::BinOp::And(_)) { l } else { format!("!{}", l) });
                    self.visit_expr(&b.right);
                    self.conds.pop();
                }
                _ => syn::visit::visit_expr(self, e),
            }
        }
    }
    W { conds: vec![], f }.visit_block(b);
}

/// Every identifier token of an expression (paths, field names, method names, macro arguments).
pub fn all_ident_tokens<T: ToTokens>(t: &T) -> Vec<String> {
    let mut v = vec![];
    for tt in t.to_token_stream() {
        collect_tt_idents(tt, &mut v);
    }
    v
}
