//! Model of the generated AST type definitions (ast/src/gen/generic.rs).

use crate::srcmodel::{self as sm, Src};
use std::collections::{BTreeMap, BTreeSet};

#[derive(Debug, Clone)]
pub struct Field {
    pub name: String,
    pub ty: String,            // compact token string
    pub reaches: Vec<String>,  // generic node type names mentioned in the type
    pub optional_range: bool,  // type is OptionalRange<..>
    pub is_vec: bool,
    pub is_option: bool,
    pub is_box: bool,
}

#[derive(Debug, Clone)]
pub struct NodeStruct {
    pub name: String,
    pub generic: bool,
    pub fields: Vec<Field>,
    pub line: usize,
}

#[derive(Debug, Clone)]
pub struct NodeEnum {
    pub name: String,
    pub generic: bool,
    pub variants: Vec<(String, Option<String>)>, // (variant, payload type last ident)
    pub line: usize,
}

pub struct AstModel {
    pub structs: BTreeMap<String, NodeStruct>,
    pub enums: BTreeMap<String, NodeEnum>,
    pub generic_types: BTreeSet<String>,
}

fn type_idents(t: &syn::Type, out: &mut Vec<String>) {
    match t {
        syn::Type::Path(p) => {
            for seg in &p.path.segments {
                out.push(seg.ident.to_string());
                if let syn::PathArguments::AngleBracketed(a) = &seg.arguments {
                    for arg in &a.args {
                        if let syn::GenericArgument::Type(t) = arg {
                            type_idents(t, out)
                        }
                    }
                }
            }
        }
        syn::Type::Reference(r) => type_idents(&r.elem, out),
        syn::Type::Tuple(t) => t.elems.iter().for_each(|e| type_idents(e, out)),
        syn::Type::Slice(s) => type_idents(&s.elem, out),
        syn::Type::Array(s) => type_idents(&s.elem, out),
        _ => {}
    }
}

pub fn load(src: &Src) -> AstModel {
    let mut structs = BTreeMap::new();
    let mut enums = BTreeMap::new();
    let mut generic_types = BTreeSet::new();
    for it in &src.file.items {
        match it {
            syn::Item::Struct(s) if !s.generics.params.is_empty() => {
                generic_types.insert(s.ident.to_string());
            }
            syn::Item::Enum(e) if !e.generics.params.is_empty() => {
                generic_types.insert(e.ident.to_string());
            }
            _ => {}
        }
    }
    for it in &src.file.items {
        match it {
            syn::Item::Struct(s) => {
                let mut fields = vec![];
                if let syn::Fields::Named(n) = &s.fields {
                    for f in &n.named {
                        let mut ids = vec![];
                        type_idents(&f.ty, &mut ids);
                        let reaches: Vec<String> = ids.iter().filter(|i| generic_types.contains(*i)).cloned().collect();
                        let ty = sm::tsc(&f.ty);
                        fields.push(Field {
                            name: f.ident.as_ref().unwrap().to_string().trim_start_matches("r#").to_string(),
                            optional_range: ty.starts_with("OptionalRange<"),
                            is_vec: ids.first().map_or(false, |i| i == "Vec"),
                            is_option: ids.first().map_or(false, |i| i == "Option"),
                            is_box: ids.iter().any(|i| i == "Box"),
                            ty,
                            reaches,
                        });
                    }
                }
                structs.insert(
                    s.ident.to_string(),
                    NodeStruct { name: s.ident.to_string(), generic: !s.generics.params.is_empty(), fields, line: sm::line(s.ident.span()) },
                );
            }
            syn::Item::Enum(e) => {
                let variants = e
                    .variants
                    .iter()
                    .map(|v| {
                        let payload = match &v.fields {
                            syn::Fields::Unnamed(u) if u.unnamed.len() == 1 => Some(sm::type_last_ident(&u.unnamed[0].ty)),
                            _ => None,
                        };
                        (v.ident.to_string(), payload)
                    })
                    .collect();
                enums.insert(
                    e.ident.to_string(),
                    NodeEnum { name: e.ident.to_string(), generic: !e.generics.params.is_empty(), variants, line: sm::line(e.ident.span()) },
                );
            }
            _ => {}
        }
    }
    AstModel { structs, enums, generic_types }
}
