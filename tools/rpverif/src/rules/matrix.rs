//! Engine T (thorough tier): the feature matrix compiles. Type-checking every supported configuration is a
//! static check: code under every cfg branch is well-typed and both big-integer backends are used only
//! through their common API.

use crate::report::Ctx;
use std::process::Command;

pub fn feature_matrix(cx: &mut Ctx, rule: &str) {
    cx.rule(rule, "the workspace type-checks (cargo check, nothing is run) in every supported feature configuration: default; full-lexer; all-nodes-with-ranges; both; num-bigint instead of malachite-bigint; the ast crate with visitor+fold+unparse+constant-optimization+location; the format crate with num-bigint");
    cx.floor(rule, 7);
    cx.trust("cargo/rustc type checker (feature matrix)");
    let configs: Vec<(&str, Vec<&str>)> = vec![
        ("parser default", vec!["-p", "rustpython-parser"]),
        ("parser full-lexer", vec!["-p", "rustpython-parser", "--features", "full-lexer"]),
        ("parser all-nodes-with-ranges", vec!["-p", "rustpython-parser", "--features", "all-nodes-with-ranges"]),
        ("parser full-lexer+all-nodes-with-ranges", vec!["-p", "rustpython-parser", "--features", "full-lexer,all-nodes-with-ranges"]),
        ("parser num-bigint", vec!["-p", "rustpython-parser", "--no-default-features", "--features", "num-bigint,location"]),
        ("ast all traversal features", vec!["-p", "rustpython-ast", "--features", "visitor,fold,unparse,constant-optimization,location"]),
        ("format num-bigint", vec!["-p", "rustpython-format", "--no-default-features", "--features", "num-bigint"]),
    ];
    let target = std::env::temp_dir().join(format!("rpverif-matrix-{}", std::process::id()));
    for (name, args) in configs {
        let out = Command::new("cargo")
            .arg("check")
            .arg("--offline")
            .arg("--quiet")
            .args(&args)
            .current_dir(&cx.repo)
            .env("CARGO_NET_OFFLINE", "true")
            .env("CARGO_TARGET_DIR", &target)
            .env("RUSTFLAGS", "-Awarnings")
            .output();
        match out {
            Ok(o) if o.status.success() => cx.ok(rule, &format!("cargo check {}: ok", name)),
            Ok(o) => {
                let err = String::from_utf8_lossy(&o.stderr);
                let first = err.lines().filter(|l| l.starts_with("error")).take(2).collect::<Vec<_>>().join(" | ");
                cx.fail(rule, &format!("{}/{}", rule, name), "Cargo.toml", &format!("configuration `{}` does not type-check: {}", name, first));
            }
            Err(e) => cx.fail(rule, &format!("{}/{}/spawn", rule, name), "", &format!("cargo could not be started: {}", e)),
        }
    }
    let _ = std::fs::remove_dir_all(&target);
}
