//! C13 — source-order consistency of the linear fold; sibling agreement of the locators; line-break set agreement.

use crate::astmodel::{self, AstModel};
use crate::report::Ctx;
use crate::rules::grammar_rules::{load_order_ref, source_order_of};
use crate::srcmodel::{self as sm, Src};
use crate::tables;
use std::collections::{BTreeMap, BTreeSet};

/// Order in which a function folds fields: statements `let f = Foldable::fold(f, folder)?` / `self.fold(f)` /
/// `LinearLookaheadLocator(self).fold(f)` / zipped loops `for (a, b) in xs.into_iter().zip(ys..)`.
#[derive(Debug, Clone)]
struct FoldStep {
    fields: Vec<String>,
    how: String, // "fold" | "lookahead" | "zip"
    pos: usize,
}

fn fold_steps(b: &syn::Block, fields: &[String]) -> (Vec<FoldStep>, Option<usize>, Option<usize>) {
    let mut steps = vec![];
    let mut will_map = None;
    let mut map_user = None;
    // the local that receives the context: `let C = <folder>.will_map_user(&range);`
    let mut ctx_name = "context".to_string();
    for s in &b.stmts {
        if let syn::Stmt::Local(l) = s {
            if let (Some(init), syn::Pat::Ident(pi)) = (&l.init, &l.pat) {
                let it = sm::tsc(&init.expr);
                if it.contains("will_map_user(&range)") || it.contains("will_map_user_cfg(&range)") {
                    ctx_name = pi.ident.to_string();
                }
            }
        }
    }
    for (i, s) in b.stmts.iter().enumerate() {
        let t = sm::tsx(s);
        if t.contains("will_map_user(&range)") || t.contains("will_map_user_cfg(&range)") {
            will_map = Some(i);
        }
        if t.contains(&format!(".map_user(range,{})", ctx_name)) || t.contains(&format!(".map_user_cfg(range,{})", ctx_name)) {
            map_user = Some(i);
        }
        match s {
            syn::Stmt::Local(l) => {
                let Some(init) = &l.init else { continue };
                let it = sm::tsc(&init.expr);
                for f in fields {
                    if it == format!("Foldable::fold({},folder)?", f) || it == format!("self.fold({})?", f) {
                        steps.push(FoldStep { fields: vec![f.clone()], how: "fold".into(), pos: i });
                    } else if it == format!("LinearLookaheadLocator(self).fold({})?", f) {
                        steps.push(FoldStep { fields: vec![f.clone()], how: "lookahead".into(), pos: i });
                    }
                }
            }
            syn::Stmt::Expr(syn::Expr::ForLoop(fl), _) => {
                let it = sm::tsc(&fl.expr);
                // a.into_iter().zip(b.into_iter())
                let mut zipped = vec![];
                for f in fields {
                    if it.starts_with(&format!("{}.into_iter().zip(", f)) || it.contains(&format!(".zip({}.into_iter())", f)) || it.contains(&format!(".zip({})", f)) {
                        zipped.push(f.clone());
                    }
                }
                if zipped.len() == 2 {
                    // order inside the loop body: first pushed = first folded
                    let body = sm::tsc(&fl.body);
                    let mut ids = vec![];
                    sm::pat_idents(&fl.pat, &mut ids);
                    let first_ok = ids.len() == 2 && body.find(&format!("self.fold({})?", ids[0])).unwrap_or(usize::MAX) < body.find(&format!("self.fold({})?", ids[1])).unwrap_or(0);
                    if first_ok {
                        // the zip's receiver is the first element of each pair
                        let a = zipped.iter().find(|f| it.starts_with(&format!("{}.into_iter().zip(", f))).cloned().unwrap();
                        let bb = zipped.iter().find(|f| **f != a).cloned().unwrap();
                        steps.push(FoldStep { fields: vec![a, bb], how: "zip".into(), pos: i });
                    }
                }
            }
            _ => {}
        }
    }
    (steps, will_map, map_user)
}

/// B1: positions found in a sub-slice are re-based.
fn search_rebasing(cx: &mut Ctx) {
    let rule = "C13.B1";
    cx.rule(rule, "in core/src/source_code.rs every line-break search runs either on the whole source (the position found is an absolute offset) or on a tail `&source[a..]`, and then the position is re-based by `a` before it is used — sibling agreement between LinearLocatorState::init and LinearLocator::locate_inner; a line end that is relative to the slice shifts every later line");
    cx.floor(rule, 2);
    let src = match sm::load(&cx.repo, "core/src/source_code.rs") {
        Ok(s) => s,
        Err(e) => return cx.anchor_missing(rule, &e),
    };
    let mut fns: Vec<(String, &syn::Block)> = vec![];
    for i in src.impls() {
        for it in &i.items {
            if let syn::ImplItem::Fn(f) = it {
                fns.push((format!("{}::{}", sm::self_ty_name(i), f.sig.ident), &f.block));
            }
        }
    }
    for (fname, block) in fns {
        // locals bound to a slice expression
        let mut lets: BTreeMap<String, syn::Expr> = BTreeMap::new();
        sm::for_each_stmt_in_block(block, &mut |st| {
            if let syn::Stmt::Local(l) = st {
                let mut ids = vec![];
                sm::pat_idents(&l.pat, &mut ids);
                if let (1, Some(init)) = (ids.len(), &l.init) {
                    lets.insert(ids[0].clone(), (*init.expr).clone());
                }
            }
        });
        let mut n = 0;
        sm::for_each_expr_in_block(block, |e| {
            let Some(il) = sm::if_let_form(e) else { return };
            let syn::Expr::Call(c) = il.scrut else { return };
            let callee = sm::tsc(&c.func);
            if !(callee.ends_with("find_newline") || callee.ends_with("memchr2") || callee.ends_with("memrchr2")) || c.args.is_empty() {
                return;
            }
            n += 1;
            // the searched text, through a local
            let mut arg: syn::Expr = c.args.last().unwrap().clone();
            if let Some(id) = sm::as_ident(&arg) {
                if let Some(init) = lets.get(&id) {
                    arg = init.clone();
                }
            }
            let mut inner: &syn::Expr = &arg;
            loop {
                match inner {
                    syn::Expr::Reference(r) => inner = &r.expr,
                    syn::Expr::Paren(p) => inner = &p.expr,
                    syn::Expr::MethodCall(mc) if mc.method == "as_bytes" => inner = &mc.receiver,
                    _ => break,
                }
            }
            let start: Option<String> = match inner {
                syn::Expr::Index(ix) => match &*ix.index {
                    syn::Expr::Range(r) => r.start.as_ref().map(|s| sm::tsc(s)).filter(|s| s != "0"),
                    _ => None,
                },
                _ => None,
            };
            let key = format!("{}/{}#{}", rule, fname, n);
            match start {
                None => cx.ok(rule, &format!("{}: {} searches `{}` from its beginning: the position is absolute", fname, callee, sm::tsc(inner))),
                Some(a) => {
                    let mut ids = vec![];
                    sm::pat_idents(il.pat, &mut ids);
                    let p = ids.first().cloned().unwrap_or_default();
                    let body = sm::tsc(&*il.then_block);
                    if body.contains(&format!("{}+{}", a, p)) || body.contains(&format!("{}+{}", p, a)) {
                        cx.ok(rule, &format!("{}: {} searches the tail from `{}` and re-bases the position by it", fname, callee, a));
                    } else {
                        cx.fail(rule, &key, &src.loc(e), &format!("{}: {} searches the tail `{}` but the position `{}` is used without adding `{}`: the line end is relative to the slice", fname, callee, sm::tsc(inner), p, a));
                    }
                }
            }
        });
    }
}

pub fn run(cx: &mut Ctx) {
    search_rebasing(cx);
    bom_handling(cx);
    cx.rule("C13.O1", "for every node kind the effective linear fold order (the LinearLocator override in source_locator.rs if present, else the generated fold) visits the range-carrying children in the reference source order (refdata asdl_source_order, which C01.O1 ties to the grammar's binding order): the forward-only cursor never has to go back");
    cx.rule("C13.O2", "where two range-carrying list fields are interleaved in source (Dict keys/values, MatchMapping keys/patterns, Call args/keywords, ClassDef bases/keywords) the effective fold zips them or locates one of them with the look-ahead locator before folding the other");
    cx.rule("C13.O3", "overrides keep the fold contract: children that precede the node's own start (decorators) are folded before will_map_user; the context is taken before the other children and map_user(range, context) after them; every field is folded or carried exactly once and rebuilt under its own name");
    cx.rule("C13.S1", "RandomLocator and LinearLocator implement will_map_user / map_user identically up to the locator call (start = locate(range.start()), end = locate(range.end()), start..end); LinearLookaheadLocator differs only by using locate_only, which does not move the cursor");
    cx.rule("C13.T1", "line-break set agreement between siblings: the line index, find_newline / the universal newline iterator, the linear locator's backwards search and the lexer all treat exactly LF and CR as line breaks, with CR LF counted once");
    cx.rule("C13.S2", "LinearLocator::locate_inner selects the effective line state once (new state if the offset left the current line, else the current one) and reads line facts (is_ascii, line_start, line_number) only through that selection afterwards");
    cx.floor("C13.O1", 60);
    cx.floor("C13.O2", 4);
    cx.floor("C13.O3", 8);
    cx.floor("C13.S1", 5);
    cx.floor("C13.T1", 8);
    cx.floor("C13.S2", 2);

    let (generic, fold, loc) = match (sm::load(&cx.repo, "ast/src/gen/generic.rs"), sm::load(&cx.repo, "ast/src/gen/fold.rs"), sm::load(&cx.repo, "ast/src/source_locator.rs")) {
        (Ok(a), Ok(b), Ok(c)) => (a, b, c),
        _ => return cx.anchor_missing("C13", "ast/src/gen/generic.rs, gen/fold.rs, source_locator.rs"),
    };
    let model = astmodel::load(&generic);
    let Some(oref) = load_order_ref(cx) else { return };

    // overrides in impl Fold for LinearLocator
    let mut overrides: BTreeMap<String, &syn::ImplItemFn> = BTreeMap::new(); // struct name -> method
    for i in loc.impls() {
        if sm::self_ty_name(i) != "LinearLocator" || sm::trait_name(i).as_deref() != Some("Fold") {
            continue;
        }
        for it in &i.items {
            if let syn::ImplItem::Fn(f) = it {
                let n = f.sig.ident.to_string();
                if n.starts_with("fold_") {
                    let pty = f.sig.inputs.iter().nth(1).map(|a| if let syn::FnArg::Typed(t) = a { sm::type_last_ident(&t.ty) } else { String::new() }).unwrap_or_default();
                    overrides.insert(pty, f);
                }
            }
        }
    }
    cx.unit("LinearLocator fold overrides", overrides.len());
    // generated folds by struct
    let mut gen: BTreeMap<String, &syn::ItemFn> = BTreeMap::new();
    for f in fold.all_free_fns() {
        let n = f.sig.ident.to_string();
        if n.starts_with("fold_") {
            let pty = f.sig.inputs.iter().nth(1).map(|a| if let syn::FnArg::Typed(t) = a { sm::type_last_ident(&t.ty) } else { String::new() }).unwrap_or_default();
            gen.insert(pty, f);
        }
    }
    check_orders(cx, &model, &oref, &overrides, &gen, &loc, &fold);
    locator_siblings(cx, &loc);
    line_break_sets(cx);
    stale_state(cx);
    optional_range_monotonicity(cx);
}

/// With all-nodes-with-ranges the optional-range nodes are located too; the range-capture deviants of
/// C02.R3/R3b make the forward-only cursor go backwards. Re-run those two rules and report under C13.R1.
fn optional_range_monotonicity(cx: &mut Ctx) {
    let rule = "C13.R1";
    cx.rule(rule, "(all-nodes-with-ranges) optional-range nodes are located as well, so their ranges must bracket exactly their own text: per-element nodes must not share the alternative-level captures and secondary nodes / attached children must be covered by their node's range (C02.R3, C02.R3b) — otherwise the linear locator's cursor has to move backwards");
    cx.floor(rule, 8);
    let g = match tables::load_grammar(&cx.repo) {
        Ok(g) => g,
        Err(e) => return cx.anchor_missing(rule, &e),
    };
    let mut sub = Ctx::new("C13", &cx.tier, cx.repo.clone(), cx.verif.clone());
    crate::rules::c02::grammar_ranges(&mut sub, &g);
    let n_ok: usize = ["C02.R3", "C02.R3b"].iter().map(|r| sub.discharged.get(*r).copied().unwrap_or(0)).sum();
    for _ in 0..n_ok {
        cx.ok_trivial(rule);
    }
    cx.ok(rule, &format!("{} per-element / secondary node ranges bracket their own text", n_ok));
    for f in sub.findings {
        if f.rule == "C02.R3" || f.rule == "C02.R3b" {
            let key = f.key.replacen("C02.R3b", "C13.R1", 1).replacen("C02.R3", "C13.R1", 1);
            cx.fail(rule, &key, &f.loc, &f.msg);
        }
    }
}

fn check_orders(cx: &mut Ctx, model: &AstModel, oref: &crate::rules::grammar_rules::OrderRef, overrides: &BTreeMap<String, &syn::ImplItemFn>, gen: &BTreeMap<String, &syn::ItemFn>, loc: &Src, fold: &Src) {
    let interleaved_pairs: Vec<(String, String, String)> = oref.interleaved.iter().cloned().collect();
    let mut o2_seen = BTreeSet::new();
    for (name, st) in &model.structs {
        if !st.generic || name == "PythonArguments" {
            continue;
        }
        let ranged: Vec<String> = st.fields.iter().filter(|f| f.name != "range" && !f.reaches.is_empty()).map(|f| f.name.clone()).collect();
        let all_fields: Vec<String> = st.fields.iter().filter(|f| f.name != "range").map(|f| f.name.clone()).collect();
        let (block, where_, is_override): (&syn::Block, String, bool) = match (overrides.get(name), gen.get(name)) {
            (Some(f), _) => (&f.block, loc.loc(*f), true),
            (None, Some(f)) => (&f.block, fold.loc(&f.sig.ident), false),
            _ => continue,
        };
        // ExprJoinedStr has a bespoke override (shared location for the pieces); checked separately
        if name == "ExprJoinedStr" && is_override {
            // start located (moves the cursor), end only looked ahead, one shared location handed to the piece helper:
            // read symbolically (result term + ordered trace of calls), so locals may be named and placed freely
            let shape_ok = match crate::eval::symbolic(block, &[("SourceRange::new", &["start", "end"])]) {
                Ok((term, trace)) => {
                    // the private helper receives the locator, the node and the shared location, in whatever order
                    // its parameters are declared
                    let loc_t = r"\{end:self\.locate_only\(node\.range\.end\(\)\),start:self\.locate\(node\.range\.start\(\)\)\}";
                    let re = regex::Regex::new(&format!(r"^(\w+)\((?:self,node,{l}|self,{l},node|node,self,{l}|node,{l},self|{l},self,node|{l},node,self)\)$", l = loc_t)).unwrap();
                    let helper_ok = re.captures(&term).map_or(false, |c| loc.free_fns(&c[1]).len() == 1);
                    helper_ok && trace.len() == 3 && trace[0] == "self.locate(node.range.start())" && trace[1] == "self.locate_only(node.range.end())" && trace[2] == term
                }
                Err(_) => false,
            };
            if shape_ok {
                cx.ok("C13.O3", "fold_expr_joined_str: start located, end looked ahead, pieces share the location");
            } else {
                cx.fail("C13.O3", "C13.O3/ExprJoinedStr", &where_, "fold_expr_joined_str is not locate(start) + locate_only(end) + linear_locate_expr_joined_str");
            }
            continue;
        }
        let (steps, will_map, map_user) = fold_steps(block, &all_fields);
        if ranged.len() < 2 && !is_override {
            cx.ok_trivial("C13.O1");
            continue;
        }
        let Some(order) = source_order_of(model, oref, name) else { continue };
        // position of each ranged field in the fold
        let mut fold_pos: BTreeMap<String, (usize, String)> = BTreeMap::new();
        for (k, s) in steps.iter().enumerate() {
            for f in &s.fields {
                fold_pos.insert(f.clone(), (k, s.how.clone()));
            }
        }
        let mut bad = vec![];
        let src_ranged: Vec<&String> = order.iter().filter(|f| ranged.contains(f)).collect();
        for i in 0..src_ranged.len() {
            for j in i + 1..src_ranged.len() {
                let (a, b) = (src_ranged[i], src_ranged[j]);
                let inter = oref.interleaved.contains(&(name.clone(), a.clone(), b.clone()));
                let (Some((pa, ha)), Some((pb, hb))) = (fold_pos.get(a), fold_pos.get(b)) else {
                    bad.push(format!("`{}` or `{}` is not folded by a recognised step", a, b));
                    continue;
                };
                if inter {
                    let ok = (pa == pb && ha == "zip") || ha == "lookahead" || hb == "lookahead";
                    let key = format!("C13.O2/{}/{}-{}", name, a, b);
                    o2_seen.insert((name.clone(), a.clone(), b.clone()));
                    // a lookahead field must be folded before the linearly folded one
                    let order_ok = if ha == "lookahead" && hb == "fold" { pa < pb } else if hb == "lookahead" && ha == "fold" { pb < pa } else { true };
                    if ok && order_ok {
                        cx.ok("C13.O2", &format!("{}: `{}`/`{}` interleaved in source and folded by {}", name, a, b, if pa == pb { "zip" } else { "look-ahead" }));
                    } else {
                        cx.fail("C13.O2", &key, &where_, &format!("{}: `{}` and `{}` alternate in the source but are folded one list after the other: for e.g. `x=1, *b` the forward-only cursor has to go back (wrong rows in release builds, debug self-check aborts)", name, a, b));
                    }
                    continue;
                }
                // look-ahead steps do not move the cursor and may sit anywhere before
                if ha == "lookahead" || hb == "lookahead" {
                    continue;
                }
                if pa > pb {
                    bad.push(format!("`{}` precedes `{}` in the source but is folded after it", a, b));
                }
            }
        }
        if bad.is_empty() {
            cx.ok("C13.O1", &format!("{}: fold order {} follows source order{}", name, src_ranged.iter().map(|s| s.as_str()).collect::<Vec<_>>().join(" < "), if is_override { " (LinearLocator override)" } else { "" }));
        } else {
            for (n, b) in bad.iter().enumerate() {
                cx.fail("C13.O1", &format!("C13.O1/{}/{}", name, n), &where_, &format!("{}: {}", name, b));
            }
        }
        if is_override {
            // O3 contract
            let mut probs = vec![];
            let (Some(wm), Some(mu)) = (will_map, map_user) else {
                cx.fail("C13.O3", &format!("C13.O3/{}/context", name), &where_, "override does not take will_map_user(&range) / map_user(range, context)");
                continue;
            };
            for s in &steps {
                let is_decorator = s.fields == vec!["decorator_list".to_string()];
                if is_decorator && s.pos > wm {
                    probs.push("decorator_list is folded after the node's own start was located".to_string());
                }
                if !is_decorator && s.pos < wm {
                    probs.push(format!("{:?} folded before will_map_user", s.fields));
                }
                if s.pos > mu {
                    probs.push(format!("{:?} folded after map_user", s.fields));
                }
            }
            for f in &all_fields {
                let n = steps.iter().filter(|s| s.fields.contains(f)).count();
                let carried = ["name", "type_comment", "rest"].contains(&f.as_str()) && n <= 1;
                if n != 1 && !carried {
                    probs.push(format!("field `{}` folded {} times", f, n));
                }
            }
            // rebuilt literal: field: same name (or located_<field>)
            if let Some(syn::Stmt::Expr(e, None)) = block.stmts.last() {
                if let Some(syn::Expr::Struct(s)) = sm::peel_ok(e) {
                    for fv in &s.fields {
                        let m = sm::ts(&fv.member);
                        let v = sm::tsc(&fv.expr);
                        if !(v == m || v == format!("located_{}", m)) {
                            probs.push(format!("rebuilt field `{}` is bound to `{}`", m, v));
                        }
                    }
                    let got: BTreeSet<String> = s.fields.iter().map(|f| sm::ts(&f.member)).collect();
                    let want: BTreeSet<String> = st.fields.iter().map(|f| f.name.clone()).collect();
                    if got != want {
                        probs.push(format!("rebuilt fields {:?} != struct fields {:?}", got, want));
                    }
                }
            }
            if probs.is_empty() {
                cx.ok("C13.O3", &format!("{} override keeps the fold contract", name));
            } else {
                cx.fail("C13.O3", &format!("C13.O3/{}", name), &where_, &probs.join("; "));
            }
        }
    }
    for (ty, a, b) in interleaved_pairs {
        // only pairs whose both fields carry ranges are relevant
        let both_ranged = model.structs.get(&ty).map_or(false, |s| [&a, &b].iter().all(|f| s.fields.iter().any(|x| &&x.name == f && !x.reaches.is_empty())));
        if both_ranged && !o2_seen.contains(&(ty.clone(), a.clone(), b.clone())) && !o2_seen.contains(&(ty.clone(), b.clone(), a.clone())) {
            cx.fail("C13.O2", &format!("C13.O2/{}/{}-{}/unchecked", ty, a, b), "ast/src/source_locator.rs", "interleaved pair was not evaluated (fail closed)");
        }
    }
}

fn locator_siblings(cx: &mut Ctx, loc: &Src) {
    let rule = "C13.S1";
    let mut bodies: BTreeMap<String, BTreeMap<String, String>> = BTreeMap::new();
    for i in loc.impls() {
        if sm::trait_name(i).as_deref() != Some("Fold") {
            continue;
        }
        let ty = sm::self_ty_name(i);
        for it in &i.items {
            if let syn::ImplItem::Fn(f) = it {
                let n = f.sig.ident.to_string();
                if n == "will_map_user" || n == "map_user" {
                    bodies.entry(ty.clone()).or_default().insert(n, sm::tsc(&f.block));
                }
            }
        }
    }
    // symbolic reading (result term + trace of calls on self), independent of how the locals are named and placed;
    // `(a..b).into()` and `SourceRange::new(a, b)` build the same range (From<Range<SourceLocation>> for SourceRange)
    let mut sym: BTreeMap<String, BTreeMap<String, String>> = BTreeMap::new();
    for i in loc.impls() {
        if sm::trait_name(i).as_deref() != Some("Fold") {
            continue;
        }
        let ty = sm::self_ty_name(i);
        for it in &i.items {
            if let syn::ImplItem::Fn(f) = it {
                let n = f.sig.ident.to_string();
                if n == "will_map_user" || n == "map_user" {
                    let r = match crate::eval::symbolic(&f.block, &[("SourceRange::new", &["start", "end"])]) {
                        Ok((term, trace)) => format!("{} after [{}]", term, trace.join("; ")),
                        Err(e) => format!("not interpretable: {}", e),
                    };
                    sym.entry(ty.clone()).or_default().insert(n, r);
                }
            }
        }
    }
    let _ = &bodies;
    let bodies = sym;
    let want_w = "self.locate(user.start()) after [self.locate(user.start())]";
    let want_m = "{end:self.locate(user.end()),start:start} after [self.locate(user.end())]";
    for ty in ["RandomLocator", "LinearLocator"] {
        let b = bodies.get(ty).cloned().unwrap_or_default();
        if b.get("will_map_user").map(|s| s.as_str()) == Some(want_w) && b.get("map_user").map(|s| s.as_str()) == Some(want_m) {
            cx.ok(rule, &format!("{}: start = locate(range.start()), end = locate(range.end()), start..end", ty));
        } else {
            cx.fail(rule, &format!("{}/{}", rule, ty), &loc.rel, &format!("{}'s will_map_user/map_user are {:?}", ty, b));
        }
    }
    let b = bodies.get("LinearLookaheadLocator").cloned().unwrap_or_default();
    if b.get("will_map_user").map(|s| s.as_str()) == Some("self.0.locate_only(user.start()) after [self.0.locate_only(user.start())]") && b.get("map_user").map(|s| s.as_str()) == Some("{end:self.0.locate_only(user.end()),start:start} after [self.0.locate_only(user.end())]") {
        cx.ok(rule, "LinearLookaheadLocator differs only by locate_only on the wrapped locator");
    } else {
        cx.fail(rule, &format!("{}/LinearLookaheadLocator", rule), &loc.rel, &format!("LinearLookaheadLocator's will_map_user/map_user are {:?}", b));
    }
    // the two ways of building a SourceRange agree: new(start, end) and From<Range> both store start and Some(end)
    if let Ok(sc) = sm::load(&cx_repo(), "core/src/source_code.rs") {
        let t = sm::tsx(&sc.file);
        if t.contains("{SourceRange{end:Some(end),start}}") && t.contains("{SourceRange{end:Some(value.end),start:value.start}}") {
            cx.ok(rule, "SourceRange::new(a, b) and (a..b).into() build the same range");
        } else {
            cx.fail(rule, &format!("{}/range-constructors", rule), &sc.rel, "SourceRange::new / From<Range<SourceLocation>> do not both store { start, end: Some(end) }");
        }
    }
    // associated types agree
    let t = sm::tsx(&loc.file);
    if t.matches("typeTargetU=SourceRange;").count() == 3 && t.matches("typeUserContext=SourceLocation;").count() == 3 {
        cx.ok(rule, "all three locators map TextRange -> SourceRange with a SourceLocation context");
    } else {
        cx.fail(rule, &format!("{}/types", rule), &loc.rel, "the locators' associated types differ");
    }
    // locate_only reports the row of the line the offset lies on: interpreted for both outcomes of locate_inner
    if let Ok(sc) = sm::load(&cx_repo(), "core/src/source_code.rs") {
        if let Some(m) = sc.method("LinearLocator", "locate_only") {
            use crate::eval::{Machine, V};
            let mut bad = vec![];
            for moved in [false, true] {
                let methods = |recv: &V, name: &str, _a: &[V]| -> Option<V> {
                    match (recv, name) {
                        (V::Enum(r), "locate_inner") if r == "self" => {
                            let new_state = if moved {
                                let mut rec = BTreeMap::new();
                                rec.insert("line_number".to_string(), V::Enum("row of the offset's line".into()));
                                V::Opt(Some(Box::new(V::Rec(rec))))
                            } else {
                                V::Opt(None)
                            };
                            Some(V::Tuple(vec![V::Enum("column".into()), new_state]))
                        }
                        _ => None,
                    }
                };
                let mut mach = Machine::new(&methods);
                let mut cur = BTreeMap::new();
                cur.insert("line_number".to_string(), V::Enum("row of the cursor's line".into()));
                mach.set("self.state", V::Rec(cur));
                mach.set("offset", V::Enum("offset".into()));
                let want_row = if moved { "row of the offset's line" } else { "row of the cursor's line" };
                match mach.eval_fn_body(&m.block) {
                    Ok(V::Rec(r)) => {
                        if r.get("row") != Some(&V::Enum(want_row.into())) || r.get("column") != Some(&V::Enum("column".into())) {
                            bad.push(format!("offset on {} line: result {}", if moved { "a later" } else { "the cursor's" }, crate::eval::show_term(&V::Rec(r))));
                        }
                    }
                    Ok(o) => bad.push(format!("result {}", crate::eval::show_term(&o))),
                    Err(e) => bad.push(format!("not interpretable ({})", e)),
                }
            }
            if bad.is_empty() {
                cx.ok(rule, "locate_only: row of the line the offset lies on (the new state's when the offset is beyond the cursor's line), column as computed");
            } else {
                cx.fail(rule, &format!("{}/locate_only/row", rule), &sc.loc(m), &format!("locate_only does not report (row of the offset's line, column): {}", bad.join("; ")));
            }
        }
    }
    // the end of a line is the position after its WHOLE line break: wherever find_newline's result is turned into a
    // line end, the length of the line ending found (1 for LF / CR, 2 for CR LF) is added -- not a constant
    if let Ok(sc) = sm::load(&cx_repo(), "core/src/source_code.rs") {
        let t = sm::tsc(&sc.file);
        let re_site = regex::Regex::new(r"find_newline\(").unwrap();
        let n_sites = re_site.find_iter(&t).count();
        // `Some((P, E)) => { .. TextSize::new(Pasu32 + E.len()asu32) .. }` (P possibly re-based first)
        let re_ok = regex::Regex::new(r"Some\(\((\w+),(\w+)\)\)=>[\{\(][^{}]*?TextSize::new\(([^;{}]*?)asu32\+(\w+)\.len\(\)asu32\)").unwrap();
        let mentions = |e: &str, v: &str| regex::Regex::new(&format!(r"(^|\W){}($|\W)", regex::escape(v))).unwrap().is_match(e);
        let good = re_ok.captures_iter(&t).filter(|c| mentions(&c[3], &c[1]) && c[2] == c[4]).count();
        if n_sites >= 2 && good == n_sites {
            cx.ok(rule, &format!("{} find_newline sites: line end = break position + length of the line ending found", n_sites));
        } else {
            cx.fail(rule, &format!("{}/line-end-convention", rule), &sc.rel, &format!("{} of {} uses of find_newline in source_code.rs compute the line end as `position + line_ending.len()`: with a constant, the end of a CR LF line points into the line break and rows drift on CRLF input", good, n_sites));
        }
    }
    // locate_only does not move the cursor: body has no assignment to self.state
    if let Ok(sc) = sm::load(&cx_repo(), "core/src/source_code.rs") {
        if let Some(m) = sc.method("LinearLocator", "locate_only") {
            let t = sm::tsx(&m.block);
            if !t.contains("self.state=") && !t.contains("self.state.cursor=") {
                cx.ok(rule, "locate_only leaves the locator state untouched");
            } else {
                cx.fail(rule, &format!("{}/locate_only", rule), &sc.loc(m), "locate_only modifies the locator state");
            }
        }
    }
}

fn cx_repo() -> std::path::PathBuf {
    std::path::PathBuf::from(std::env::var("VERIF_REPO").unwrap_or_else(|_| "/repo".into()))
}

fn line_break_sets(cx: &mut Ctx) {
    let rule = "C13.T1";
    let want: BTreeSet<String> = ["b'\\n'", "b'\\r'"].iter().map(|s| s.to_string()).collect();
    let mut n_needles = 0;
    for rel in ["vendored/src/source_location/newlines.rs", "vendored/src/source_location/line_index.rs", "vendored/src/source_location/mod.rs", "core/src/source_code.rs"] {
        let Ok(src) = sm::load(&cx.repo, rel) else {
            cx.anchor_missing(rule, rel);
            continue;
        };
        let mut calls: Vec<(String, BTreeSet<String>, usize)> = vec![];
        struct V<'a> {
            calls: &'a mut Vec<(String, BTreeSet<String>, usize)>,
        }
        impl<'a, 'ast> syn::visit::Visit<'ast> for V<'a> {
            fn visit_expr_call(&mut self, c: &'ast syn::ExprCall) {
                let f = sm::tsc(&c.func);
                if f.ends_with("memchr2") || f.ends_with("memrchr2") || f.ends_with("memchr") || f.ends_with("memrchr") || f.ends_with("memchr3") {
                    let needles: BTreeSet<String> = c.args.iter().take(c.args.len().saturating_sub(1)).map(|a| sm::tsc(a)).collect();
                    self.calls.push((f, needles, sm::line(c.paren_token.span.open())));
                }
                syn::visit::visit_expr_call(self, c);
            }
        }
        use syn::visit::Visit;
        V { calls: &mut calls }.visit_file(&src.file);
        for (f, needles, line) in calls {
            n_needles += 1;
            if needles == want {
                cx.ok(rule, &format!("{}: {}(LF, CR, ..)", rel, f));
            } else {
                cx.fail(rule, &format!("{}/needles/{}/{}", rule, rel, f), &format!("{}:{}", rel, line), &format!("{} searches for {:?}; its siblings treat exactly LF and CR as line breaks", f, needles));
            }
        }
    }
    // str::lines() knows LF and CR LF only: a lone CR would not be a line break for it
    for rel in ["vendored/src/source_location/newlines.rs", "vendored/src/source_location/line_index.rs", "vendored/src/source_location/mod.rs", "core/src/source_code.rs"] {
        if let Ok(src) = sm::load(&cx.repo, rel) {
            let mut hits: Vec<String> = vec![];
            for it in &src.file.items {
                let is_test = match it {
                    syn::Item::Mod(m) => sm::is_cfg_test(&m.attrs),
                    syn::Item::Fn(f) => sm::is_cfg_test(&f.attrs),
                    _ => false,
                };
                if is_test {
                    continue;
                }
                struct L<'a> {
                    hits: &'a mut Vec<String>,
                }
                impl<'a, 'ast> syn::visit::Visit<'ast> for L<'a> {
                    fn visit_expr_method_call(&mut self, mc: &'ast syn::ExprMethodCall) {
                        if (mc.method == "lines" || mc.method == "split_terminator") && (mc.method == "lines" && mc.args.is_empty() || sm::tsc(&mc.args).contains("'\\n'")) {
                            self.hits.push(format!("{}.{}({})", sm::tsc(&mc.receiver), mc.method, sm::tsc(&mc.args)));
                        }
                        syn::visit::visit_expr_method_call(self, mc);
                    }
                }
                use syn::visit::Visit;
                L { hits: &mut hits }.visit_item(it);
            }
            for h in hits {
                cx.fail(rule, &format!("{}/std-lines/{}", rule, rel), rel, &format!("`{}` splits at LF and CR LF only: a lone CR is a line break for the line index and the lexer but not here, so rows differ on CR-only input", h));
            }
        }
    }
    if n_needles < 3 {
        cx.fail(rule, &format!("{}/needle-sites", rule), "vendored/src/source_location", &format!("{} memchr line-break searches found (3 expected)", n_needles));
    }
    // line index
    if let Ok(li) = sm::load(&cx.repo, "vendored/src/source_location/line_index.rs") {
        if let Some(m) = li.method("LineIndex", "from_source_text") {
            let mut arms: Vec<(String, Option<String>, String)> = vec![];
            sm::for_each_expr_in_block(&m.block, |e| {
                if let syn::Expr::Match(mm) = e {
                    if sm::tsc(&mm.expr) == "byte" {
                        for a in &mm.arms {
                            arms.push((sm::tsc(&a.pat), a.guard.as_ref().map(|g| sm::tsc(&g.1)), sm::tsc(&a.body)));
                        }
                    }
                }
            });
            // the CR of a CR LF pair starts no line: its arm does nothing (`continue` or an empty body; the match is the
            // last statement of the loop body)
            let crlf = arms.iter().any(|(p, g, b)| p == "b'\\r'" && g.as_deref() == Some("bytes.get(i+1)==Some(&b'\\n')") && (b == "continue" || b == "{}" || b == "()"));
            let brk = arms.iter().find(|(_, g, b)| g.is_none() && b.contains("line_starts.push("));
            let brk_set: Option<BTreeSet<String>> = brk.map(|(p, _, _)| p.split('|').map(|s| s.to_string()).collect());
            if crlf && brk_set.as_ref() == Some(&want) && arms.len() == 3 {
                cx.ok(rule, "LineIndex::from_source_text: a line starts after LF or CR; CR LF counted once");
            } else {
                cx.fail(rule, &format!("{}/line-index", rule), &li.loc(m), &format!("the line index starts a new line after {:?} (CR LF folded: {}); its siblings use exactly LF and CR", brk_set, crlf));
            }
            if brk.map_or(false, |(_, _, b)| b.contains("line_starts.push(TextSize::from(iasu32)+TextSize::from(1))") || b.contains("line_starts.push(TextSize::from(iasu32+1))") || b.contains("line_starts.push(TextSize::from((i+1)asu32))")) {
                cx.ok(rule, "a line start is the byte after the line break");
            } else {
                cx.fail(rule, &format!("{}/line-index/start", rule), &li.loc(m), "a line start is not `i + 1`");
            }
        } else {
            cx.anchor_missing(rule, "LineIndex::from_source_text");
        }
    }
    // find_newline classification
    if let Ok(nl) = sm::load(&cx.repo, "vendored/src/source_location/newlines.rs") {
        if let Some(f) = nl.free_fns("find_newline").into_iter().next() {
            let t = sm::tsx(&f.block);
            if t.contains("b'\\n'=>LineEnding::Lf,") && t.contains("b'\\r'ifbytes.get(position.saturating_add(1))==Some(&b'\\n')=>LineEnding::CrLf,") && t.contains("_=>LineEnding::Cr,") {
                cx.ok(rule, "find_newline classifies LF, CR LF and CR");
            } else {
                cx.fail(rule, &format!("{}/find_newline", rule), &nl.loc(f), "find_newline does not classify LF / CR LF / CR");
            }
        }
        // LineEnding lengths
        let t = sm::tsx(&nl.file);
        if t.contains("LineEnding::Lf=>\"\\n\",") && t.contains("LineEnding::CrLf=>\"\\r\\n\",") && t.contains("LineEnding::Cr=>\"\\r\",") {
            cx.ok(rule, "LineEnding::as_str: LF, CR LF, CR");
        } else {
            cx.fail(rule, &format!("{}/line-ending-str", rule), &nl.rel, "LineEnding::as_str does not spell LF / CR LF / CR");
        }
    }
    // lexer
    if let Ok(lx) = sm::load(&cx.repo, "parser/src/lexer.rs") {
        let t = sm::tsx(&lx.file);
        let n1 = t.matches("'\\n'|'\\r'=>{lettok_start=self.get_pos();").count();
        let n2 = t.matches("Some('\\n'|'\\r')").count();
        if n1 == 1 && n2 >= 4 {
            cx.ok(rule, "lexer: the line-break arm and every blank-line/comment stop test use exactly LF | CR");
        } else {
            cx.fail(rule, &format!("{}/lexer", rule), &lx.rel, &format!("the lexer's line-break tests are not uniformly '\\n' | '\\r' ({} arm, {} stop tests)", n1, n2));
        }
    }
}

fn stale_state(cx: &mut Ctx) {
    let rule = "C13.S2";
    let sc = match sm::load(&cx.repo, "core/src/source_code.rs") {
        Ok(s) => s,
        Err(e) => return cx.anchor_missing(rule, &e),
    };
    let Some(m) = sc.method("LinearLocator", "locate_inner") else { return cx.anchor_missing(rule, "LinearLocator::locate_inner") };
    // find `let state = new_state.as_ref().unwrap_or(&self.state);` at the top level, then no `self.state.<line fact>` afterwards
    let mut sel_at = None;
    for (i, s) in m.block.stmts.iter().enumerate() {
        if sm::tsc(s) == "letstate=new_state.as_ref().unwrap_or(&self.state);" {
            sel_at = Some(i);
        }
    }
    let Some(sel) = sel_at else { return cx.fail(rule, &format!("{}/selection", rule), &sc.loc(m), "locate_inner does not select `let state = new_state.as_ref().unwrap_or(&self.state)`") };
    cx.ok(rule, "effective state selected once after the line search");
    let mut stale = vec![];
    for s in &m.block.stmts[sel + 1..] {
        // the debug assertion message may print the cursor; line facts must come from `state`
        let t = sm::tsx(s);
        for fact in ["self.state.is_ascii", "self.state.line_start", "self.state.line_number", "self.state.line_end"] {
            if t.contains(fact) {
                stale.push(fact.to_string());
            }
        }
    }
    if stale.is_empty() {
        cx.ok(rule, "after the selection, line facts are read only through `state`");
    } else {
        cx.fail(rule, &format!("{}/stale-read", rule), &sc.loc(m), &format!("after selecting the effective state, locate_inner still reads {:?}: when the offset moved to another line this is the PREVIOUS line's fact (e.g. its ASCII flag), so columns after multi-byte characters are wrong", stale));
    }
    // locate(): debug_assert cursor <= offset; state replaced or cursor advanced
    if let Some(l) = sc.method("LinearLocator", "locate") {
        let t = sm::tsx(&l.block);
        if t.contains("let(column,new_state)=self.locate_inner(offset);matchnew_state{Some(state)=>self.state=state,_=>self.state.cursor=offset}") {
            cx.ok(rule, "locate(): the state is replaced by the new line's state, or only the cursor advances");
        } else {
            cx.fail(rule, &format!("{}/locate", rule), &sc.loc(l), "locate() does not install the new state / advance the cursor");
        }
    }
    let _ = tables::lit_str;
}


/// C13.B1: a byte order mark is discounted exactly once, at the start of the text.
fn bom_handling(cx: &mut Ctx) {
    let rule = "C13.B1";
    cx.rule(rule, "only a LEADING byte order mark is not a column: every test for U+FEFF (starts_with / strip_prefix / comparison with the BOM literal) in the line index (LineIndex::source_location or a helper) sits, in its own function, under the condition that the line starts at offset 0 (first line), and in the linear locator it occurs only where the initial state is built (LinearLocatorState::init, on the whole source); both locators have exactly one such test, so a U+FEFF anywhere else counts as one column in both");
    cx.floor(rule, 2);
    let bom = |e: &syn::Expr| -> bool {
        let t = sm::tsc(e).to_lowercase();
        t == "'\\u{feff}'" || t == "\"\\u{feff}\""
    };
    let first_line = regex_lite_first_line;
    for (rel, want_fn) in [("vendored/src/source_location/line_index.rs", "source_location"), ("core/src/source_code.rs", "init")] {
        let Ok(src) = sm::load(&cx.repo, rel) else {
            cx.anchor_missing(rule, rel);
            continue;
        };
        let mut sites = 0;
        let mut fns: Vec<(String, &syn::Block, &syn::Signature)> = vec![];
        for f in src.all_free_fns() {
            fns.push((f.sig.ident.to_string(), &f.block, &f.sig));
        }
        for i in src.impls() {
            for it in &i.items {
                if let syn::ImplItem::Fn(f) = it {
                    if !sm::is_cfg_test(&f.attrs) {
                        fns.push((f.sig.ident.to_string(), &f.block, &f.sig));
                    }
                }
            }
        }
        // a helper may receive the first-line condition as a bool parameter: then every call passes such a condition
        let file_text = sm::tsc(&src.file);
        let param_guard = |sig: &syn::Signature, fname: &str, conds: &[String]| -> bool {
            let params: Vec<String> = sig.inputs.iter().filter_map(|a| if let syn::FnArg::Typed(t) = a { if sm::tsc(&t.ty) == "bool" { Some(sm::tsc(&t.pat)) } else { None } } else { None }).collect();
            let all: Vec<String> = sig.inputs.iter().filter_map(|a| if let syn::FnArg::Typed(t) = a { Some(sm::tsc(&t.pat)) } else { None }).collect();
            for p in params {
                if !conds.iter().any(|c| *c == p || c.split("&&").any(|x| x == p)) {
                    continue;
                }
                let idx = all.iter().position(|x| *x == p).unwrap();
                // call sites `fname(a0, a1, ..)` in this file (top-level commas)
                let mut n = 0;
                let mut ok = true;
                let needle = format!("{}(", fname);
                let mut from = 0;
                while let Some(k) = file_text[from..].find(&needle) {
                    let start = from + k;
                    from = start + needle.len();
                    let before = file_text[..start].chars().last();
                    if before.map_or(false, |c| c.is_alphanumeric() || c == '_') || file_text[..start].ends_with("fn") {
                        continue;
                    }
                    let mut depth = 0i32;
                    let mut args = vec![String::new()];
                    for ch in file_text[from..].chars() {
                        match ch {
                            '(' | '[' | '{' => depth += 1,
                            ')' | ']' | '}' if depth == 0 => break,
                            ')' | ']' | '}' => depth -= 1,
                            ',' if depth == 0 => {
                                args.push(String::new());
                                continue;
                            }
                            _ => {}
                        }
                        args.last_mut().unwrap().push(ch);
                    }
                    n += 1;
                    if !args.get(idx).map_or(false, |a| regex_lite_first_line(a)) {
                        ok = false;
                    }
                }
                if n >= 1 && ok {
                    return true;
                }
            }
            false
        };
        for (fname, block, sig) in fns {
            sm::for_each_expr_with_conds(block, &mut |e, conds| {
                // a test: a method call / comparison with the BOM literal as an argument or operand
                let (is_test, what) = match e {
                    syn::Expr::MethodCall(mc) if mc.args.iter().any(|a| bom(a)) => (true, format!("{}.{}(BOM)", sm::tsc(&mc.receiver), mc.method)),
                    syn::Expr::Binary(b) if matches!(b.op, syn::BinOp::Eq(_) | syn::BinOp::Ne(_)) && (bom(&b.left) || bom(&b.right) || sm::tsc(&b.left).to_lowercase().contains("some('\\u{feff}')") || sm::tsc(&b.right).to_lowercase().contains("some('\\u{feff}')")) => (true, sm::tsc(e)),
                    _ => (false, String::new()),
                };
                if !is_test {
                    return;
                }
                sites += 1;
                if fname != want_fn && want_fn == "init" {
                    cx.fail(rule, &format!("{}/{}/{}/where", rule, rel, fname), &src.loc(e), &format!("{}: `{}` tests for a BOM outside {} — a U+FEFF that is not at the start of the text would be discounted", fname, what, want_fn));
                    return;
                }
                if want_fn == "source_location" {
                    // (also in a helper of source_location: the first-line condition must then sit in the helper itself)
                    // own condition (the `if` whose condition contains this test) or an enclosing one must pin the first line
                    let own = enclosing_if_cond(block, e);
                    let mut cs: Vec<String> = conds.to_vec();
                    cs.extend(own.clone());
                    let guarded = cs.iter().any(|c| first_line(c)) || param_guard(sig, &fname, &cs);
                    if guarded {
                        cx.ok(rule, &format!("{}: `{}` only for the line that starts at offset 0", fname, what));
                    } else {
                        cx.fail(rule, &format!("{}/{}/first-line", rule, rel), &src.loc(e), &format!("{}: `{}` is not restricted to the line starting at offset 0: a U+FEFF at the start of a later line (or of a slice) is not counted as a column, and the two locators disagree", fname, what));
                    }
                } else {
                    let recv_ok = matches!(e, syn::Expr::MethodCall(mc) if sm::tsc(&mc.receiver) == "source");
                    if recv_ok {
                        cx.ok(rule, &format!("{}: `{}` on the whole source, once, when the initial state is built", fname, what));
                    } else {
                        cx.fail(rule, &format!("{}/{}/whole-source", rule, rel), &src.loc(e), &format!("{}: `{}` is not a test on the whole source text", fname, what));
                    }
                }
            });
        }
        if sites != 1 {
            cx.fail(rule, &format!("{}/{}/sites", rule, rel), rel, &format!("{} BOM tests found in {}, expected exactly 1 (in {})", sites, rel, want_fn));
        }
    }
}

fn regex_lite_first_line(c: &str) -> bool {
    // `line_start == 0` in any of its spellings, not negated
    if c.starts_with('!') {
        return false;
    }
    for lhs in ["line_start", "row", "u32::from(line_start)", "line_start.to_u32()", "usize::from(line_start)"] {
        for rhs in ["TextSize::from(0)", "TextSize::default()", "TextSize::new(0)", "0.into()", "0"] {
            for (a, b) in [(lhs, rhs), (rhs, lhs)] {
                let pat = format!("{}=={}", a, b);
                if let Some(i) = c.find(&pat) {
                    let after = c[i + pat.len()..].chars().next();
                    let before = c[..i].chars().last();
                    let ok_after = after.map_or(true, |ch| !(ch.is_alphanumeric() || ch == '_' || ch == '.'));
                    let ok_before = before.map_or(true, |ch| !(ch.is_alphanumeric() || ch == '_' || ch == '.'));
                    // must be a conjunct: no `||` at the top level of the condition
                    if ok_after && ok_before && !c.contains("||") {
                        return true;
                    }
                }
            }
        }
    }
    false
}

/// The condition of the innermost `if` whose condition contains `target`.
fn enclosing_if_cond(block: &syn::Block, target: &syn::Expr) -> Option<String> {
    let want = target as *const syn::Expr;
    let mut found = None;
    sm::for_each_expr_in_block(block, |e| {
        if let syn::Expr::If(i) = e {
            let mut inside = false;
            sm::for_each_expr(&i.cond, |x| {
                if std::ptr::eq(x as *const syn::Expr, want) {
                    inside = true;
                }
            });
            if inside {
                found = Some(sm::tsc(&i.cond));
            }
        }
    });
    found
}
