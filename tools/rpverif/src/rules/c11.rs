//! C11 — precedence and spelling agreement between the unparser and the grammar, for every (parent, child position).

use crate::grammar::{self, Grammar, SymKind};
use crate::report::Ctx;
use crate::srcmodel::{self as sm, Src};
use crate::tables;
use std::collections::{BTreeMap, BTreeSet};

#[derive(Debug, Clone)]
struct Site {
    func: String,
    arm: String,          // Expr variant or "" outside unparse_expr
    child: String,        // compact text of the child expression
    level: Option<syn::Expr>, // None = Display (`{}`), i.e. TEST
    line: usize,
}

struct Walker {
    sites: Vec<Site>,
    groups: Vec<(String, syn::Expr)>, // (arm, group level)
    optables: BTreeMap<String, Vec<(String, String, String)>>, // arm -> (variant, spelling, PREC)
    lets: BTreeMap<String, BTreeMap<String, syn::Expr>>, // arm -> local -> init
    prints: Vec<(String, syn::Expr)>, // (arm, argument of self.p(..))
    func: String,
    arm: String,
    /// private helper methods that are not part of the reviewed decomposition: a call is walked in place
    helpers: BTreeMap<String, syn::ImplItemFn>,
    /// parameter -> argument, while walking a helper in place
    subst: BTreeMap<String, syn::Expr>,
    depth: usize,
}

struct GroupIf {
    lvl: syn::Expr,
    body: syn::Block,
}
impl syn::parse::Parse for GroupIf {
    fn parse(input: syn::parse::ParseStream) -> syn::Result<Self> {
        let lvl: syn::Expr = input.parse()?;
        input.parse::<syn::Token![,]>()?;
        let body: syn::Block = input.parse()?;
        Ok(GroupIf { lvl, body })
    }
}

impl Walker {
    fn stmts(&mut self, stmts: &[syn::Stmt]) {
        for s in stmts {
            match s {
                syn::Stmt::Local(l) => {
                    if let Some(i) = &l.init {
                        let mut ids = vec![];
                        sm::pat_idents(&l.pat, &mut ids);
                        if ids.len() == 1 {
                            self.lets.entry(self.arm.clone()).or_default().insert(ids[0].clone(), (*i.expr).clone());
                        }
                        self.expr(&i.expr);
                    }
                }
                syn::Stmt::Expr(e, _) => self.expr(e),
                syn::Stmt::Macro(m) => self.mac(&m.mac, sm::line(m.mac.path.segments[0].ident.span())),
                _ => {}
            }
        }
    }

    fn mac(&mut self, m: &syn::Macro, line: usize) {
        let name = sm::tsc(&m.path);
        match name.as_str() {
            "group_if" => {
                if let Ok(g) = m.parse_body::<GroupIf>() {
                    self.groups.push((self.arm.clone(), g.lvl.clone()));
                    self.stmts(&g.body.stmts);
                }
            }
            "op_prec" => {
                // op_prec!(bin|un, op, Enum, Var("sp", PREC), ...)
                let toks = sm::tsc(&m.tokens);
                let mut entries = vec![];
                let mut rest = toks.as_str();
                while let Some(p) = rest.find("(\"") {
                    // variant name precedes '('
                    let before = &rest[..p];
                    let var: String = before.chars().rev().take_while(|c| c.is_alphanumeric()).collect::<String>().chars().rev().collect();
                    let after = &rest[p + 2..];
                    let q = after.find('"').unwrap_or(0);
                    let sp = after[..q].to_string();
                    let tail = &after[q + 1..];
                    let prec: String = tail.trim_start_matches(',').chars().take_while(|c| c.is_alphanumeric() || *c == '_').collect();
                    entries.push((var, sp, prec));
                    rest = &after[q + 1..];
                }
                self.optables.insert(self.arm.clone(), entries);
            }
            "write" => {
                if let Ok(args) = m.parse_body_with(syn::punctuated::Punctuated::<syn::Expr, syn::Token![,]>::parse_terminated) {
                    let args: Vec<syn::Expr> = args.into_iter().collect();
                    if args.len() >= 2 {
                        let fmt = tables::lit_str(&args[1]).unwrap_or_default();
                        // inline `{name}` captures
                        let mut inline = vec![];
                        let mut i = 0;
                        let b: Vec<char> = fmt.chars().collect();
                        let mut positional = 0;
                        while i < b.len() {
                            if b[i] == '{' {
                                if i + 1 < b.len() && b[i + 1] == '{' {
                                    i += 2;
                                    continue;
                                }
                                let mut j = i + 1;
                                let mut nm = String::new();
                                while j < b.len() && b[j] != '}' {
                                    nm.push(b[j]);
                                    j += 1;
                                }
                                if nm.is_empty() {
                                    positional += 1;
                                } else {
                                    inline.push(nm);
                                }
                                i = j;
                            }
                            i += 1;
                        }
                        for a in args.iter().skip(2).take(positional) {
                            self.sites.push(Site { func: self.func.clone(), arm: self.arm.clone(), child: sm::tsc(a), level: None, line });
                        }
                        for nm in inline {
                            self.sites.push(Site { func: self.func.clone(), arm: self.arm.clone(), child: nm, level: None, line });
                        }
                    }
                }
            }
            _ => {}
        }
    }

    fn expr(&mut self, e: &syn::Expr) {
        match e {
            syn::Expr::Macro(m) => self.mac(&m.mac, sm::line(m.mac.path.segments[0].ident.span())),
            syn::Expr::Try(t) => self.expr(&t.expr),
            syn::Expr::Paren(p) => self.expr(&p.expr),
            syn::Expr::Block(b) => self.stmts(&b.block.stmts),
            syn::Expr::If(i) => {
                self.expr(&i.cond);
                self.stmts(&i.then_branch.stmts);
                if let Some((_, el)) = &i.else_branch {
                    self.expr(el);
                }
            }
            syn::Expr::ForLoop(f) => self.stmts(&f.body.stmts),
            syn::Expr::Match(m) => {
                for a in &m.arms {
                    self.expr(&a.body);
                }
            }
            syn::Expr::Let(l) => self.expr(&l.expr),
            syn::Expr::MethodCall(mc) => {
                if mc.method == "p" && sm::tsc(&mc.receiver) == "self" && mc.args.len() == 1 {
                    self.prints.push((self.arm.clone(), mc.args[0].clone()));
                }
                if mc.method == "unparse_expr" && sm::tsc(&mc.receiver) == "self" && mc.args.len() == 2 {
                    let lvl = match sm::as_ident(&mc.args[1]).and_then(|i| self.subst.get(&i).cloned()) {
                        Some(arg) => arg,
                        None => mc.args[1].clone(),
                    };
                    self.sites.push(Site { func: self.func.clone(), arm: self.arm.clone(), child: sm::tsc(&mc.args[0]), level: Some(lvl), line: sm::line(mc.method.span()) });
                }
                if sm::tsc(&mc.receiver) == "self" && self.depth < 2 {
                    if let Some(h) = self.helpers.get(&mc.method.to_string()).cloned() {
                        let params: Vec<String> = h.sig.inputs.iter().filter_map(|a| if let syn::FnArg::Typed(pt) = a { Some(sm::tsc(&pt.pat)) } else { None }).collect();
                        let saved = self.subst.clone();
                        for (pn, a) in params.iter().zip(mc.args.iter()) {
                            self.subst.insert(pn.clone(), a.clone());
                        }
                        self.depth += 1;
                        self.stmts(&h.block.stmts);
                        self.depth -= 1;
                        self.subst = saved;
                    }
                }
                self.expr(&mc.receiver);
                for a in &mc.args {
                    self.expr(a);
                }
            }
            syn::Expr::Call(c) => {
                for a in &c.args {
                    self.expr(a);
                }
            }
            syn::Expr::Closure(c) => self.expr(&c.body),
            _ => {}
        }
    }
}

fn eval_level(e: &syn::Expr, levels: &BTreeMap<String, i64>, env: &BTreeMap<String, i64>, lets: &BTreeMap<String, syn::Expr>, depth: usize) -> Option<i64> {
    if depth > 5 {
        return None;
    }
    match e {
        syn::Expr::Paren(p) => eval_level(&p.expr, levels, env, lets, depth),
        syn::Expr::Path(p) => {
            let t = sm::tsx(&p.path);
            if let Some(n) = t.strip_prefix("precedence::") {
                return levels.get(n).copied();
            }
            if let Some(v) = env.get(&t.text) {
                return Some(*v);
            }
            if let Some(d) = lets.get(&t.text) {
                return eval_level(d, levels, env, lets, depth + 1);
            }
            None
        }
        syn::Expr::Lit(l) => {
            if let syn::Lit::Int(i) = &l.lit {
                i.base10_parse().ok()
            } else {
                None
            }
        }
        syn::Expr::Binary(b) => {
            let l = eval_level(&b.left, levels, env, lets, depth)?;
            let r = eval_level(&b.right, levels, env, lets, depth)?;
            match b.op {
                syn::BinOp::Add(_) => Some(l + r),
                syn::BinOp::Sub(_) => Some(l - r),
                _ => None,
            }
        }
        syn::Expr::Cast(c) => eval_level(&c.expr, levels, env, lets, depth),
        syn::Expr::Unary(u) if matches!(u.op, syn::UnOp::Not(_)) => eval_level(&u.expr, levels, env, lets, depth).map(|v| 1 - v),
        _ => None,
    }
}

pub fn run(cx: &mut Ctx) {
    let up = match sm::load(&cx.repo, "ast/src/unparse.rs") {
        Ok(s) => s,
        Err(e) => return cx.anchor_missing("C11", &e),
    };
    let g = match tables::load_grammar(&cx.repo) {
        Ok(g) => g,
        Err(e) => return cx.anchor_missing("C11", &e),
    };
    // the precedence rules read the grammar: python.rs must be what that grammar generates
    crate::g1::run(cx, "C11.G1");
    crate::rules::grammar_rules::expr_wiring(cx, &g, "C11.E1");
    let refd = match tables::refdata(&cx.verif, "unparse_positions.json") {
        Ok(v) => v,
        Err(e) => return cx.anchor_missing("C11", &e),
    };
    cx.refdata.insert("unparse_positions.json".into());
    cx.rule("C11.P0", "the unparser's precedence constants are consecutive and in the order of the grammar's expression chain (read from the grammar's pass-through alternatives: Test > OrTest > AndTest > NotTest > Comparison > Expression > XorExpression > AndExpression > ShiftExpression > ArithmeticExpression > Term > Factor > Power > AtomExpr > AtomExpr2 > Atom)");
    cx.rule("C11.P1", "every expression kind is grouped (parenthesised when the context level is higher) at a level <= the level of the nonterminal whose alternative builds it, so it is never rendered bare where the grammar cannot derive it");
    cx.rule("C11.P2", "for every child position the level the unparser passes down is >= the level of the nonterminal the grammar requires there (the parenthesised atom returns its inner node, so every position can hold any expression); children rendered through Display count as TEST; every unparse_expr call / Display use outside the f-string helpers is classified in the position table, and every table entry's grammar witness still exists");
    cx.rule("C11.P3", "binary operators pass their own level to the operand on the side on which the grammar is recursive (left for all but **) and the next level to the other side");
    cx.rule("C11.S1", "operator spellings in op_prec! and CmpOp::as_str equal the Python 3.11 spellings of the same AST tags");
    cx.rule("C11.X1", "unparse_expr matches Expr exhaustively, one arm per variant, without a wildcard");
    cx.floor("C11.P0", 15);
    cx.floor("C11.P1", 20);
    cx.floor("C11.P2", 60);
    cx.floor("C11.P3", 13);
    cx.floor("C11.S1", 29);
    cx.floor("C11.X1", 27);
    delimiter_flags(cx, &up);

    // ---- levels from the precedence! invocation
    let mut levels: BTreeMap<String, i64> = BTreeMap::new();
    for it in &up.file.items {
        if let syn::Item::Mod(m) = it {
            if m.ident == "precedence" {
                if let Some((_, items)) = &m.content {
                    for i2 in items {
                        if let syn::Item::Macro(mm) = i2 {
                            if mm.mac.path.is_ident("precedence") {
                                let mut n = 0;
                                for tt in mm.mac.tokens.clone() {
                                    if let proc_macro2::TokenTree::Ident(id) = tt {
                                        levels.insert(id.to_string(), n);
                                        n += 1;
                                    }
                                }
                            }
                        }
                    }
                    for i2 in items {
                        if let syn::Item::Const(c) = i2 {
                            if let Some(v) = levels.get(&sm::tsc(&c.expr)).copied() {
                                levels.insert(c.ident.to_string(), v);
                            }
                        }
                    }
                }
            }
        }
    }
    if levels.len() < 16 {
        return cx.anchor_missing("C11.P0", "precedence!(..) table in ast/src/unparse.rs");
    }
    // ---- chain from the grammar
    let chain: Vec<(String, String)> = refd["chain"].as_array().unwrap().iter().map(|p| (p[0].as_str().unwrap().to_string(), p[1].as_str().unwrap().to_string())).collect();
    let mut nt_level: BTreeMap<String, i64> = BTreeMap::new();
    for (i, (nt, lv)) in chain.iter().enumerate() {
        let Some(l) = levels.get(lv).copied() else {
            cx.fail("C11.P0", &format!("C11.P0/level/{}", lv), &up.rel, &format!("no precedence constant {}", lv));
            continue;
        };
        nt_level.insert(nt.clone(), l);
        if i + 1 < chain.len() {
            let next = &chain[i + 1].0;
            let passes = g.def(nt).map_or(false, |d| {
                d.alts.iter().any(|a| a.action.is_none() && a.syms.len() == 1 && matches!(&a.syms[0].kind, SymKind::Name(n) | SymKind::Macro(n, _) if n == next))
            });
            let next_level = levels.get(&chain[i + 1].1).copied().unwrap_or(-1);
            if passes && next_level == l + 1 {
                cx.ok("C11.P0", &format!("{} ({}={}) falls through to {} ({}={})", nt, lv, l, next, chain[i + 1].1, next_level));
            } else {
                cx.fail("C11.P0", &format!("C11.P0/chain/{}", nt), "parser/src/python.lalrpop", &format!("{} does not fall through to {} or the unparser levels {}={} / {}={} are not consecutive", nt, next, lv, l, chain[i + 1].1, next_level));
            }
        }
    }
    nt_level.insert("Atom".into(), levels["ATOM"]);
    if levels.get("EXPR") == levels.get("BOR") && levels.get("TUPLE") == Some(&0) && levels.get("TEST") == Some(&1) {
        cx.ok("C11.P0", "EXPR = BOR, TUPLE = 0 < TEST = 1");
    } else {
        cx.fail("C11.P0", "C11.P0/aliases", &up.rel, "EXPR != BOR or TUPLE/TEST are not the two lowest levels");
    }

    // ---- walk the unparser
    let mut w = Walker { sites: vec![], groups: vec![], optables: BTreeMap::new(), lets: BTreeMap::new(), prints: vec![], func: String::new(), arm: String::new(), helpers: BTreeMap::new(), subst: BTreeMap::new(), depth: 0 };
    // helper methods introduced after the review (not in refdata/private_fns.json) are walked at their call sites
    let reviewed: BTreeSet<String> = tables::refdata(&cx.verif, "private_fns.json").ok().and_then(|v| v.get("ast/src/unparse.rs").and_then(|a| a.as_array().map(|a| a.iter().filter_map(|r| r.get(1).and_then(|n| n.as_str()).map(|n| n.to_string())).collect()))).unwrap_or_default();
    if !reviewed.is_empty() {
        for i in up.impls() {
            if sm::self_ty_name(i) != "Unparser" {
                continue;
            }
            for it in &i.items {
                if let syn::ImplItem::Fn(f) = it {
                    let n = f.sig.ident.to_string();
                    if !reviewed.contains(&n) && !matches!(f.vis, syn::Visibility::Public(_)) {
                        w.helpers.insert(n, f.clone());
                    }
                }
            }
        }
    }
    let skip_fns: BTreeSet<&str> = ["unparse_formatted", "unparse_fstring_body", "unparse_fstring_elem", "unparse_fstring_str", "unparse_joined_str", "unparse_python_arguments", "new", "p", "p_id", "p_if", "p_delim", "write_fmt"].into_iter().collect();
    let mut arms_seen: Vec<String> = vec![];
    let mut wildcard = false;
    for i in up.impls() {
        if sm::self_ty_name(i) != "Unparser" {
            continue;
        }
        for it in &i.items {
            let syn::ImplItem::Fn(f) = it else { continue };
            let fname = f.sig.ident.to_string();
            if skip_fns.contains(fname.as_str()) || w.helpers.contains_key(&fname) {
                continue;
            }
            w.func = fname.clone();
            if fname == "unparse_expr" {
                for s in &f.block.stmts {
                    if let syn::Stmt::Expr(syn::Expr::Match(m), _) = s {
                        for arm in &m.arms {
                            let pt = sm::tsc(&arm.pat);
                            if pt == "_" {
                                wildcard = true;
                                continue;
                            }
                            let var: String = pt.trim_start_matches("Expr::").chars().take_while(|c| c.is_alphanumeric()).collect();
                            arms_seen.push(var.clone());
                            w.arm = var;
                            w.expr(&arm.body);
                        }
                    }
                }
            } else {
                w.arm = String::new();
                w.stmts(&f.block.stmts);
            }
        }
    }
    // X1
    if let Ok(generic) = sm::load(&cx.repo, "ast/src/gen/generic.rs") {
        let model = crate::astmodel::load(&generic);
        if let Some(en) = model.enums.get("Expr") {
            for (v, _) in &en.variants {
                let n = arms_seen.iter().filter(|a| *a == v).count();
                if n == 1 {
                    cx.ok("C11.X1", &format!("arm for Expr::{}", v));
                } else {
                    cx.fail("C11.X1", &format!("C11.X1/{}", v), &up.rel, &format!("{} arms for Expr::{}", n, v));
                }
            }
        }
    }
    if wildcard {
        cx.fail("C11.X1", "C11.X1/wildcard", &up.rel, "unparse_expr has a wildcard arm");
    }

    // ---- S1 spellings
    if let Ok(ops) = tables::refdata(&cx.verif, "py311_ops.json") {
        cx.refdata.insert("py311_ops.json".into());
        let inv = |m: &serde_json::Value| -> BTreeMap<String, String> { tables::str_map(m).into_iter().map(|(k, v)| (v, k)).collect() };
        let tabs: [(&str, BTreeMap<String, String>); 3] = [("BinOp", inv(&ops["binop"])), ("UnaryOp", inv(&ops["unaryop"])), ("BoolOp", inv(&ops["boolop"]))];
        for (arm, want) in tabs {
            let got = w.optables.get(arm).cloned().unwrap_or_default();
            for (tag, sp) in &want {
                match got.iter().find(|(v, _, _)| v == tag) {
                    Some((_, s, _)) if s.trim() == sp => cx.ok("C11.S1", &format!("{}::{} spelled `{}`", arm, tag, sp)),
                    other => cx.fail("C11.S1", &format!("C11.S1/{}/{}", arm, tag), &up.rel, &format!("{}::{} is spelled {:?} by the unparser, Python spells it `{}`", arm, tag, other.map(|x| x.1.clone()), sp)),
                }
            }
            if got.len() != want.len() {
                cx.fail("C11.S1", &format!("C11.S1/{}/count", arm), &up.rel, &format!("{} operators in op_prec! for {}, {} in the reference", got.len(), arm, want.len()));
            }
        }
        // CmpOp::as_str
        if let Ok(gen) = sm::load(&cx.repo, "ast/src/generic.rs") {
            let want = inv(&ops["cmpop"]);
            let mut got = BTreeMap::new();
            if let Some(m) = gen.method("CmpOp", "as_str") {
                sm::for_each_expr_in_block(&m.block, |e| {
                    if let syn::Expr::Match(mm) = e {
                        for arm in &mm.arms {
                            if let Some(s) = tables::lit_str(sm::unblock(&arm.body)) {
                                got.insert(sm::tsc(&arm.pat).trim_start_matches("CmpOp::").to_string(), s);
                            }
                        }
                    }
                });
            }
            for (tag, sp) in &want {
                match got.get(tag) {
                    Some(s) if s == sp => cx.ok("C11.S1", &format!("CmpOp::{} spelled `{}`", tag, sp)),
                    other => cx.fail("C11.S1", &format!("C11.S1/CmpOp/{}", tag), &gen.rel, &format!("CmpOp::{} is spelled {:?}, Python spells it `{}`", tag, other, sp)),
                }
            }
        }
    }

    // ---- witnesses + P2
    let witness_ok = |g: &Grammar, wit: &serde_json::Value| -> bool {
        let d = wit[0].as_str().unwrap_or("");
        let frag = wit[1].as_str().unwrap_or("");
        let Some(def) = g.def(d) else { return false };
        def.alts.iter().any(|a| {
            let syms = a.syms.iter().map(grammar::sym_text).collect::<Vec<_>>().join(" ");
            let code = a.action.as_ref().map(|x| x.code.clone()).unwrap_or_default();
            syms.contains(frag) || code.contains(frag)
        })
    };
    let mut used_sites: BTreeSet<usize> = BTreeSet::new();
    // The table names a position by the text of the rendered child (`arg`, `&kw.value`). When a local was merely
    // renamed, the children of an arm that the table does not know pair up, in source order, with the table's
    // children of that arm that have no site: same number of positions, same order => same positions.
    let mut alias: BTreeMap<(String, String, String), String> = BTreeMap::new();
    {
        let mut table_order: Vec<((String, String), Vec<String>)> = vec![];
        for pos in refd["positions"].as_array().unwrap() {
            let k = (pos["fn"].as_str().unwrap_or("unparse_expr").to_string(), pos["arm"].as_str().unwrap_or("").to_string());
            let c = pos["child"].as_str().unwrap_or("").to_string();
            match table_order.iter_mut().find(|(kk, _)| *kk == k) {
                Some((_, v)) => {
                    if !v.contains(&c) {
                        v.push(c);
                    }
                }
                None => table_order.push((k, vec![c])),
            }
        }
        for ((func, arm), tchildren) in table_order {
            let mut schildren: Vec<String> = vec![];
            for st in w.sites.iter().filter(|st| st.func == func && st.arm == arm) {
                if !schildren.contains(&st.child) {
                    schildren.push(st.child.clone());
                }
            }
            let t_un: Vec<&String> = tchildren.iter().filter(|c| !schildren.contains(c)).collect();
            let s_un: Vec<&String> = schildren.iter().filter(|c| !tchildren.contains(c)).collect();
            if !t_un.is_empty() && t_un.len() == s_un.len() {
                // a renamed child keeps its shape: `&kw.value` may become `&keyword.value`, not `other`
                let shape = |x: &str| -> String { regex::Regex::new(r"[A-Za-z_][A-Za-z_0-9]*").unwrap().replace(x, "_").to_string() };
                if t_un.iter().zip(&s_un).all(|(a, b)| shape(a) == shape(b)) {
                    for (a, b) in t_un.iter().zip(&s_un) {
                        alias.insert((func.clone(), arm.clone(), (*a).clone()), (*b).clone());
                    }
                }
            }
        }
    }
    let cases_for = |arm: &str, w: &Walker| -> Vec<(String, String)> { w.optables.get(arm).map(|v| v.iter().map(|(var, _, p)| (var.clone(), p.clone())).collect()).unwrap_or_default() };
    for pos in refd["positions"].as_array().unwrap() {
        let arm = pos["arm"].as_str().unwrap_or("");
        let func = pos["fn"].as_str().unwrap_or("unparse_expr");
        let child = pos["child"].as_str().unwrap();
        let nt = pos["nt"].as_str().unwrap();
        let case = pos["case"].as_str();
        let key = format!("C11.P2/{}{}/{}", if arm.is_empty() { func } else { arm }, case.map(|c| format!("[{}]", c)).unwrap_or_default(), child);
        if !witness_ok(&g, &pos["witness"]) {
            cx.fail("C11.P2", &format!("{}/witness", key), "parser/src/python.lalrpop", &format!("the grammar witness {} for this position no longer exists: the position table must be reviewed (fail closed)", pos["witness"]));
            continue;
        }
        let required = if pos["tuple_ok"].as_bool() == Some(true) { levels["TUPLE"] } else { *nt_level.get(nt).unwrap_or(&99) };
        let site_child: &str = alias.get(&(func.to_string(), arm.to_string(), child.to_string())).map(|x| x.as_str()).unwrap_or(child);
        let sites: Vec<(usize, &Site)> = w.sites.iter().enumerate().filter(|(_, s)| s.func == func && s.arm == arm && s.child == site_child).collect();
        if sites.is_empty() {
            cx.fail("C11.P2", &format!("{}/site-missing", key), &up.rel, &format!("no `unparse_expr({}, ..)` / Display use of `{}` in {}: the position table is out of date (fail closed)", child, child, if arm.is_empty() { func } else { arm }));
            continue;
        }
        for (ix, s) in sites {
            used_sites.insert(ix);
            let mut env: BTreeMap<String, i64> = BTreeMap::new();
            if let Some(c) = case {
                let prec_name = cases_for(arm, &w).into_iter().find(|(v, _)| v == c).map(|(_, p)| p);
                match prec_name.and_then(|p| levels.get(&p).copied()) {
                    Some(p) => {
                        env.insert("prec".into(), p);
                    }
                    None => {
                        cx.fail("C11.P2", &format!("{}/case", key), &up.rel, &format!("operator {} has no op_prec! entry", c));
                        continue;
                    }
                }
                env.insert("right_associative".into(), (c == "Pow") as i64);
            }
            let empty = BTreeMap::new();
            let lets = w.lets.get(arm).unwrap_or(&empty);
            let passed = match &s.level {
                None => Some(levels["TEST"]),
                Some(e) => eval_level(e, &levels, &env, lets, 0),
            };
            match passed {
                None => cx.fail("C11.P2", &format!("{}/level-unknown", key), &format!("{}:{}", up.rel, s.line), &format!("cannot evaluate the level expression `{}`", s.level.as_ref().map(|e| sm::tsc(e)).unwrap_or_default())),
                Some(p) if p >= required => cx.ok("C11.P2", &format!("{}: passes level {} >= {} required by {}", key.trim_start_matches("C11.P2/"), p, required, nt)),
                Some(p) => cx.fail("C11.P2", &key, &format!("{}:{}", up.rel, s.line), &format!("child `{}` is rendered at level {} but the grammar requires {} (level {}) there: an operand of lower precedence is printed without parentheses and does not parse back", child, p, nt, required)),
            }
            // P3 for binary operators
            if arm == "BinOp" {
                if let (Some(c), Some(p)) = (case, passed) {
                    let own = env["prec"];
                    let right_assoc = c == "Pow";
                    let want = if (child == "left") != right_assoc { own } else { own + 1 };
                    if p == want {
                        cx.ok("C11.P3", &format!("{} {}: level {}", c, child, p));
                    } else if p < want {
                        cx.fail("C11.P3", &format!("C11.P3/{}/{}", c, child), &format!("{}:{}", up.rel, s.line), &format!("{} operand of {} is rendered at level {}, associativity requires {}", child, c, p, want));
                    } else {
                        cx.ok_trivial("C11.P3");
                    }
                }
            }
        }
    }
    // unclassified sites
    for (ix, s) in w.sites.iter().enumerate() {
        if used_sites.contains(&ix) {
            continue;
        }
        // Display of non-expression values (identifiers, constants) are not positions
        if s.level.is_none() && (s.child == "value" && s.arm == "Constant" || s.child == "default" && s.func == "unparse_python_arguments") {
            continue;
        }
        cx.fail("C11.P2", &format!("C11.P2/unclassified/{}{}/{}", s.func, if s.arm.is_empty() { String::new() } else { format!("/{}", s.arm) }, s.child), &format!("{}:{}", up.rel, s.line), &format!("child `{}` is rendered here but this position is not in the position table (refdata/unparse_positions.json): classify it", s.child));
    }

    // ---- P1 grouping levels
    let built = refd["built_at"].as_object().unwrap();
    for (k, v) in built {
        let (arm, case) = match k.split_once('/') {
            Some((a, c)) => (a, Some(c)),
            None => (k.as_str(), None),
        };
        if !witness_ok(&g, &v["witness"]) {
            cx.fail("C11.P1", &format!("C11.P1/{}/witness", k), "parser/src/python.lalrpop", &format!("the grammar witness {} no longer exists (fail closed)", v["witness"]));
            continue;
        }
        let nt = v["nt"].as_str().unwrap();
        let required = *nt_level.get(nt).unwrap_or(&-1);
        let mut env: BTreeMap<String, i64> = BTreeMap::new();
        if let Some(c) = case {
            if let Some(p) = cases_for(arm, &w).into_iter().find(|(vv, _)| vv == c).and_then(|(_, p)| levels.get(&p).copied()) {
                env.insert("prec".into(), p);
            }
        }
        let empty = BTreeMap::new();
        let lets = w.lets.get(arm).unwrap_or(&empty);
        let gl: Vec<i64> = w.groups.iter().filter(|(a, _)| a == arm).filter_map(|(_, e)| eval_level(e, &levels, &env, lets, 0)).collect();
        if gl.len() != 1 {
            cx.fail("C11.P1", &format!("C11.P1/{}/group", k), &up.rel, &format!("{} group_if! levels found for {} (1 expected)", gl.len(), k));
            continue;
        }
        if gl[0] <= required {
            cx.ok("C11.P1", &format!("{} grouped at level {} <= {} ({})", k, gl[0], required, nt));
        } else {
            cx.fail("C11.P1", &format!("C11.P1/{}", k), &up.rel, &format!("{} is parenthesised only above level {} but the grammar builds it at {} (level {}): it is rendered bare in positions that cannot derive it", k, gl[0], nt, required));
        }
    }
    // NamedExpr and Tuple group at TUPLE
    for arm in ["NamedExpr", "Tuple"] {
        let gl: Vec<i64> = w.groups.iter().filter(|(a, _)| a == arm).filter_map(|(_, e)| eval_level(e, &levels, &BTreeMap::new(), &BTreeMap::new(), 0)).collect();
        if gl == vec![levels["TUPLE"]] {
            cx.ok("C11.P1", &format!("{} is parenthesised everywhere except at TUPLE level", arm));
        } else {
            cx.fail("C11.P1", &format!("C11.P1/{}", arm), &up.rel, &format!("{} is grouped at {:?}, expected only TUPLE", arm, gl));
        }
    }
    // Display = TEST
    let t = sm::tsx(&up.file);
    if t.contains("impl<U>fmt::DisplayforExpr<U>{fnfmt(&self,f:&mutfmt::Formatter<'_>)->fmt::Result{Unparser::new(f).unparse_expr(self,precedence::TEST)}}") {
        cx.ok("C11.P2", "Display for Expr renders at TEST");
    } else {
        cx.fail("C11.P2", "C11.P2/display-level", &up.rel, "Display for Expr does not render at precedence::TEST");
    }
    let _ = Src::loc::<syn::Expr>;
    lexical_rules(cx, &up, &w);
    crate::rules::float_rules::exact_integer_test(cx, "C11.N1");
    every_field_on_every_path(cx, &up);
    infinite_constants(cx, &up);
    // string / bytes constants are written by the escape module: its layout must announce the length it writes
    crate::rules::c16::escape_layout_rules(cx, "C11");
}

/// C11.K1 / F1 / F2: the rendering is re-lexed into the tokens that were meant.
fn lexical_rules(cx: &mut Ctx, up: &Src, w: &Walker) {
    let rule = "C11.K1";
    cx.rule(rule, "word tokens stay separate: (a) the only string pieces the unparser writes that END in an identifier character are the reviewed ones — `lambda` (guarded, see b), the `f` string prefix (followed by a quote), the infinity stand-in `1e309` (a whole expression), and the word operators `and`/`or`, which op_prec!(bin ..) pads with a blank on both sides; every other keyword piece ends in a blank or a delimiter; (b) interpreted over parameter-list shapes, `lambda` is written with its trailing blank whenever the parameter list starts with a name (positional-only or positional parameters present); (c) the pieces that START with a letter are the expression-prefix words (`lambda`, `await `, `not `, `f`, `and`/`or` inside the padding macro) — all other word pieces start with a blank or `(`");
    cx.floor(rule, 12);
    // (a)/(c) string literals of the Unparser impl, through macros
    let mut toks = vec![];
    for i in up.impls() {
        if sm::self_ty_name(i) == "Unparser" {
            sm::flat_tokens(quote::ToTokens::to_token_stream(i), &mut toks);
        }
    }
    // doc comments are `#[doc = "text"]` attributes in the token stream: their text is not written by the unparser
    {
        let mut kept = Vec::with_capacity(toks.len());
        let mut k = 0;
        while k < toks.len() {
            if toks[k] == "#" && toks.get(k + 1).map_or(false, |t| t == "[") && toks.get(k + 2).map_or(false, |t| t == "doc") {
                let mut depth = 0i32;
                k += 1;
                while k < toks.len() {
                    match toks[k].as_str() {
                        "[" => depth += 1,
                        "]" => {
                            depth -= 1;
                            if depth == 0 {
                                k += 1;
                                break;
                            }
                        }
                        _ => {}
                    }
                    k += 1;
                }
                continue;
            }
            kept.push(toks[k].clone());
            k += 1;
        }
        toks = kept;
    }
    let mut lits: BTreeSet<String> = BTreeSet::new();
    for t in &toks {
        if t.starts_with('"') && t.ends_with('"') && t.len() >= 2 {
            if let Ok(l) = syn::parse_str::<syn::LitStr>(t) {
                // format strings: split at `{}` placeholders
                for piece in l.value().split("{}") {
                    if !piece.is_empty() {
                        lits.insert(piece.to_string());
                    }
                }
            }
        }
    }
    if lits.len() < 20 {
        cx.fail(rule, &format!("{}/anchors", rule), &up.rel, &format!("only {} string pieces found in impl Unparser", lits.len()));
    }
    let ident_ch = |c: char| c.is_alphanumeric() || c == '_';
    let end_ok: BTreeSet<&str> = ["lambda", "f", "1e309", "and", "or", "inf"].into_iter().collect();
    let start_ok: BTreeSet<&str> = ["lambda", "lambda ", "await ", "not ", "f", "and", "or", "inf"].into_iter().collect();
    for l in &lits {
        let last = l.chars().last().unwrap();
        let first = l.chars().next().unwrap();
        if ident_ch(last) {
            if end_ok.contains(l.as_str()) {
                cx.ok(rule, &format!("piece {:?} ends in an identifier character (reviewed)", l));
            } else {
                cx.fail(rule, &format!("{}/glue-after/{}", rule, l), &up.rel, &format!("the unparser writes {:?}, which ends in an identifier character: the next name, number or keyword is glued to it", l));
            }
        } else if first.is_alphabetic() {
            if start_ok.contains(l.as_str()) {
                cx.ok(rule, &format!("piece {:?} starts an expression (reviewed prefix word)", l));
            } else {
                cx.fail(rule, &format!("{}/glue-before/{}", rule, l), &up.rel, &format!("the unparser writes {:?}, which starts with a letter and is not an expression-prefix word: it is glued to a preceding name or number", l));
            }
        } else {
            cx.ok_trivial(rule);
        }
    }
    // op_prec! padding
    let all = sm::tsc(&up.file);
    if all.contains("(@spacebin,$op:literal)=>{concat!(\" \",$op,\" \")};") {
        cx.ok(rule, "op_prec!(bin ..) pads the operator with a blank on both sides");
    } else {
        cx.fail(rule, &format!("{}/bin-padding", rule), &up.rel, "op_prec!(@space bin, op) is not concat!(\" \", op, \" \")");
    }
    // (b) the lambda keyword, interpreted
    let lam: Vec<&syn::Expr> = w.prints.iter().filter(|(a, e)| a == "Lambda" && sm::tsc(e).contains("\"lambda")).map(|(_, e)| e).collect();
    if lam.len() != 1 {
        cx.fail(rule, &format!("{}/lambda/site", rule), &up.rel, &format!("{} writes of the lambda keyword found in the Lambda arm (1 expected)", lam.len()));
    } else {
        let methods = |recv: &crate::eval::V, name: &str, _args: &[crate::eval::V]| -> Option<crate::eval::V> {
            match (recv, name) {
                (crate::eval::V::Int(n), "len") => Some(crate::eval::V::Int(*n)),
                (crate::eval::V::Int(n), "is_empty") => Some(crate::eval::V::Bool(*n == 0)),
                (crate::eval::V::Opt(o), "is_some") => Some(crate::eval::V::Bool(o.is_some())),
                (crate::eval::V::Opt(o), "is_none") => Some(crate::eval::V::Bool(o.is_none())),
                _ => None,
            }
        };
        let empty = BTreeMap::new();
        let lets = w.lets.get("Lambda").unwrap_or(&empty);
        let mut bad = vec![];
        let mut n = 0;
        for a in 0..3i128 {
            for po in 0..3i128 {
                for rest in 0..2i128 {
                    let mut m = crate::eval::Machine::new(&methods);
                    m.set("args.args", crate::eval::V::Int(a));
                    m.set("args.posonlyargs", crate::eval::V::Int(po));
                    m.set("args.kwonlyargs", crate::eval::V::Int(rest));
                    m.set("args.vararg", crate::eval::V::Opt(if rest > 0 { Some(Box::new(crate::eval::V::Unit)) } else { None }));
                    m.set("args.kwarg", crate::eval::V::Opt(None));
                    // locals of the arm, in dependency-free order (each depends only on args.*)
                    for (k, init) in lets {
                        if let Ok(v) = m.eval(init) {
                            m.set(k, v);
                        }
                    }
                    n += 1;
                    match m.eval(lam[0]) {
                        Ok(crate::eval::V::Str(sv)) => {
                            let names_first = a + po > 0;
                            if !(sv == "lambda " || (sv == "lambda" && !names_first)) {
                                bad.push(format!("{} positional-only, {} positional parameter(s): writes {:?}", po, a, sv));
                            }
                        }
                        other => bad.push(format!("not interpretable: {:?}", other)),
                    }
                }
            }
        }
        if bad.is_empty() {
            cx.ok(rule, &format!("lambda keyword: {} parameter-list shapes interpreted, a blank follows whenever a name comes first", n));
        } else {
            cx.fail(rule, &format!("{}/lambda/separator", rule), &up.rel, &format!("the lambda keyword is glued to the first parameter name: {}", bad.iter().take(3).cloned().collect::<Vec<_>>().join("; ")));
        }
    }

    // F1 / F2
    let rule = "C11.F1";
    cx.rule(rule, "f-string replacement fields: the opening brace is followed by a blank exactly when the RENDERED text of the field expression starts with `{` (the test is on the same buffer that is written next, not on the node kind: `{ {1}.pop() }` starts with a brace without being a set), and literal text doubles both `{` and `}`");
    cx.floor(rule, 3);
    let Some(uf) = up.method("Unparser", "unparse_formatted") else { return cx.anchor_missing(rule, "unparse_formatted") };
    // let brace = if COND { "{ " } else { "{" };  self.p(brace)?; self.p(&BUF)?;
    let mut cond: Option<String> = None;
    let mut var = String::new();
    for st in &uf.block.stmts {
        if let syn::Stmt::Local(l) = st {
            if let Some(init) = &l.init {
                if let syn::Expr::If(i) = &*init.expr {
                    let th = sm::tsc(&i.then_branch);
                    let el = i.else_branch.as_ref().map(|e| sm::tsc(&e.1)).unwrap_or_default();
                    if th == "{\"{ \"}" && el == "{\"{\"}" {
                        cond = Some(sm::tsc(&i.cond));
                        let mut ids = vec![];
                        sm::pat_idents(&l.pat, &mut ids);
                        var = ids.first().cloned().unwrap_or_default();
                    }
                }
            }
        }
    }
    let body = sm::tsc(&uf.block);
    match cond {
        None => cx.fail(rule, &format!("{}/opening/shape", rule), &up.loc(uf), "the choice between `{ ` and `{` is not a `let x = if c { \"{ \" } else { \"{\" }`"),
        Some(c) => {
            // the buffer printed right after the brace
            let after = format!("self.p({})?;self.p(&", var);
            let buf: String = body.split(&after).nth(1).map(|r| r.chars().take_while(|ch| ch.is_alphanumeric() || *ch == '_').collect()).unwrap_or_default();
            let forms = [format!("{}.starts_with('{{')", buf), format!("{}.starts_with(\"{{\")", buf), format!("{}.chars().next()==Some('{{')", buf), format!("{}.as_bytes().first()==Some(&b'{{')", buf)];
            if !buf.is_empty() && forms.contains(&c) {
                cx.ok(rule, &format!("the blank after the opening brace is decided by `{}` on the buffer `{}` that is written next", c, buf));
            } else {
                cx.fail(rule, &format!("{}/opening/test", rule), &up.loc(uf), &format!("the blank after the opening brace is decided by `{}`, not by whether the rendered field text `{}` starts with a brace: a field whose text starts with `{{` is written as the `{{{{` escape", c, buf));
            }
        }
    }
    if body.ends_with("self.p(\"}\")?;Ok(())}") {
        cx.ok(rule, "the field is closed with `}`");
    } else {
        cx.fail(rule, &format!("{}/closing", rule), &up.loc(uf), "the replacement field is not closed with a single `}` at the end");
    }
    match up.method("Unparser", "unparse_fstring_str") {
        None => cx.anchor_missing(rule, "unparse_fstring_str"),
        Some(f) => {
            let t = sm::tsc(&f.block);
            if t.contains(".replace('{',\"{{\")") && t.contains(".replace('}',\"}}\")") {
                cx.ok(rule, "literal text doubles `{` and `}`");
            } else {
                cx.fail(rule, &format!("{}/escaping", rule), &up.loc(f), "literal f-string text does not double both `{` and `}`");
            }
        }
    }
}


/// identifiers mentioned by an expression (tokens, including macro arguments)
fn mentioned(e: &impl quote::ToTokens) -> BTreeSet<String> {
    let mut v = vec![];
    sm::flat_tokens(quote::ToTokens::to_token_stream(e), &mut v);
    v.into_iter().filter(|t| t.chars().next().map_or(false, |c| c.is_alphabetic() || c == '_')).collect()
}

/// Sets of identifiers mentioned along each path through an expression (branching at `if` / `match`; a loop is one
/// path with its header and body).
fn mention_paths(e: &syn::Expr) -> Vec<BTreeSet<String>> {
    fn seq(a: Vec<BTreeSet<String>>, b: Vec<BTreeSet<String>>) -> Vec<BTreeSet<String>> {
        let mut out = vec![];
        for x in &a {
            for y in &b {
                let mut u = x.clone();
                u.extend(y.iter().cloned());
                out.push(u);
                if out.len() > 4096 {
                    return out;
                }
            }
        }
        out
    }
    fn block(b: &syn::Block) -> Vec<BTreeSet<String>> {
        let mut acc = vec![BTreeSet::new()];
        for st in &b.stmts {
            let p = match st {
                syn::Stmt::Expr(e, _) => mention_paths(e),
                syn::Stmt::Local(l) => match &l.init {
                    Some(i) => {
                        let mut p = mention_paths(&i.expr);
                        if let Some((_, d)) = &i.diverge {
                            p = seq(p, vec![mentioned(&**d)]);
                        }
                        p
                    }
                    None => vec![BTreeSet::new()],
                },
                other => vec![mentioned(other)],
            };
            acc = seq(acc, p);
        }
        acc
    }
    match e {
        syn::Expr::Block(b) => block(&b.block),
        syn::Expr::If(i) => {
            let c = vec![mentioned(&*i.cond)];
            let mut branches = block(&i.then_branch);
            match &i.else_branch {
                Some((_, el)) => branches.extend(mention_paths(el)),
                None => branches.push(BTreeSet::new()),
            }
            seq(c, branches)
        }
        syn::Expr::Match(m) => {
            let c = vec![mentioned(&*m.expr)];
            let mut branches = vec![];
            for a in &m.arms {
                let mut p = mention_paths(&a.body);
                if let Some((_, g)) = &a.guard {
                    p = seq(vec![mentioned(&**g)], p);
                }
                branches.extend(p);
            }
            seq(c, branches)
        }
        syn::Expr::Try(t) => mention_paths(&t.expr),
        syn::Expr::Paren(p) => mention_paths(&p.expr),
        other => vec![mentioned(other)],
    }
}

/// R1: every child an arm of the unparser binds is looked at on every path through that arm.
fn every_field_on_every_path(cx: &mut Ctx, up: &Src) {
    let rule = "C11.R1";
    cx.rule(rule, "nothing is dropped from the rendering: in every arm of Unparser::unparse_expr each field the arm's pattern binds by name (fields matched with `_`, `..` or a `_`-prefixed name are the ones the rendering does not depend on) is mentioned on EVERY path through the arm — in a condition, a scrutinee, a loop header or a rendering call — so no branch can print the node without having looked at, e.g., the keyword arguments of a call");
    cx.floor(rule, 20);
    let Some(f) = up.method("Unparser", "unparse_expr") else { return cx.anchor_missing(rule, "Unparser::unparse_expr") };
    let mut big: Option<&syn::ExprMatch> = None;
    sm::for_each_expr_in_block(&f.block, |e| {
        if let syn::Expr::Match(m) = e {
            if big.map_or(true, |b| m.arms.len() > b.arms.len()) {
                big = Some(m);
            }
        }
    });
    let Some(m) = big else { return cx.anchor_missing(rule, "the match on the expression kind") };
    for arm in &m.arms {
        let mut bound = vec![];
        sm::pat_idents(&arm.pat, &mut bound);
        let bound: Vec<String> = bound.into_iter().filter(|b| !b.starts_with('_')).collect();
        if bound.is_empty() {
            continue;
        }
        let kind = sm::tsc(&arm.pat);
        let kind: String = kind.trim_start_matches("Expr::").chars().take_while(|c| c.is_alphanumeric()).collect();
        let paths = mention_paths(&arm.body);
        let mut missing: BTreeSet<String> = BTreeSet::new();
        for p in &paths {
            for b in &bound {
                if !p.contains(b) {
                    missing.insert(b.clone());
                }
            }
        }
        if missing.is_empty() {
            cx.ok(rule, &format!("{}: {:?} mentioned on all {} paths", kind, bound, paths.len()));
        } else {
            cx.fail(rule, &format!("{}/{}", rule, kind), &up.loc(&arm.pat), &format!("the {} arm has a path that never looks at {:?}: that part of the node can be dropped from the rendering", kind, missing));
        }
    }
}


/// N2: infinite float / complex components are written as a literal that overflows to infinity, not as `inf`.
fn infinite_constants(cx: &mut Ctx, up: &Src) {
    use crate::eval::{Machine, V};
    let rule = "C11.N2";
    cx.rule(rule, "`inf` is not Python syntax: the Constant arm of the unparser, interpreted for float constants (finite, +inf, -inf), complex constants (every combination of finite / infinite parts) and another constant, writes the overflowing literal `1e309` for an infinite float, writes the Display text with `inf` replaced by `1e309` exactly when the real OR the imaginary part is infinite, and uses plain Display otherwise — whether the distinction is made by arm guards or by conditions inside the arms");
    cx.floor(rule, 10);
    let Some(f) = up.method("Unparser", "unparse_expr") else { return cx.anchor_missing(rule, "Unparser::unparse_expr") };
    // the arm for Expr::Constant
    let mut arm: Option<&syn::Arm> = None;
    sm::for_each_expr_in_block(&f.block, |e| {
        if let syn::Expr::Match(m) = e {
            for a in &m.arms {
                if sm::tsc(&a.pat).starts_with("Expr::Constant(") && arm.is_none() {
                    arm = Some(a);
                }
            }
        }
    });
    let Some(arm) = arm else { return cx.anchor_missing(rule, "the Expr::Constant arm") };
    let stmts: Vec<syn::Stmt> = match &*arm.body {
        syn::Expr::Block(b) => b.block.stmts.clone(),
        other => vec![syn::Stmt::Expr(other.clone(), None)],
    };
    let fin = [1.5f64, 0.0];
    let inf = [f64::INFINITY, f64::NEG_INFINITY];
    let mut cases: Vec<(String, V, &'static str)> = vec![];
    for x in fin {
        cases.push((format!("float {:?}", x), V::Ctor("Constant::Float".into(), vec![V::F(x)]), "display"));
    }
    for x in inf {
        cases.push((format!("float {:?}", x), V::Ctor("Constant::Float".into(), vec![V::F(x)]), "literal"));
    }
    let all = [1.5f64, 0.0, f64::INFINITY, f64::NEG_INFINITY];
    for re in all {
        for im in all {
            let mut rec = BTreeMap::new();
            rec.insert("real".to_string(), V::F(re));
            rec.insert("imag".to_string(), V::F(im));
            let want = if re.is_infinite() || im.is_infinite() { "replaced" } else { "display" };
            cases.push((format!("complex ({:?}, {:?}j)", re, im), V::Ctor("Constant::Complex".into(), vec![V::Rec(rec)]), want));
        }
    }
    cases.push(("an integer constant".into(), V::Ctor("Constant::Int".into(), vec![V::Int(3)]), "display"));
    let mut bad = vec![];
    let total = cases.len();
    // statements are interpreted one by one; a call of another Unparser method is followed into that method's body
    // (parameters bound to the argument values), so moving the arm into a helper changes nothing
    fn run(up: &Src, stmts: &[syn::Stmt], binds: Vec<(String, V)>, actions: &std::cell::RefCell<Vec<String>>, depth: usize, last_err: &std::cell::RefCell<Option<String>>) {
        let methods = |recv: &V, m: &str, args: &[V]| -> Option<V> {
            match (recv, m) {
                (V::Enum(r), "p") if r == "self" => {
                    let what = match args.first() {
                        Some(V::Str(s)) if s == "1e309" => "literal".to_string(),
                        Some(V::Enum(t)) if t.starts_with("replaced:") => "replaced".to_string(),
                        other => format!("p({:?})", other),
                    };
                    actions.borrow_mut().push(what);
                    Some(V::Unit)
                }
                (V::Ctor(..), "to_string") => Some(V::Enum("display-text".into())),
                (V::Enum(t), "replace") if t == "display-text" => match args {
                    [V::Str(from), V::Str(to)] if from == "inf" && to == "1e309" => Some(V::Enum("replaced:inf->1e309".into())),
                    _ => Some(V::Enum("replaced-wrongly".into())),
                },
                (V::Unit, "fmt::Display::fmt") | (V::Unit, "Display::fmt") | (V::Unit, "std::fmt::Display::fmt") => {
                    actions.borrow_mut().push("display".into());
                    Some(V::Unit)
                }
                (V::Enum(r), name) if r == "self" && depth < 3 => {
                    let callee = up.method("Unparser", name)?;
                    let params: Vec<String> = callee.sig.inputs.iter().filter_map(|a| if let syn::FnArg::Typed(pt) = a { Some(sm::tsc(&pt.pat)) } else { None }).collect();
                    if params.len() != args.len() {
                        return None;
                    }
                    run(up, &callee.block.stmts, params.into_iter().zip(args.iter().cloned()).collect(), actions, depth + 1, last_err);
                    Some(V::Unit)
                }
                _ => None,
            }
        };
        let mut mach = Machine::new(&methods);
        for (k, v) in binds {
            mach.set(&k, v);
        }
        for st in stmts {
            let r = match st {
                syn::Stmt::Expr(e, _) => mach.eval(e).map(|_| ()),
                syn::Stmt::Local(l) => {
                    let mut ids = vec![];
                    sm::pat_idents(&l.pat, &mut ids);
                    match (ids.as_slice(), &l.init) {
                        ([id], Some(init)) => match mach.eval(&init.expr) {
                            Ok(v) => {
                                mach.set(id, v);
                                Ok(())
                            }
                            Err(e) => Err(e),
                        },
                        _ => Err("let".into()),
                    }
                }
                _ => Ok(()),
            };
            if let Err(e) = r {
                if !e.starts_with('\u{0}') {
                    *last_err.borrow_mut() = Some(e);
                }
            }
        }
    }
    for (name, value, want) in cases {
        let actions: std::cell::RefCell<Vec<String>> = std::cell::RefCell::new(vec![]);
        let last_err: std::cell::RefCell<Option<String>> = std::cell::RefCell::new(None);
        run(up, &stmts, vec![("value".to_string(), value), ("kind".to_string(), V::Opt(None))], &actions, 0, &last_err);
        let acts = actions.borrow().clone();
        let decided: Vec<&String> = acts.iter().filter(|a| *a == "literal" || *a == "replaced" || *a == "display").collect();
        if decided.len() != 1 || decided[0] != want {
            bad.push(format!("{}: {:?} (expected {}){}", name, acts, want, last_err.borrow().clone().map(|e| format!(" [{}]", e)).unwrap_or_default()));
        }
    }
    if bad.is_empty() {
        cx.unit("constants on which the Constant arm was interpreted", total);
        for _ in 0..total {
            cx.ok_trivial(rule);
        }
        cx.ok(rule, "infinite float -> 1e309; complex with an infinite part -> Display with inf replaced; otherwise Display");
    } else {
        bad.truncate(3);
        cx.fail(rule, &format!("{}/constant-arm", rule), &up.loc(&arm.pat), &format!("the Constant arm does not render infinite components as `1e309` exactly when they occur: {}: `inf` re-lexes as a name", bad.join("; ")));
    }
}


/// C11.D1: the "first element" flags of the list renderers are read and cleared only together.
fn delimiter_flags(cx: &mut Ctx, up: &Src) {
    let rule = "C11.D1";
    cx.rule(rule, "separator discipline of the list renderers (arguments, call arguments, collections, comprehensions, comparisons): a `let mut FLAG = true` that is handed to p_delim(&mut FLAG, sep) — directly or through a helper that receives `&mut FLAG` — is used in no other way — p_delim prints the separator unless the flag is set and clears it in the same step (`p_if(!mem::take(flag), sep)`), so whatever is printed, the next separator is not lost; a separate read of the flag (`p_if(!FLAG, ..)`, `if !FLAG`) is accepted only when each such read is matched by a `FLAG = false;`");
    cx.floor(rule, 5);
    match up.method("Unparser", "p_delim") {
        Some(m) if ["{self.p_if(!std::mem::take(first),s)}", "{self.p_if(!mem::take(first),s)}", "{self.p_if(!core::mem::take(first),s)}"].contains(&sm::tsc(&m.block).as_str()) || sm::tsc(&m.block).replace("std::mem::replace(first,false)", "mem::take(first)").replace("std::mem::take", "mem::take") == "{self.p_if(!mem::take(first),s)}" => cx.ok(rule, "p_delim prints the separator unless *first, and clears *first (mem::take)"),
        Some(m) => cx.fail(rule, &format!("{}/p_delim", rule), &up.loc(m), "p_delim is not `self.p_if(!mem::take(first), s)`"),
        None => return cx.anchor_missing(rule, "Unparser::p_delim"),
    }
    for i in up.impls() {
        for it in &i.items {
            let syn::ImplItem::Fn(m) = it else { continue };
            let fname = m.sig.ident.to_string();
            if fname == "p_delim" {
                continue;
            }
            // token level (list renderers sit inside `group_if!` macro invocations, which syn does not parse)
            let mut toks: Vec<String> = vec![];
            sm::flat_tokens(quote::ToTokens::to_token_stream(&m.block), &mut toks);
            let mut flags: BTreeSet<String> = BTreeSet::new();
            let mut n_delim: BTreeMap<String, usize> = BTreeMap::new();
            for w in toks.windows(5) {
                if w[0] == "p_delim" && w[1] == "(" && w[2] == "&" && w[3] == "mut" {
                    flags.insert(w[4].clone());
                }
                // a flag received as `X: &mut bool` and handed to p_delim(X, ..)
                if w[0] == "p_delim" && w[1] == "(" && w[3] == "," && w[2].chars().all(|c| c.is_alphanumeric() || c == '_') && w[2] != "self" {
                    flags.insert(w[2].clone());
                }
            }
            for x in flags {
                let total = toks.iter().filter(|t| **t == x).count();
                let n_let = toks.windows(4).filter(|w| w[0] == "let" && w[1] == "mut" && w[2] == x && w[3] == "=").count();
                // handing the flag on (`&mut X` as an argument) or using a received one (`p_delim(X, ..)`, `X: &mut bool`)
                let n_hand = toks.windows(3).filter(|w| w[0] == "&" && w[1] == "mut" && w[2] == x).count();
                let n_direct = toks.windows(3).filter(|w| w[0] == "p_delim" && w[1] == "(" && w[2] == x).count();
                let n_param = if m.sig.inputs.iter().any(|a| matches!(a, syn::FnArg::Typed(t) if sm::tsc(&t.pat) == x && sm::tsc(&t.ty) == "&mutbool")) { 0 } else { 0 };
                *n_delim.entry(x.clone()).or_default() = n_hand + n_direct + n_param;
                let n_reads = toks.windows(2).filter(|w| w[0] == "!" && w[1] == x).count();
                let n_clears = toks.windows(4).filter(|w| w[0] == x && w[1] == "=" && w[2] == "false" && w[3] == ";").count();
                let n_pairs = if n_reads == n_clears { n_reads } else { 0 };
                let nd = n_delim.get(&x).copied().unwrap_or(0);
                if total == n_let + nd + 2 * n_pairs {
                    cx.ok(rule, &format!("{}: flag `{}` — {} p_delim / hand-on use(s), no other access", fname, x, nd));
                } else {
                    cx.fail(rule, &format!("{}/{}/{}", rule, fname, x), &up.loc(m), &format!("{}: the separator flag `{}` is accessed {} time(s) outside p_delim(&mut {}, ..) (and outside a read directly followed by `{} = false;`): something is printed without clearing the flag, so the following separator is lost (e.g. `lambda *, k: k` rendered as `lambda*k: k`)", fname, x, total - n_let - nd - 2 * n_pairs, x, x));
                }
            }
        }
    }
}
