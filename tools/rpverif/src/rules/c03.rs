//! C03 — totality: panic obligations, progress, recursion inventory, error offsets.

use crate::report::Ctx;
use crate::srcmodel::{self as sm, Src};
use std::collections::{BTreeMap, BTreeSet};

/// E1: parse_error_from_lalrpop maps every LALRPOP error variant, without a wildcard, to its own location.
pub fn lalrpop_error_mapping(cx: &mut Ctx, rule: &str, p: &Src) {
    let Some(f) = p.free_fns("parse_error_from_lalrpop").into_iter().next() else { return cx.anchor_missing(rule, "parse_error_from_lalrpop") };
    let mm = f.block.stmts.iter().find_map(|s| if let syn::Stmt::Expr(syn::Expr::Match(m), _) = s { Some(m) } else { None });
    let Some(mm) = mm else { return cx.fail(rule, &format!("{}/lalrpop-map/shape", rule), &p.loc(f), "parse_error_from_lalrpop is not a match over the error") };
    let want: BTreeMap<&str, &str> = [("InvalidToken", "location"), ("ExtraToken", "token.0"), ("User", "error.location"), ("UnrecognizedToken", "token.0"), ("UnrecognizedEof", "location")].into_iter().collect();
    let mut seen = BTreeSet::new();
    for arm in &mm.arms {
        let pat = sm::tsc(&arm.pat);
        if pat == "_" {
            cx.fail(rule, &format!("{}/lalrpop-map/wildcard", rule), &p.loc(&arm.pat), "wildcard arm in parse_error_from_lalrpop: a new error variant would be mapped silently");
            continue;
        }
        let var: String = pat.trim_start_matches("LalrpopError::").chars().take_while(|c| c.is_alphanumeric()).collect();
        seen.insert(var.clone());
        let Some(w) = want.get(var.as_str()) else {
            cx.fail(rule, &format!("{}/lalrpop-map/{}", rule, var), &p.loc(&arm.pat), "unknown LALRPOP error variant");
            continue;
        };
        // every ParseError literal in the arm has offset: <w>
        let mut offs = vec![];
        sm::for_each_expr(&arm.body, |e| {
            if let syn::Expr::Struct(s) = e {
                if s.path.segments.last().map_or(false, |x| x.ident == "ParseError") {
                    for fv in &s.fields {
                        if sm::ts(&fv.member) == "offset" {
                            offs.push(sm::tsc(&fv.expr));
                        }
                    }
                }
            }
        });
        if !offs.is_empty() && offs.iter().all(|o| o == w) {
            cx.ok(rule, &format!("LalrpopError::{} => offset {}", var, w));
        } else {
            cx.fail(rule, &format!("{}/lalrpop-map/{}", rule, var), &p.loc(&arm.pat), &format!("LalrpopError::{} is mapped to offsets {:?}, expected `{}`", var, offs, w));
        }
    }
    for k in want.keys() {
        if !seen.contains(*k) {
            cx.fail(rule, &format!("{}/lalrpop-map/{}/missing", rule, k), &p.loc(f), &format!("LalrpopError::{} is not mapped", k));
        }
    }
}
