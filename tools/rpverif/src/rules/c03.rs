//! C03 — totality: panic obligations, progress, recursion inventory, error offsets.

use crate::report::Ctx;
use crate::srcmodel::{self as sm, Src};
use std::collections::{BTreeMap, BTreeSet};

/// E1: parse_error_from_lalrpop maps every LALRPOP error variant, without a wildcard, to its own location.
pub fn lalrpop_error_mapping(cx: &mut Ctx, rule: &str, p: &Src) {
    let Some(f) = p.free_fns("parse_error_from_lalrpop").into_iter().next() else { return cx.anchor_missing(rule, "parse_error_from_lalrpop") };
    let mm = f.block.stmts.iter().find_map(|s| if let syn::Stmt::Expr(syn::Expr::Match(m), _) = s { Some(m) } else { None });
    let Some(mm) = mm else { return cx.fail(rule, &format!("{}/lalrpop-map/shape", rule), &p.loc(f), "parse_error_from_lalrpop is not a match over the error") };
    let want: BTreeMap<&str, &str> = [("InvalidToken", "location"), ("ExtraToken", "token.0"), ("User", "error.location"), ("UnrecognizedToken", "token.0"), ("UnrecognizedEof", "location")].into_iter().collect();
    let mut seen = BTreeSet::new();
    for arm in &mm.arms {
        let pat = sm::tsc(&arm.pat);
        if pat == "_" {
            cx.fail(rule, &format!("{}/lalrpop-map/wildcard", rule), &p.loc(&arm.pat), "wildcard arm in parse_error_from_lalrpop: a new error variant would be mapped silently");
            continue;
        }
        let var: String = pat.trim_start_matches("LalrpopError::").chars().take_while(|c| c.is_alphanumeric()).collect();
        seen.insert(var.clone());
        let Some(w) = want.get(var.as_str()) else {
            cx.fail(rule, &format!("{}/lalrpop-map/{}", rule, var), &p.loc(&arm.pat), "unknown LALRPOP error variant");
            continue;
        };
        // every ParseError literal in the arm has offset: <w>
        let mut offs = vec![];
        sm::for_each_expr(&arm.body, |e| {
            if let syn::Expr::Struct(s) = e {
                if s.path.segments.last().map_or(false, |x| x.ident == "ParseError") {
                    for fv in &s.fields {
                        if sm::ts(&fv.member) == "offset" {
                            offs.push(sm::tsc(&fv.expr));
                        }
                    }
                }
            }
        });
        if !offs.is_empty() && offs.iter().all(|o| o == w) {
            cx.ok(rule, &format!("LalrpopError::{} => offset {}", var, w));
        } else {
            cx.fail(rule, &format!("{}/lalrpop-map/{}", rule, var), &p.loc(&arm.pat), &format!("LalrpopError::{} is mapped to offsets {:?}, expected `{}`", var, offs, w));
        }
    }
    for k in want.keys() {
        if !seen.contains(*k) {
            cx.fail(rule, &format!("{}/lalrpop-map/{}/missing", rule, k), &p.loc(f), &format!("LalrpopError::{} is not mapped", k));
        }
    }
}

// ====================================================================== panic-obligation inventory

use crate::mir::{CrateFacts, Facts};
use crate::rules::units;

pub fn panic_kind(callee: &str) -> Option<String> {
    let c = callee;
    let k = if c.ends_with("Option::<T>::unwrap") {
        "Option::unwrap"
    } else if c.ends_with("Option::<T>::expect") {
        "Option::expect"
    } else if c.ends_with("Result::<T, E>::unwrap") {
        "Result::unwrap"
    } else if c.ends_with("Result::<T, E>::expect") || c.ends_with("Result::<T, E>::unwrap_err") || c.ends_with("Result::<T, E>::expect_err") {
        "Result::expect"
    } else if c.contains("panicking::") {
        "panic"
    } else if c.contains("CharWindow<T, N> as std::ops::Index") {
        "CharWindow::index"
    } else if c.contains("std::ops::Index<") || c.contains("std::ops::IndexMut<") || c.contains("as std::ops::Index") || c.contains("as std::ops::IndexMut") {
        "index"
    } else if c.ends_with("Vec::<T, A>::remove") || c.ends_with("Vec::<T, A>::swap_remove") {
        "Vec::remove"
    } else if c.ends_with("Vec::<T, A>::insert") {
        "Vec::insert"
    } else if c.ends_with("Vec::<T, A>::drain") || c.ends_with("String::drain") {
        "drain"
    } else if c.ends_with("String::truncate") {
        "String::truncate"
    } else if c.ends_with("String::insert") || c.ends_with("String::insert_str") || c.ends_with("String::remove") || c.ends_with("String::split_off") || c.ends_with("String::replace_range") {
        "String::insert/remove"
    } else if c.ends_with("::split_at") || c.ends_with("::split_at_mut") {
        "split_at"
    } else if c.ends_with("TextRange::new") || c.contains("for rustpython_ast::text_size::TextRange>::from") || c.contains("for rustpython_parser_vendored::text_size::TextRange>::from") {
        "TextRange::new"
    } else if c.contains("TextSize as std::ops::Sub") || c.contains("TextRange as std::ops::Sub") {
        "TextSize::sub"
    } else if c.contains("TextSize as std::ops::Add") || c.contains("TextRange as std::ops::Add") {
        "TextSize::add"
    } else if c.ends_with("unreachable_unchecked") || c.contains("get_unchecked") || c.ends_with("from_utf8_unchecked") || c.ends_with("from_u32_unchecked") || c.ends_with("unwrap_unchecked") {
        "unchecked"
    } else if c.contains("RefCell") && (c.ends_with("::borrow") || c.ends_with("::borrow_mut")) {
        "RefCell::borrow"
    } else if c.ends_with("copy_from_slice") || c.ends_with("::step_by") || c.ends_with("::chunks") || c.ends_with("::windows") || c.ends_with("str::repeat") || c.ends_with("::repeat") && c.contains("slice") {
        "slice-contract"
    } else {
        return None;
    };
    Some(k.to_string())
}

fn is_lalrpop_internal(caller: &str, file: &str) -> bool {
    if !file.ends_with("parser/src/python.rs") {
        return false;
    }
    // user-written action bodies are `python::__action<N>`
    let tail = caller.strip_prefix("python::__action").unwrap_or("x");
    !(tail.chars().next().map_or(false, |c| c.is_ascii_digit()) && tail.chars().all(|c| c.is_ascii_digit() || c == ':' || c == '{' || c == '}' || c == '#' || c.is_alphabetic()))
}

/// (function, kind) -> count over a crate, excluding generated LALRPOP internals.
/// `string::StringParser::<'a>::new` -> `string::StringParser::new`: lifetime names are not part of a function's identity
pub fn strip_lifetimes(name: &str) -> String {
    let re = regex::Regex::new(r"::<'[A-Za-z_0-9]+(?:, *'[A-Za-z_0-9]+)*>").unwrap();
    re.replace_all(name, "").to_string()
}

pub fn panic_inventory(cf: &CrateFacts, file_filter: &dyn Fn(&str) -> bool) -> BTreeMap<(String, String), usize> {
    let mut inv: BTreeMap<(String, String), usize> = BTreeMap::new();
    let live = cf.reachable_from_api();
    let file_filter = |f: &str| file_filter(f);
    let is_live = |func: &str| live.contains(func);
    for c in &cf.calls {
        if is_lalrpop_internal(&c.caller, &c.file) || !file_filter(&c.file) || c.macros.contains("debug_assert") || !is_live(&c.caller) {
            continue;
        }
        if let Some(k) = panic_kind(&c.callee) {
            *inv.entry((strip_lifetimes(&c.caller), k)).or_insert(0) += 1;
        }
    }
    for a in &cf.asserts {
        if a.kind == "MisalignedPointerDereference" || a.kind == "NullPointerDereference" {
            continue; // compiler-inserted debug checks on reference derefs; cannot fail in safe code
        }
        if is_lalrpop_internal(&a.func, &a.file) || !file_filter(&a.file) || a.macros.contains("debug_assert") || !is_live(&a.func) {
            continue;
        }
        *inv.entry((strip_lifetimes(&a.func), format!("assert:{}", a.kind))).or_insert(0) += 1;
    }
    // an overflow-checked subtraction on an unsigned type fails as soon as the result would be negative (a signed
    // counter needs 2^31 steps): these are inventoried as their own kind
    for b in &cf.binops {
        if b.op != "SubWithOverflow" || !b.ty.starts_with('u') {
            continue;
        }
        if is_lalrpop_internal(&b.func, &b.file) || !file_filter(&b.file) || !is_live(&b.func) {
            continue;
        }
        *inv.entry((strip_lifetimes(&b.func), "unsigned-sub".to_string())).or_insert(0) += 1;
    }
    inv
}

/// (function, kind) -> source lines of the sites
pub fn panic_sites(cf: &CrateFacts, file_filter: &dyn Fn(&str) -> bool) -> BTreeMap<(String, String), Vec<(String, usize)>> {
    let mut inv: BTreeMap<(String, String), Vec<(String, usize)>> = BTreeMap::new();
    let live = cf.reachable_from_api();
    let is_live = |func: &str| live.contains(func);
    for c in &cf.calls {
        if is_lalrpop_internal(&c.caller, &c.file) || !file_filter(&c.file) || c.macros.contains("debug_assert") || !is_live(&c.caller) {
            continue;
        }
        if let Some(k) = panic_kind(&c.callee) {
            inv.entry((strip_lifetimes(&c.caller), k)).or_default().push((c.file.clone(), c.line));
        }
    }
    for a in &cf.asserts {
        if a.kind == "MisalignedPointerDereference" || a.kind == "NullPointerDereference" {
            continue;
        }
        if is_lalrpop_internal(&a.func, &a.file) || !file_filter(&a.file) || a.macros.contains("debug_assert") || !is_live(&a.func) {
            continue;
        }
        inv.entry((strip_lifetimes(&a.func), format!("assert:{}", a.kind))).or_default().push((a.file.clone(), a.line));
    }
    for b in &cf.binops {
        if b.op != "SubWithOverflow" || !b.ty.starts_with('u') {
            continue;
        }
        if is_lalrpop_internal(&b.func, &b.file) || !file_filter(&b.file) || !is_live(&b.func) {
            continue;
        }
        inv.entry((strip_lifetimes(&b.func), "unsigned-sub".to_string())).or_default().push((b.file.clone(), b.line));
    }
    inv
}

/// Discharges that do not depend on which function a site sits in (so that moving code into a helper does not
/// create an "unreviewed" site): (function, kind, file, line) -> reason.
pub type AutoDischarge<'a> = &'a dyn Fn(&str, &str, &str, usize) -> Option<String>;

pub struct SiteRow {
    pub func: &'static str,
    pub kind: &'static str,
    pub max: usize,
    pub discharge: &'static str,
    pub why: &'static str,
}

/// Compare an inventory with a reviewed table. Action bodies (`python::__actionN`) are summed per kind.
pub fn check_inventory(cx: &mut Ctx, rule: &str, inv: &BTreeMap<(String, String), usize>, table: &[SiteRow], rel: &str) {
    check_inventory_auto(cx, rule, inv, table, rel, &BTreeMap::new(), &|_, _, _, _| None)
}

/// A closure belongs to the function that contains it: `f::{closure#0}` is counted with `f` (moving a statement
/// into or out of a closure -- a `for` loop rewritten as `for_each` -- does not create or remove a panic site).
pub fn fold_closures(name: &str) -> String {
    thread_local! {
        static RE: regex::Regex = regex::Regex::new(r"(::\{closure#\d+\})+$").unwrap();
    }
    RE.with(|re| re.replace(name, "").to_string())
}

pub fn check_inventory_auto(cx: &mut Ctx, rule: &str, inv: &BTreeMap<(String, String), usize>, table: &[SiteRow], rel: &str, sites: &BTreeMap<(String, String), Vec<(String, usize)>>, auto: AutoDischarge) {
    let mut actions: BTreeMap<String, usize> = BTreeMap::new();
    let mut seen_rows = BTreeSet::new();
    // fold closures into their functions, on both sides
    let mut folded_inv: BTreeMap<(String, String), usize> = BTreeMap::new();
    for ((f, k), n) in inv {
        *folded_inv.entry((fold_closures(f), k.clone())).or_insert(0) += n;
    }
    let mut folded_sites: BTreeMap<(String, String), Vec<(String, usize)>> = BTreeMap::new();
    for ((f, k), v) in sites {
        folded_sites.entry((fold_closures(f), k.clone())).or_default().extend(v.iter().cloned());
    }
    struct Row {
        func: String,
        kind: String,
        max: usize,
        discharge: String,
        why: String,
    }
    let mut folded_table: Vec<Row> = vec![];
    for r in table {
        let f = fold_closures(&strip_lifetimes(r.func));
        match folded_table.iter_mut().find(|x| x.func == f && x.kind == r.kind) {
            Some(x) => {
                x.max += r.max;
                if !x.discharge.contains(r.discharge) {
                    x.discharge = format!("{} + {}", x.discharge, r.discharge);
                }
                x.why = format!("{}; {}", x.why, r.why);
            }
            None => folded_table.push(Row { func: f, kind: r.kind.to_string(), max: r.max, discharge: r.discharge.to_string(), why: r.why.to_string() }),
        }
    }
    let (inv, sites, table) = (&folded_inv, &folded_sites, &folded_table);
    for ((func, kind), n) in inv {
        if func.starts_with("python::__action") {
            *actions.entry(kind.clone()).or_insert(0) += n;
            continue;
        }
        // site-independent discharges first: all sites of this (function, kind) covered by a global rule
        if let Some(ss) = sites.get(&(func.clone(), kind.clone())) {
            let reasons: Vec<Option<String>> = ss.iter().map(|(f, l)| auto(func, kind, f, *l)).collect();
            let in_table = table.iter().any(|r| r.func == *func && r.kind == *kind && *n <= r.max);
            if !in_table && !reasons.is_empty() && reasons.iter().all(|r| r.is_some()) {
                cx.ok(rule, &format!("{}: {} x{} -- {}", func, kind, n, reasons[0].clone().unwrap_or_default()));
                continue;
            }
        }
        match table.iter().enumerate().find(|(_, r)| r.func == *func && r.kind == *kind) {
            Some((i, r)) => {
                seen_rows.insert(i);
                if *n <= r.max {
                    cx.ok(rule, &format!("{}: {} x{} -- {}: {}", func, kind, n, r.discharge, r.why));
                } else {
                    cx.fail(rule, &format!("{}/undischarged/{}/{}", rule, func, kind), rel, &format!("{} has {} `{}` sites but only {} are reviewed ({}): the additional site(s) can panic and have no discharge", func, n, kind, r.max, r.discharge));
                }
            }
            None => cx.fail(rule, &format!("{}/undischarged/{}/{}", rule, func, kind), rel, &format!("{} contains {} panic-capable `{}` site(s) that are not in the reviewed site table: an undischarged panic obligation", func, n, kind)),
        }
    }
    for (kind, n) in actions {
        match table.iter().find(|r| r.func == "<grammar actions>" && r.kind == kind) {
            Some(r) if n <= r.max => cx.ok(rule, &format!("grammar actions: {} x{} -- {}: {}", kind, n, r.discharge, r.why)),
            Some(r) => cx.fail(rule, &format!("{}/undischarged/actions/{}", rule, kind), "parser/src/python.lalrpop", &format!("grammar actions contain {} `{}` sites, {} are reviewed", n, kind, r.max)),
            None => cx.fail(rule, &format!("{}/undischarged/actions/{}", rule, kind), "parser/src/python.lalrpop", &format!("grammar actions contain {} `{}` site(s) of a kind that is not reviewed", n, kind)),
        }
    }
    let _ = seen_rows;
}

const PARSER_SITES: &[SiteRow] = &[
    SiteRow { func: "<soft_keywords::SoftKeywordTransformer<I> as std::iter::Iterator>::next", kind: "unsigned-sub", max: 1, discharge: "D.counter", why: "open_lambdas -= 1 only under `open_lambdas > 0` (C01.S2 lambda pairing); the bracket-depth counters of the look-ahead are signed: a closing bracket the scan does not count as opened takes them below zero harmlessly" },
    SiteRow { func: "lexer::Lexer::<T>::consume_character", kind: "unsigned-sub", max: 3, discharge: "C04.L1", why: "nesting -= 1 in the three closing-bracket arms, each dominated by the `nesting == 0 => Err` return" },
    SiteRow { func: "string::StringParser::<'a>::parse_unicode_literal", kind: "unsigned-sub", max: 1, discharge: "D.hex", why: "literal_number - i with i in 1..=literal_number" },
    SiteRow { func: "<rustpython_ast::ModExpression as parser::Parse>::parse_tokens", kind: "panic", max: 1, discharge: "D.mode", why: "unreachable!: Top's StartExpression alternative builds Mod::Expression (C01.T4)" },
    SiteRow { func: "<rustpython_ast::ModInteractive as parser::Parse>::parse_tokens", kind: "panic", max: 1, discharge: "D.mode", why: "unreachable!: Top's StartInteractive alternative builds Mod::Interactive (C01.T4)" },
    SiteRow { func: "<rustpython_ast::ModModule as parser::Parse>::parse_tokens", kind: "panic", max: 1, discharge: "D.mode", why: "unreachable!: Top's StartModule alternative builds Mod::Module (C01.T4)" },
    SiteRow { func: "parser::parse_program::{closure#0}", kind: "panic", max: 1, discharge: "D.mode", why: "unreachable!: parse(.., Mode::Module, ..) returns Mod::Module (C01.T4)" },
    SiteRow { func: "<rustpython_ast::Stmt as parser::Parse>::parse_tokens", kind: "index", max: 1, discharge: "D.lenmatch", why: "statements[1] in the `_` arm of match statements.len() after arms 0 and 1" },
    SiteRow { func: "<rustpython_ast::Stmt as parser::Parse>::parse_tokens", kind: "Option::unwrap", max: 1, discharge: "D.lenmatch", why: "statements.pop().unwrap() in the arm len == 1" },
    SiteRow { func: "<soft_keywords::SoftKeywordTransformer<I> as std::iter::Iterator>::next", kind: "assert:Overflow", max: 6, discharge: "D.counter", why: "bracket-depth counters (i32) and the open-lambda counter (u32) move by one per peeked token (token count < 2^31 for inputs below 4 GiB); the lambda counter is decremented only under `open_lambdas > 0` (C01.S2 lambda pairing)" },
    SiteRow { func: "function::parse_args", kind: "TextRange::new", max: 1, discharge: "D.range", why: "(start, end) is the @L/@R pair captured around one FunctionArgument (non-nullable)" },
    SiteRow { func: "<lexer::CharWindow<T, N> as std::ops::Index<Idx>>::index", kind: "index", max: 1, discharge: "D.idx", why: "forwards to the [Option<char>; 3] array: every caller passes a constant slot (C03.D.const)" },
    SiteRow { func: "lexer::CharWindow::<T, N>::slide", kind: "Option::expect", max: 1, discharge: "D.arr", why: "last_mut() of [Option<char>; N], N = 3 at the only instantiation" },
    SiteRow { func: "lexer::Indentations::current", kind: "Option::expect", max: 1, discharge: "D.stack", why: "the stack starts with one level and pop() refuses to remove it (C05.I1)" },
    SiteRow { func: "lexer::Lexer::<T>::at_exponent", kind: "CharWindow::index", max: 2, discharge: "D.idx", why: "constant slots" },
    SiteRow { func: "lexer::Lexer::<T>::consume_character", kind: "CharWindow::index", max: 23, discharge: "D.idx", why: "constant slots" },
    SiteRow { func: "lexer::Lexer::<T>::consume_character", kind: "Option::unwrap", max: 1, discharge: "D.entry", why: "default arm: the character passed by consume_normal is still in window[0]" },
    SiteRow { func: "lexer::Lexer::<T>::consume_character", kind: "TextRange::new", max: 41, discharge: "C05.O1", why: "start taken before end, positions only advance (40 sites; 41 with full-lexer: the NonLogicalNewline emit around one next_char)" },
    SiteRow { func: "lexer::Lexer::<T>::eat_indentation", kind: "TextRange::new", max: 1, discharge: "C05.F1", why: "[full-lexer] NonLogicalNewline of a blank line: start taken before the one next_char(), end after it" },
    SiteRow { func: "lexer::Lexer::<T>::lex_comment", kind: "TextRange::new", max: 1, discharge: "C05.L1", why: "[full-lexer] start_pos taken before the comment text is consumed, end_pos after it" },
    SiteRow { func: "token::Tok::expect_comment", kind: "panic", max: 1, discharge: "D.api", why: "[full-lexer] derive(Is) accessor that panics by contract when the token is not a comment; not called by the lexer or the parser" },
    SiteRow { func: "parser::optional_range", kind: "TextRange::new", max: 1, discharge: "C03.R1", why: "[all-nodes-with-ranges] every grammar call passes the @L / @R captures around a run with a non-nullable symbol (C03.R1, C02.R1)" },
    SiteRow { func: "lexer::Lexer::<T>::consume_character", kind: "assert:Overflow", max: 6, discharge: "C04.L1", why: "nesting -= 1 dominated by the nesting == 0 return; += 1 bounded by the input length" },
    SiteRow { func: "lexer::Lexer::<T>::consume_normal", kind: "CharWindow::index", max: 1, discharge: "D.idx", why: "constant slot" },
    SiteRow { func: "lexer::Lexer::<T>::eat_indentation", kind: "CharWindow::index", max: 1, discharge: "D.idx", why: "constant slot" },
    SiteRow { func: "lexer::Lexer::<T>::eat_indentation", kind: "assert:Overflow", max: 2, discharge: "D.counter", why: "spaces/tabs incremented once per consumed 1-byte character (C05.W1), input < 2^32 bytes" },
    SiteRow { func: "lexer::Lexer::<T>::eat_single_char", kind: "TextRange::new", max: 1, discharge: "C05.L1", why: "start taken before end" },
    SiteRow { func: "lexer::Lexer::<T>::eat_single_char::{closure#0}", kind: "unchecked", max: 1, discharge: "D.entry", why: "unreachable_unchecked: every caller has a character established in window[0] (C05.O1 interpreter)" },
    SiteRow { func: "lexer::Lexer::<T>::handle_indentations", kind: "TextSize::sub", max: 2, discharge: "D.indent", why: "tok_pos - spaces - tabs: that many 1-byte characters were consumed on this line (C05.W1)" },
    SiteRow { func: "lexer::Lexer::<T>::handle_indentations", kind: "TextRange::new", max: 1, discharge: "D.indent", why: "start = end - widths" },
    SiteRow { func: "lexer::Lexer::<T>::inner_next", kind: "Vec::remove", max: 1, discharge: "C05.Q1", why: "pending.remove(0) after `while pending.is_empty()`" },
    SiteRow { func: "lexer::Lexer::<T>::is_digit_of_radix", kind: "panic", max: 1, discharge: "D.radix", why: "unimplemented!: every radix passed down is a literal of {2, 8, 10, 16} (C06.R1)" },
    SiteRow { func: "lexer::Lexer::<T>::is_identifier_continuation", kind: "CharWindow::index", max: 1, discharge: "D.idx", why: "constant slot" },
    SiteRow { func: "lexer::Lexer::<T>::lex_comment", kind: "CharWindow::index", max: 1, discharge: "D.idx", why: "constant slot" },
    SiteRow { func: "lexer::Lexer::<T>::lex_comment", kind: "Option::unwrap", max: 1, discharge: "D.some", why: "next_char() after the match that returns unless window[0] is Some(_)" },
    SiteRow { func: "lexer::Lexer::<T>::lex_identifier", kind: "CharWindow::index", max: 1, discharge: "D.idx", why: "constant slice bound" },
    SiteRow { func: "lexer::Lexer::<T>::lex_identifier", kind: "Option::unwrap", max: 1, discharge: "D.some", why: "inside while is_identifier_continuation()" },
    SiteRow { func: "lexer::Lexer::<T>::lex_identifier", kind: "TextRange::new", max: 2, discharge: "C05.L1", why: "start taken before end" },
    SiteRow { func: "lexer::Lexer::<T>::lex_normal_number", kind: "CharWindow::index", max: 10, discharge: "D.idx", why: "constant slots" },
    SiteRow { func: "lexer::Lexer::<T>::lex_normal_number", kind: "Option::unwrap", max: 3, discharge: "D.some", why: "each next_char().unwrap() is dominated by a Some-test of window[0]" },
    SiteRow { func: "lexer::Lexer::<T>::lex_normal_number", kind: "Result::unwrap", max: 2, discharge: "D.digits", why: "text built only from radix_run(10), non-empty on the integer path" },
    SiteRow { func: "lexer::Lexer::<T>::lex_normal_number", kind: "TextRange::new", max: 4, discharge: "C05.L1", why: "start taken before end" },
    SiteRow { func: "lexer::Lexer::<T>::lex_number", kind: "CharWindow::index", max: 1, discharge: "D.idx", why: "constant slice bound" },
    SiteRow { func: "lexer::Lexer::<T>::lex_number_radix", kind: "TextRange::new", max: 1, discharge: "C05.L1", why: "start_pos precedes end_pos" },
    SiteRow { func: "lexer::Lexer::<T>::lex_string", kind: "CharWindow::index", max: 2, discharge: "D.idx", why: "constant slice bounds" },
    SiteRow { func: "lexer::Lexer::<T>::lex_string", kind: "Option::unwrap", max: 1, discharge: "D.prefix", why: "the quote sits at window[prefix_len]: every caller matched it there (C06.P1)" },
    SiteRow { func: "lexer::Lexer::<T>::lex_string", kind: "TextRange::new", max: 1, discharge: "C05.L1", why: "start taken before end" },
    SiteRow { func: "lexer::Lexer::<T>::new", kind: "TextSize::add", max: 1, discharge: "D.space", why: "BOM length added to the start offset (within the 32-bit offset space of the property's quantifier)" },
    SiteRow { func: "lexer::Lexer::<T>::new", kind: "CharWindow::index", max: 1, discharge: "D.idx", why: "constant slot" },
    SiteRow { func: "lexer::Lexer::<T>::next_char", kind: "TextSize::add", max: 3, discharge: "D.space", why: "position advance by consumed bytes (start + len < 2^32 by the property's quantifier)" },
    SiteRow { func: "lexer::Lexer::<T>::next_char", kind: "CharWindow::index", max: 2, discharge: "D.idx", why: "constant slots" },
    SiteRow { func: "lexer::Lexer::<T>::radix_run", kind: "CharWindow::index", max: 2, discharge: "D.idx", why: "constant slots" },
    SiteRow { func: "lexer::Lexer::<T>::take_number", kind: "CharWindow::index", max: 1, discharge: "D.idx", why: "constant slot" },
    SiteRow { func: "lexer::Lexer::<T>::take_number::{closure#0}", kind: "Option::unwrap", max: 1, discharge: "D.some", why: "closure of take_char.then(..) with take_char = is_digit_of_radix(window[0], radix)" },
    SiteRow { func: "parser::parse_error_from_lalrpop::{closure#0}", kind: "index", max: 1, discharge: "D.lenmatch", why: "expected[0] under (expected.len() == 1).then(..)" },
    SiteRow { func: "soft_keywords::soft_to_name", kind: "panic", max: 1, discharge: "D.mode", why: "unreachable!: called only on the tokens matched by the enclosing Match | Case | Type arms" },
    SiteRow { func: "string::StringParser::<'a>::new", kind: "TextSize::add", max: 2, discharge: "D.space", why: "prefix length + quote length, token start + that (inside the token)" },
    SiteRow { func: "string::StringParser::<'a>::next_char", kind: "TextSize::add", max: 1, discharge: "D.space", why: "position advance inside the token" },
    SiteRow { func: "string::StringParser::<'a>::parse_octet", kind: "Option::unwrap", max: 2, discharge: "D.peek/D.octal", why: "next_char() after peek() matched a digit; char::from_u32 of a value <= 0o777" },
    SiteRow { func: "string::StringParser::<'a>::parse_octet", kind: "Result::unwrap", max: 1, discharge: "D.octal", why: "<= 3 octal digits fit u32" },
    SiteRow { func: "string::StringParser::<'a>::parse_spec", kind: "assert:Overflow", max: 1, discharge: "D.counter", why: "nested + 1 with nested < 2 (parse_fstring returns early for nested >= 2)" },
    SiteRow { func: "string::StringParser::<'a>::parse_unicode_literal", kind: "assert:Overflow", max: 4, discharge: "D.hex", why: "every call passes a literal digit count <= 8, so the shifts and the sum stay below 2^32" },
    SiteRow { func: "string::StringParser::<'a>::range", kind: "TextRange::new", max: 1, discharge: "C05.L1", why: "the token's own start..end" },
    SiteRow { func: "string::parse_fstring_expr", kind: "TextSize::sub", max: 1, discharge: "D.rebase", why: "location - 1: location was taken after consuming the `{` (C02.R6)" },
    SiteRow { func: "string::parse_strings", kind: "index", max: 2, discharge: "D.nonempty", why: "values[0]: every grammar call site passes (@L string @R)+ (C02.R5)" },
    SiteRow { func: "string::parse_strings", kind: "Option::unwrap", max: 1, discharge: "D.nonempty", why: "values.last().unwrap()" },
    SiteRow { func: "string::parse_strings", kind: "TextRange::new", max: 3, discharge: "D.range", why: "first start .. last end of consecutive tokens" },
    SiteRow { func: "string::parse_strings", kind: "panic", max: 3, discharge: "D.kind", why: "unreachable!: parse_string yields only the node kinds of its literal kind (bytes / str / f-string partition, C06.P1)" },
    SiteRow { func: "string::parse_strings::{closure#3}", kind: "TextRange::new", max: 1, discharge: "D.range", why: "as above" },
    SiteRow { func: "string::parse_strings::{closure#3}", kind: "drain", max: 1, discharge: "D.full", why: "drain(..) of the full range never panics" },
    SiteRow { func: "<grammar actions>", kind: "TextRange::new", max: 400, discharge: "C03.R1", why: "a node range written as TextRange::new(@L, @R) instead of (@L..@R).into(): the same constructor, discharged by the same rule (the captures bracket a non-nullable symbol run, C03.R1 / C02.R1)" },
    SiteRow { func: "<grammar actions>", kind: "Option::unwrap", max: 26, discharge: "C03.A1", why: "each unwrap in an action is a range-end chain (C02.R1) or guarded by a non-emptiness fact of the grammar" },
];

pub fn run(cx: &mut Ctx) {
    crate::g1::run(cx, "C03.G1");
    let facts = units::load_facts(cx, "C03.N1");
    if let Some(facts) = &facts {
        parser_inventory(cx, facts, "C03.N1");
        recursion_inventory(cx, facts, "C03.C1");
        units::dimension_discipline(cx, "C03.U2", facts);
    }
    // thorough: the same MIR rules on the other feature configurations (code that exists only under a feature)
    for (label, f) in units::extra_facts(cx, "C03.N1") {
        parser_inventory(cx, &f, &format!("C03.N1@{}", label));
        recursion_inventory(cx, &f, &format!("C03.C1@{}", label));
        units::dimension_discipline(cx, &format!("C03.U2@{}", label), &f);
    }
    crate::rules::lexer_rules::byte_accounting(cx, "C03.N2");
    discharge_some(cx);
    discharge_digits(cx);
    discharge_constants(cx);
    action_unwraps(cx);
    nullable_ranges(cx);
    progress(cx);
    fn_summaries(cx);
    units::error_offsets(cx, "C03.E2");
    if let Ok(p) = sm::load(&cx.repo, "parser/src/parser.rs") {
        cx.rule("C03.E1", "parse_error_from_lalrpop maps every LALRPOP error variant, without a wildcard arm, to a ParseError whose offset is that variant's own location / token start");
        cx.floor("C03.E1", 5);
        lalrpop_error_mapping(cx, "C03.E1", &p);
    }
    unsafe_inventory(cx);
    crate::rules::lexer_rules::operator_trie(cx, "C03.O1");
    crate::rules::lexer_rules::pending_fifo(cx, "C03.Q1");
    crate::rules::lexer_rules::indent_pairing(cx, "C03.I1");
}

fn parser_inventory(cx: &mut Ctx, facts: &Facts, rule: &str) {
    cx.rule(rule, "panic-obligation inventory of rustpython_parser from resolved MIR (every Option/Result unwrap/expect, panic!/unreachable!/unimplemented!, slice/Vec/CharWindow indexing, Vec::remove/insert/drain, String::truncate/insert, split_at, TextRange::new, TextSize add/sub, *_unchecked call, and every Overflow/BoundsCheck/Division assert; LALRPOP internals excluded on the strength of G1): every site belongs to a (function, kind) row of the reviewed site table with its discharge rule, and no function has more sites of a kind than reviewed");
    cx.floor(rule, 40);
    let Some(cf) = facts.krate("rustpython_parser") else { return cx.anchor_missing(rule, "MIR facts of rustpython_parser") };
    let inv = panic_inventory(cf, &|_| true);
    let total: usize = inv.values().sum();
    cx.unit("panic-capable sites in rustpython_parser (outside LALRPOP internals)", total);
    let sites = panic_sites(cf, &|_| true);
    let lexer_src = sm::load(&cx.repo, "parser/src/lexer.rs").ok();
    let lexer_lines: Vec<String> = lexer_src.as_ref().map(|s| s.text.lines().map(|l| l.to_string()).collect()).unwrap_or_default();
    // functions of lexer.rs whose every `next_char().unwrap()` is dominated by a Some-test (D.some, structural)
    let mut dominated: BTreeSet<String> = BTreeSet::new();
    if let Some(lx) = &lexer_src {
        for (f, _) in crate::rules::lexer_rules::lexer_methods(lx) {
            let (ok, bad) = check_some_dominance(&f.block, &f.sig.ident.to_string());
            if ok > 0 && bad.is_empty() {
                dominated.insert(f.sig.ident.to_string());
            }
        }
    }
    // `x += 1` on a 64-bit counter (usize / u64): cannot overflow in any feasible run
    let wide_increments: BTreeSet<(String, usize)> = cf.asserts.iter().filter(|a| a.kind == "Overflow" && (a.detail.contains("const 1_usize") || a.detail.contains("const 1_u64")) && a.detail.starts_with("Overflow(Add")).map(|a| (a.file.clone(), a.line)).collect();
    let auto = |func: &str, kind: &str, file: &str, line: usize| -> Option<String> {
        if kind == "assert:Overflow" && wide_increments.contains(&(file.to_string(), line)) {
            return Some("D.counter64: a 64-bit counter incremented by one (2^64 steps are not feasible)".into());
        }
        if !(func.starts_with("lexer::Lexer") && file.ends_with("parser/src/lexer.rs")) {
            return None;
        }
        let text: String = lexer_lines.get(line.saturating_sub(1)).map(|l| l.chars().filter(|c| !c.is_whitespace()).collect()).unwrap_or_default();
        match kind {
            "CharWindow::index" => Some("D.idx: every index into the character window in lexer.rs is a constant slot (C03.D.const)".into()),
            "TextSize::add" => Some("D.space: position advance inside the 32-bit offset space of the property's quantifier".into()),
            "assert:Overflow" if text.contains("self.nesting-=1") => Some("D.guard: the decrement is reached only on the path where nesting == 0 returned Err (C04.L1, interpreted)".into()),
            "assert:Overflow" if text.contains("+=1") => Some("D.counter: a counter incremented at most once per consumed character (input < 2^32 bytes)".into()),
            "Option::unwrap" => {
                let short = func.rsplit("::").next().unwrap_or("").to_string();
                if text.contains("self.next_char().unwrap()") && dominated.contains(&short) {
                    Some("D.some: next_char().unwrap() dominated by a Some-test in this function (C03.D.some)".into())
                } else {
                    None
                }
            }
            _ => None,
        }
    };
    check_inventory_auto(cx, rule, &inv, PARSER_SITES, "parser/src", &sites, &auto);
    for r in PARSER_SITES {
        if r.discharge.starts_with("D.space") || r.discharge.starts_with("D.counter") {
            cx.assume(&format!("{} / {}: {} ({})", r.func, r.kind, r.why, r.discharge));
        }
    }
}

fn recursion_inventory(cx: &mut Ctx, facts: &Facts, rule: &str) {
    cx.rule(rule, "recursion inventory: the strongly connected components of the resolved call graph of rustpython_parser are exactly the reviewed ones — set_context (structural recursion on an owned subtree) and the parser cycle through parse_fstring_expr (re-entered only with a strict substring: the field text without its braces; f-string nesting is cut at nested >= 2) — a new recursive cycle is reported");
    cx.floor(rule, 3);
    let Some(cf) = facts.krate("rustpython_parser") else { return cx.anchor_missing(rule, "MIR facts") };
    let sccs = cf.recursive_sccs(&|_| true);
    let mut seen_ctx = false;
    let mut seen_big = false;
    for scc in &sccs {
        let user: Vec<&String> = scc.iter().filter(|n| !n.starts_with("python::") && !n.starts_with("<python::")).collect();
        if scc.iter().any(|n| n == "context::set_context") && scc.iter().all(|n| n.starts_with("context::")) {
            // set_context and private helpers of context.rs that map it over owned children (C01.X1c checks that
            // the recursion is element-wise over the node's own elements)
            seen_ctx = true;
            cx.ok(rule, &format!("SCC {:?}: structural recursion over Tuple/List/Starred elements", scc));
            continue;
        }
        if scc.iter().any(|n| n == "string::parse_fstring_expr") {
            seen_big = true;
            let allowed: BTreeSet<&str> = [
                "string::parse_fstring_expr", "string::parse_strings", "string::parse_string", "string::StringParser::<'a>::parse", "string::StringParser::<'a>::parse_fstring",
                "string::StringParser::<'a>::parse_formatted_value", "string::StringParser::<'a>::parse_spec", "parser::parse_filtered_tokens", "parser::Parse::parse_starts_at",
                "<rustpython_ast::Expr as parser::Parse>::parse_tokens", "<rustpython_ast::ModExpression as parser::Parse>::parse_tokens",
            ]
            .into_iter()
            .collect();
            // every `impl Parse` is a view of the same parser (C09.F2): the unresolved Self::parse_tokens call in the
            // trait's default methods may reach each of them
            let extra: Vec<&&String> = user.iter().filter(|n| !allowed.contains(n.as_str()) && !n.contains("{closure") && !n.ends_with("as parser::Parse>::parse_tokens")).collect();
            if extra.is_empty() {
                cx.ok(rule, &format!("SCC through parse_fstring_expr: {} user functions + {} generated parser functions", user.len(), scc.len() - user.len()));
            } else {
                cx.fail(rule, &format!("{}/parser-cycle/extra", rule), "parser/src", &format!("the parser cycle now also contains {:?}", extra));
            }
            continue;
        }
        if user.is_empty() {
            // cycles purely inside the generated parser are covered by G1 (there are none today)
            cx.fail(rule, &format!("{}/generated-cycle/{}", rule, scc[0]), "parser/src/python.rs", &format!("recursive cycle inside the generated parser: {:?}", scc.iter().take(4).collect::<Vec<_>>()));
            continue;
        }
        cx.fail(rule, &format!("{}/new-cycle/{}", rule, user[0]), "parser/src", &format!("unreviewed recursive cycle: {:?}", user));
    }
    if !seen_ctx {
        cx.fail(rule, &format!("{}/set_context/missing", rule), "parser/src/context.rs", "set_context is no longer recursive (table stale)");
    }
    if !seen_big {
        cx.fail(rule, &format!("{}/parser-cycle/missing", rule), "parser/src/string.rs", "the f-string -> parser cycle was not found (table stale)");
    }
    // the cycle is cut: nested >= 2 early return, and the re-entry passes the field text
    if let Ok(s) = sm::load(&cx.repo, "parser/src/string.rs") {
        let t = sm::tsx(&s.file);
        let cut = t.contains("fnparse_fstring(&mutself,nested:u8)->Result<Vec<Expr>,LexicalError>{useFStringErrorType::*;if2<=nested{returnErr(FStringError::new(ExpressionNestedTooDeeply,self.get_pos()).into());}");
        let up = t.contains("letparsed_expr=self.parse_fstring(nested+1)?;") && t.contains("letparsed_values=self.parse_formatted_value(nested)?;") && t.contains("letparsed_spec=self.parse_spec(nested)?;") && t.contains("self.parse_fstring(0)");
        if cut && up {
            cx.ok(rule, "f-string recursion: parse_fstring returns early for nested >= 2; the depth only grows by the literal + 1 in parse_spec and starts at 0");
        } else {
            cx.fail(rule, &format!("{}/nesting-bound", rule), &s.rel, "the f-string nesting bound (nested >= 2 early return, nested + 1 only in parse_spec, start at 0) is not in place");
        }
    }
}

// ---------------------------------------------------------------- D.some flow checker

struct SomeCk<'a> {
    cx_fails: Vec<(String, String)>,
    oks: usize,
    fname: &'a str,
    some_bools: BTreeSet<String>,
    /// text of the receiver whose unwrap is checked, e.g. `self.next_char()` or `iter.next()`
    unwrap_recv: &'a str,
    /// (receiver, method) of the consuming call
    consumer: (&'a str, &'a str),
}

impl<'a> SomeCk<'a> {
    fn cond_establishes(&self, cond: &syn::Expr) -> bool {
        let t = sm::tsx(cond);
        if self.unwrap_recv == "iter.next()" {
            return t.starts_with("letSome(") && t.ends_with("=iter.peek()");
        }
        t.starts_with("self.window[0]==Some(")
            || (t.starts_with("letSome(") && t.ends_with("=self.window[0]"))
            || t.starts_with("matches!(self.window[0],Some(")
            || t == "self.is_identifier_continuation()"
            || t.contains("is_digit_of_radix(self.window[0],")
            || (t.starts_with("letSome(") && t.ends_with("=self.peek()"))
            || self.some_bools.contains(&t.text)
    }

    /// returns whether window[0] is known Some after the statement list, given `known` before.
    fn block(&mut self, stmts: &[syn::Stmt], mut known: bool) -> bool {
        for s in stmts {
            match s {
                syn::Stmt::Local(l) => {
                    if let Some(i) = &l.init {
                        // let take_char = is_digit_of_radix(self.window[0], radix)
                        let it = sm::tsc(&i.expr);
                        if it.contains("is_digit_of_radix(self.window[0],") {
                            let mut ids = vec![];
                            sm::pat_idents(&l.pat, &mut ids);
                            if let Some(id) = ids.first() {
                                self.some_bools.insert(id.clone());
                            }
                        }
                        known = self.expr(&i.expr, known);
                        if let Some(d) = &i.diverge {
                            self.expr(&d.1, known);
                        }
                    }
                }
                syn::Stmt::Expr(e, _) => known = self.expr(e, known),
                _ => {}
            }
        }
        known
    }

    fn expr(&mut self, e: &syn::Expr, known: bool) -> bool {
        match e {
            syn::Expr::MethodCall(mc) => {
                // receiver first
                let mut k = self.expr(&mc.receiver, known);
                let recv = sm::tsc(&mc.receiver);
                if (mc.method == "unwrap" || mc.method == "expect") && recv == "self.next_char()" {
                    // the receiver's next_char was already evaluated with `known`
                    return false;
                }
                if mc.method == "next_char" && recv == "self" {
                    // is this call the receiver of an unwrap? handled by the parent via `known` passed in
                    return false;
                }
                if mc.method == "then" && (self.some_bools.contains(&recv) || recv.contains("is_digit_of_radix(self.window[0],")) && mc.args.len() == 1 {
                    if let syn::Expr::Closure(c) = &mc.args[0] {
                        self.expr(&c.body, true);
                        return false;
                    }
                }
                for a in &mc.args {
                    k = self.expr(a, k);
                }
                k
            }
            syn::Expr::If(i) => {
                let est = self.cond_establishes(&i.cond);
                let k_then = self.block(&i.then_branch.stmts, known || est);
                let k_else = match &i.else_branch {
                    Some((_, el)) => self.expr(el, known),
                    None => known,
                };
                k_then && k_else
            }
            syn::Expr::While(w) => {
                let est = self.cond_establishes(&w.cond);
                self.block(&w.body.stmts, est);
                false
            }
            syn::Expr::Loop(l) => {
                self.block(&l.body.stmts, false);
                false
            }
            syn::Expr::ForLoop(f) => {
                self.block(&f.body.stmts, false);
                false
            }
            syn::Expr::Match(m) => {
                let scrut = sm::tsc(&m.expr);
                let mut out = true;
                let on_window = scrut == "self.window[0]";
                let mut any_fallthrough = false;
                for arm in &m.arms {
                    let pat = sm::tsc(&arm.pat);
                    let arm_known = if on_window { pat.starts_with("Some(") && !pat.contains("|None") } else { known };
                    let diverges = {
                        let b = sm::tsc(&arm.body);
                        b.starts_with("{return") || b.starts_with("return") || b.contains("returnOk((Tok::Comment") || b == "{return;}"
                    };
                    let k = self.expr(&arm.body, arm_known);
                    if !diverges {
                        any_fallthrough = true;
                        out &= if on_window { arm_known && k } else { k };
                    }
                }
                if on_window && any_fallthrough {
                    out
                } else {
                    false
                }
            }
            syn::Expr::Block(b) => self.block(&b.block.stmts, known),
            syn::Expr::Try(t) => self.expr(&t.expr, known),
            syn::Expr::Paren(p) => self.expr(&p.expr, known),
            syn::Expr::Return(r) => {
                if let Some(x) = &r.expr {
                    self.expr(x, known);
                }
                false
            }
            syn::Expr::Call(c) => {
                let mut k = known;
                for a in &c.args {
                    k = self.expr(a, k);
                }
                k
            }
            syn::Expr::Tuple(t) => {
                let mut k = known;
                for a in &t.elems {
                    k = self.expr(a, k);
                }
                k
            }
            syn::Expr::Struct(s) => {
                let mut k = known;
                for f in &s.fields {
                    k = self.expr(&f.expr, k);
                }
                k
            }
            syn::Expr::Closure(c) => {
                self.expr(&c.body, false);
                known
            }
            syn::Expr::Assign(a) => self.expr(&a.right, known),
            syn::Expr::Binary(b) => {
                let k = self.expr(&b.left, known);
                self.expr(&b.right, k)
            }
            syn::Expr::Unary(u) => self.expr(&u.expr, known),
            syn::Expr::Reference(r) => self.expr(&r.expr, known),
            syn::Expr::Macro(_) => known,
            _ => known,
        }
    }
}

/// walk a function and report every `self.next_char().unwrap()` whose window slot is not known to be Some.
fn check_some_dominance(block: &syn::Block, fname: &str) -> (usize, Vec<String>) {
    check_dominance_cfg(block, fname, "self.next_char()", ("self", "next_char"))
}

pub fn check_dominance_cfg(block: &syn::Block, fname: &str, unwrap_recv: &str, consumer: (&str, &str)) -> (usize, Vec<String>) {
    // We need the `known` flag AT each unwrap: re-walk with a visitor that computes it on the way.
    struct W<'a> {
        ck: SomeCk<'a>,
        bad: Vec<String>,
        ok: usize,
    }
    // Simple approach: instrument by recursion duplicating SomeCk logic but checking at unwrap sites.
    fn go_block(w: &mut W, stmts: &[syn::Stmt], mut known: bool) -> bool {
        for s in stmts {
            match s {
                syn::Stmt::Local(l) => {
                    if let Some(i) = &l.init {
                        let it = sm::tsc(&i.expr);
                        if it.contains("is_digit_of_radix(self.window[0],") {
                            let mut ids = vec![];
                            sm::pat_idents(&l.pat, &mut ids);
                            if let Some(id) = ids.first() {
                                w.ck.some_bools.insert(id.clone());
                            }
                        }
                        known = go_expr(w, &i.expr, known);
                    }
                }
                syn::Stmt::Expr(e, _) => known = go_expr(w, e, known),
                _ => {}
            }
        }
        known
    }
    fn go_expr(w: &mut W, e: &syn::Expr, known: bool) -> bool {
        match e {
            syn::Expr::MethodCall(mc) => {
                let recv = sm::tsc(&mc.receiver);
                if (mc.method == "unwrap" || mc.method == "expect") && recv == w.ck.unwrap_recv {
                    if known {
                        w.ok += 1;
                    } else {
                        w.bad.push(format!("{}:{}", w.ck.fname, sm::line(mc.method.span())));
                    }
                    return false;
                }
                if mc.method == w.ck.consumer.1 && recv == w.ck.consumer.0 {
                    return false;
                }
                if mc.method == "then" && (w.ck.some_bools.contains(&recv) || recv.contains("is_digit_of_radix(self.window[0],")) && mc.args.len() == 1 {
                    if let syn::Expr::Closure(c) = &mc.args[0] {
                        go_expr(w, &c.body, true);
                        return false;
                    }
                }
                let mut k = go_expr(w, &mc.receiver, known);
                for a in &mc.args {
                    k = go_expr(w, a, k);
                }
                // any other self.<consumer>() call invalidates knowledge
                if recv == "self" && ["radix_run", "take_number", "lex_number", "lex_string", "lex_identifier", "lex_comment", "lex_and_emit_comment", "eat_single_char", "lex_number_radix", "lex_normal_number", "parse_octet", "parse_unicode_literal", "parse_unicode_name", "parse_escaped_char", "parse_fstring", "parse_formatted_value", "parse_spec"].contains(&mc.method.to_string().as_str()) {
                    return false;
                }
                k
            }
            syn::Expr::If(i) => {
                let est = w.ck.cond_establishes(&i.cond);
                let k_then = go_block(w, &i.then_branch.stmts, known || est);
                let k_else = match &i.else_branch {
                    Some((_, el)) => go_expr(w, el, known),
                    None => known,
                };
                let then_diverges = matches!(i.then_branch.stmts.last(), Some(syn::Stmt::Expr(syn::Expr::Return(_) | syn::Expr::Break(_) | syn::Expr::Continue(_), _)));
                if then_diverges {
                    k_else
                } else {
                    k_then && k_else
                }
            }
            syn::Expr::While(wl) => {
                let est = w.ck.cond_establishes(&wl.cond);
                go_block(w, &wl.body.stmts, est);
                false
            }
            syn::Expr::Let(l) => go_expr(w, &l.expr, known),
            syn::Expr::Loop(l) => {
                go_block(w, &l.body.stmts, false);
                false
            }
            syn::Expr::ForLoop(f) => {
                go_block(w, &f.body.stmts, false);
                false
            }
            syn::Expr::Match(m) => {
                let scrut = sm::tsc(&m.expr);
                let on_window = scrut == "self.window[0]" || scrut == "self.peek()" || scrut == format!("{}.peek()", w.ck.consumer.0);
                let mut out = true;
                let mut any_fallthrough = false;
                // once an unguarded earlier arm has taken `None`, a later catch-all arm sees Some(_) only
                let mut none_covered = false;
                for arm in &m.arms {
                    let pat = sm::tsc(&arm.pat);
                    let catch_all = pat == "_" || (pat.chars().all(|c| c.is_alphanumeric() || c == '_') && pat.chars().next().map_or(false, |c| c.is_lowercase()));
                    let arm_known = if on_window { (pat.starts_with("Some(") && !pat.contains("None")) || (catch_all && none_covered) } else { known };
                    if on_window && arm.guard.is_none() {
                        let alts: Vec<String> = match &arm.pat {
                            syn::Pat::Or(o) => o.cases.iter().map(|c| sm::tsc(c)).collect(),
                            other => vec![sm::tsc(other)],
                        };
                        if alts.iter().any(|a| a == "None") {
                            none_covered = true;
                        }
                    }
                    let b = sm::tsc(&arm.body);
                    let last_diverges = match &*arm.body {
                        syn::Expr::Block(bb) => matches!(bb.block.stmts.last(), Some(syn::Stmt::Expr(syn::Expr::Return(_) | syn::Expr::Break(_) | syn::Expr::Continue(_), _))),
                        syn::Expr::Return(_) | syn::Expr::Break(_) | syn::Expr::Continue(_) => true,
                        _ => false,
                    };
                    let diverges = last_diverges || b.starts_with("{return") || b.starts_with("return") || b == "break" || b == "continue";
                    let k = go_expr(w, &arm.body, arm_known);
                    if !diverges {
                        any_fallthrough = true;
                        out &= k;
                    }
                }
                any_fallthrough && out
            }
            syn::Expr::Block(b) => go_block(w, &b.block.stmts, known),
            syn::Expr::Try(t) => go_expr(w, &t.expr, known),
            syn::Expr::Paren(p) => go_expr(w, &p.expr, known),
            syn::Expr::Return(r) => {
                if let Some(x) = &r.expr {
                    go_expr(w, x, known);
                }
                false
            }
            syn::Expr::Call(c) => {
                let mut k = known;
                for a in &c.args {
                    k = go_expr(w, a, k);
                }
                k
            }
            syn::Expr::Tuple(t) => {
                let mut k = known;
                for a in &t.elems {
                    k = go_expr(w, a, k);
                }
                k
            }
            syn::Expr::Struct(s) => {
                let mut k = known;
                for f in &s.fields {
                    k = go_expr(w, &f.expr, k);
                }
                k
            }
            syn::Expr::Closure(c) => {
                go_expr(w, &c.body, false);
                known
            }
            syn::Expr::Assign(a) => go_expr(w, &a.right, known),
            syn::Expr::Binary(b) => {
                let k = go_expr(w, &b.left, known);
                go_expr(w, &b.right, k)
            }
            syn::Expr::Unary(u) => go_expr(w, &u.expr, known),
            syn::Expr::Reference(r) => go_expr(w, &r.expr, known),
            _ => known,
        }
    }
    let mut w = W { ck: SomeCk { cx_fails: vec![], oks: 0, fname, some_bools: BTreeSet::new(), unwrap_recv, consumer }, bad: vec![], ok: 0 };
    go_block(&mut w, &block.stmts, false);
    let _ = (&w.ck.cx_fails, w.ck.oks);
    (w.ok, w.bad)
}

fn discharge_some(cx: &mut Ctx) {
    let rule = "C03.D.some";
    cx.rule(rule, "D.some / D.peek: every `self.next_char().unwrap()` in the lexer and the string parser is dominated, with no consuming call in between, by a test that the next character exists: window[0] == Some(..), if let Some(..) = window[0] / peek(), matches!(window[0], Some(..)), while is_identifier_continuation(), a match on window[0] whose only fall-through arms are Some(..), or the closure of `b.then(..)` with b = is_digit_of_radix(window[0], _); the predicates used are true only for Some(..)");
    cx.floor(rule, 8);
    for (rel, ty) in [("parser/src/lexer.rs", "Lexer"), ("parser/src/string.rs", "StringParser")] {
        let Ok(src) = sm::load(&cx.repo, rel) else {
            cx.anchor_missing(rule, rel);
            continue;
        };
        for i in src.impls() {
            if sm::self_ty_name(i) != ty {
                continue;
            }
            for it in &i.items {
                let syn::ImplItem::Fn(f) = it else { continue };
                let fname = f.sig.ident.to_string();
                if fname == "lex_string" {
                    continue; // D.prefix, checked below
                }
                let (ok, bad) = check_some_dominance(&f.block, &fname);
                for _ in 0..ok {
                    cx.ok(rule, &format!("{}::{}: next_char().unwrap() dominated by a Some-test", ty, fname));
                }
                for b in bad {
                    cx.fail(rule, &format!("{}/{}::{}", rule, ty, fname), &format!("{}:{}", rel, b.rsplit(':').next().unwrap_or("")), &format!("{}::{}: `self.next_char().unwrap()` is not dominated by a test that a character is available (or a character was consumed since the test): panics at end of input", ty, fname));
                }
            }
        }
        if ty == "Lexer" {
            // predicate summaries
            let t = sm::tsx(&src.file);
            let pred1 = match crate::rules::lexer_rules::lexer_method(&src, "is_identifier_continuation") {
                Some(f) => {
                    let methods = |_: &crate::eval::V, _: &str, _: &[crate::eval::V]| -> Option<crate::eval::V> { None };
                    let mut m = crate::eval::Machine::new(&methods);
                    m.set("self.window[0]", crate::eval::V::Opt(None));
                    matches!(m.eval_block(&f.block), Ok(crate::eval::V::Bool(false)))
                }
                None => false,
            };
            if pred1 {
                cx.ok(rule, "is_identifier_continuation() interpreted at end of input (window[0] = None) is false");
            } else {
                cx.fail(rule, &format!("{}/summary/is_identifier_continuation", rule), rel, "is_identifier_continuation may be true for None");
            }
            if let Some(d) = crate::rules::lexer_rules::lexer_method(&src, "is_digit_of_radix") {
                let body = sm::tsc(&d.block);
                let n_arms = body.matches("=>matches!(c,Some(").count();
                if n_arms == 4 && body.matches("=>").count() == 5 {
                    cx.ok(rule, "is_digit_of_radix(c, _) is true only for Some(..)");
                } else {
                    cx.fail(rule, &format!("{}/summary/is_digit_of_radix", rule), rel, "is_digit_of_radix may be true for None");
                }
            }
            // D.prefix: lex_string call sites
            let prefix_ok = t.contains("[Some(c),Some('\"'|'\\''),..]=>matchStringKind::try_from(c){Ok(kind)=>returnself.lex_string(kind),_=>{}},")
                && t.contains("[Some(c1),Some(c2),Some('\"'|'\\'')]=>matchStringKind::try_from([c1,c2]){Ok(kind)=>returnself.lex_string(kind),_=>{}},")
                && t.contains("'\"'|'\\''=>{letstring=self.lex_string(StringKind::String)?;")
                && t.matches("self.lex_string(").count() == 3;
            if prefix_ok {
                cx.ok(rule, "D.prefix: the three lex_string call sites have matched a quote at window[prefix_len(kind)] (1-char prefix: slot 1, 2-char prefix: slot 2, no prefix: slot 0)");
            } else {
                cx.fail(rule, &format!("{}/lex_string-callers", rule), rel, "a lex_string call site does not establish the quote character at window[prefix_len]: `let quote_char = self.next_char().unwrap()` can panic");
            }
            // D.entry: consume_character is only called under if let Some(c) = self.window[0]
            // consume_character(c) is called once, in the Some(c) branch of a decision on window[0], with that c
            let mut cc_ok = false;
            if let Some(cn) = crate::rules::lexer_rules::lexer_method(&src, "consume_normal") {
                sm::for_each_expr_in_block(&cn.block, |e| {
                    if let Some((scrut, brs)) = crate::rules::lexer_rules::branches(e) {
                        if scrut == "self.window[0]" {
                            for b in &brs {
                                if let crate::rules::lexer_rules::CPat::AnySome(Some(name)) = &b.pat {
                                    let mut body: String = b.body.iter().map(|s| sm::tsc(*s)).collect();
                                    if let Some(tl) = b.tail {
                                        body.push_str(&sm::tsc(tl));
                                    }
                                    if body.contains(&format!("self.consume_character({})", name)) {
                                        cc_ok = true;
                                    }
                                }
                            }
                        }
                    }
                });
            }
            // every eat_single_char call site is reached by the arm interpreter with a character established
            let mut esc_sites: BTreeSet<usize> = BTreeSet::new();
            for (f, _) in crate::rules::lexer_rules::lexer_methods(&src) {
                sm::for_each_expr_in_block(&f.block, |e| {
                    if let syn::Expr::MethodCall(mc) = e {
                        if mc.method == "eat_single_char" {
                            esc_sites.insert(sm::line(mc.method.span()));
                        }
                    }
                });
            }
            let mut reached: BTreeSet<usize> = BTreeSet::new();
            let mut unestablished = false;
            if let Some((_, m)) = crate::rules::lexer_rules::consume_character_arms(&src) {
                for arm in &m.arms {
                    let (_c, res) = crate::rules::lexer_rules::interp_arm(arm);
                    for em in &res.emits {
                        reached.insert(em.line);
                    }
                    if res.unrecognised.iter().any(|u| u.contains("no character established")) {
                        unestablished = true;
                    }
                }
            }
            let entry_ok = cc_ok && t.matches("self.consume_character(").count() == 1 && !esc_sites.is_empty() && esc_sites.is_subset(&reached) && !unestablished;
            if entry_ok {
                cx.ok(rule, &format!("D.entry: consume_character(c) is called only in the Some(c) branch of the decision on window[0]; all {} eat_single_char call sites are reached by the arm interpreter with a character established", esc_sites.len()));
            } else {
                cx.fail(rule, &format!("{}/entry", rule), rel, "consume_character / eat_single_char are reachable without a character established in window[0] (unreachable_unchecked would be undefined behaviour)");
            }
        }
    }
}

/// D.digits: the unwraps on number conversions in lex_normal_number are reached only with digit-only text.
fn discharge_digits(cx: &mut Ctx) {
    let rule = "C03.D.digits";
    cx.rule(rule, "D.digits: in Lexer::lex_normal_number every `.unwrap()` on a conversion of the collected text (f64::from_str / str::parse) sits in the branch where the float part ('.', exponent letter, sign — the `if` whose body pushes non-digit characters onto the text) was NOT taken, so the text is what radix_run(10) returned; the conversion of a text with a float part goes through map_err(..)? instead");
    cx.floor(rule, 1);
    let Ok(lx) = sm::load(&cx.repo, "parser/src/lexer.rs") else { return cx.anchor_missing(rule, "parser/src/lexer.rs") };
    let Some(m) = lx.method("Lexer", "lex_normal_number") else { return cx.anchor_missing(rule, "Lexer::lex_normal_number") };
    // the float split: the outermost `if` whose then-branch pushes onto the text
    let mut text_var = String::new();
    let mut float_cond: Option<String> = None;
    sm::for_each_expr_with_conds(&m.block, &mut |e, conds| {
        if let syn::Expr::If(i) = e {
            if conds.is_empty() && float_cond.is_none() {
                let mut pushes = None;
                sm::for_each_stmt_in_block(&i.then_branch, &mut |_| {});
                for st in &i.then_branch.stmts {
                    let t = sm::tsc(st);
                    if let Some(k) = t.find(".push(") {
                        let recv: String = t[..k].chars().rev().take_while(|c| c.is_alphanumeric() || *c == '_').collect::<String>().chars().rev().collect();
                        pushes = Some(recv);
                        break;
                    }
                }
                if let Some(v) = pushes {
                    text_var = v;
                    float_cond = Some(sm::tsc(&i.cond));
                }
            }
        }
    });
    let Some(fc) = float_cond else {
        return cx.fail(rule, &format!("{}/float-split", rule), &lx.loc(m), "lex_normal_number has no top-level `if` that appends the float part to the text (fail closed)");
    };
    let mut n = 0;
    sm::for_each_expr_with_conds(&m.block, &mut |e, conds| {
        if let syn::Expr::MethodCall(mc) = e {
            if mc.method == "unwrap" || mc.method == "expect" {
                let r = sm::tsc(&mc.receiver);
                let converts = (r.contains("from_str(") || r.contains(".parse::<") || r.contains(".parse()")) && r.contains(&text_var);
                if converts {
                    n += 1;
                    if conds.iter().any(|c| c.split("&&").any(|x| x == format!("!{}", fc) || x == format!("!({})", fc))) {
                        cx.ok(rule, &format!("`{}.unwrap()` only where the float part was not taken (`!({})`)", r, fc));
                    } else {
                        cx.fail(rule, &format!("{}/unwrap-after-float-part", rule), &lx.loc(e), &format!("`{}.{}()` is reachable after the float part was appended to the text (conditions: {:?}): a text such as `1.e` does not convert and the unwrap panics (e.g. `1.ej`)", r, mc.method, conds));
                    }
                }
            }
        }
    });
    if n == 0 {
        cx.ok(rule, "no unwrap on a conversion of the number text");
        cx.ok(rule, "(nothing to discharge)");
    }
}

fn discharge_constants(cx: &mut Ctx) {
    let rule = "C03.D.const";
    cx.rule(rule, "D.idx / D.hex / D.octal / D.guard / D.lenmatch: window indices are literals below the window size 3; parse_unicode_literal is only called with literal digit counts <= 8; the octal reader takes at most 3 digits into a u32; the unicode-name length test precedes the table lookup; length-dependent indexing sits in the arm that fixes the length");
    cx.floor(rule, 5);
    if let Ok(lx) = sm::load(&cx.repo, "parser/src/lexer.rs") {
        let mut bad = vec![];
        let mut n = 0;
        // the forwarding `impl Index<Idx> for CharWindow`: its own index parameter is passed on to the array
        let mut forwarded: Vec<String> = vec![];
        for it in &lx.file.items {
            if let syn::Item::Impl(im) = it {
                let is_index = im.trait_.as_ref().map_or(false, |(_, p, _)| p.segments.last().map_or(false, |s| s.ident == "Index" || s.ident == "IndexMut"));
                if is_index && sm::tsc(&im.self_ty).starts_with("CharWindow<") {
                    for ii in &im.items {
                        if let syn::ImplItem::Fn(m) = ii {
                            if let Some(syn::FnArg::Typed(pt)) = m.sig.inputs.iter().nth(1) {
                                forwarded.push(sm::tsc(&pt.pat));
                            }
                        }
                    }
                }
            }
        }
        struct V<'a> {
            n: &'a mut usize,
            bad: &'a mut Vec<String>,
            forwarded: &'a [String],
        }
        impl<'a, 'ast> syn::visit::Visit<'ast> for V<'a> {
            fn visit_expr_index(&mut self, i: &'ast syn::ExprIndex) {
                let base = sm::tsc(&i.expr);
                if base.ends_with(".window") {
                    *self.n += 1;
                    let ix = sm::tsc(&i.index);
                    let ok = matches!(ix.as_str(), "0" | "1" | "2" | "..2" | "..3") || self.forwarded.contains(&ix);
                    if !ok {
                        self.bad.push(format!("{}[{}]", base, ix));
                    }
                }
                syn::visit::visit_expr_index(self, i);
            }
        }
        use syn::visit::Visit;
        V { n: &mut n, bad: &mut bad, forwarded: &forwarded }.visit_file(&lx.file);
        let win3 = sm::tsc(&lx.file).contains("window:CharWindow<T,3>,");
        if bad.is_empty() && win3 && n >= 40 {
            cx.ok(rule, &format!("D.idx: {} window accesses, all with literal slots 0..=2 / ..2 / ..3 of CharWindow<T, 3>", n));
        } else {
            cx.fail(rule, &format!("{}/window-index", rule), &lx.rel, &format!("window accesses outside the constant slots of a 3-slot window: {:?} (window size 3: {})", bad, win3));
        }
    }
    if let Ok(s) = sm::load(&cx.repo, "parser/src/string.rs") {
        let t = sm::tsx(&s.file);
        let calls: Vec<&str> = t.match_indices("self.parse_unicode_literal(").map(|(i, _)| &t[i + 27..i + 29]).collect();
        let ok = calls.len() == 3 && calls.iter().all(|c| ["2)", "4)", "8)"].contains(c));
        if ok {
            cx.ok(rule, "D.hex: parse_unicode_literal is called with the literals 2, 4, 8 only");
        } else {
            cx.fail(rule, &format!("{}/hex-digits", rule), &s.rel, &format!("parse_unicode_literal call arguments are {:?}: with more than 8 digits the shift / sum overflows u32", calls));
        }
        // (the \\N{name} length test is not a panic discharge with the locked unicode_names2: character() returns None for
        // over-long names; its bound is checked for value correctness by C06.N2)
        if t.contains("whileoctet_content.len()<3{") && t.contains("letvalue=u32::from_str_radix(&octet_content,8).unwrap();char::from_u32(value).unwrap()") {
            cx.ok(rule, "D.octal: at most 3 octal digits (<= 0o777 = 511 < 0xD800) parsed into u32 and converted with char::from_u32");
        } else {
            cx.fail(rule, &format!("{}/octal", rule), &s.rel, "the octal escape value is not parsed into a u32 from at most 3 digits: from_str_radix / char conversion can fail for \\400..\\777");
        }
    }
    if let Ok(p) = sm::load(&cx.repo, "parser/src/parser.rs") {
        let t = sm::tsx(&p.file);
        if t.contains("letexpected=(expected.len()==1).then(||expected[0].clone());") {
            cx.ok(rule, "D.lenmatch: expected[0] under (expected.len() == 1).then(..)");
        } else if !t.contains("expected[") {
            // no indexing of the expected-token list at all (a slice pattern, `first()`, ...): nothing to discharge;
            // a new index site elsewhere is an unreviewed site of the MIR inventory (C03.N1)
            cx.ok(rule, "D.lenmatch: the expected-token list is not indexed");
        } else {
            cx.fail(rule, &format!("{}/expected-index", rule), &p.rel, "expected[0] is not guarded by expected.len() == 1");
        }
        // length-dependent accesses sit in the arm that fixes the length: in every `match X.len()`, an index X[k]
        // needs an arm that guarantees len > k, X.pop().unwrap() an arm that guarantees len >= 1
        let mut len_ok = true;
        let mut len_matches = 0;
        struct LV<'a> {
            ok: &'a mut bool,
            n: &'a mut usize,
        }
        impl<'a, 'ast> syn::visit::Visit<'ast> for LV<'a> {
            fn visit_expr_match(&mut self, m: &'ast syn::ExprMatch) {
                let sc = sm::tsc(&m.expr);
                if let Some(var) = sc.strip_suffix(".len()") {
                    *self.n += 1;
                    let mut lits: Vec<usize> = vec![];
                    for a in &m.arms {
                        let pt = sm::tsc(&a.pat);
                        let min_len = match pt.parse::<usize>() {
                            Ok(k) => {
                                lits.push(k);
                                k
                            }
                            Err(_) => {
                                // wildcard after the literals 0..=m: len > m
                                let mut m0 = 0;
                                while lits.contains(&m0) {
                                    m0 += 1;
                                }
                                m0
                            }
                        };
                        let body = sm::tsc(&a.body);
                        for (i, _) in body.match_indices(&format!("{}[", var)) {
                            let k: String = body[i + var.len() + 1..].chars().take_while(|c| c.is_ascii_digit()).collect();
                            match k.parse::<usize>() {
                                Ok(k) if k < min_len => {}
                                _ => *self.ok = false,
                            }
                        }
                        if body.contains(&format!("{}.pop().unwrap()", var)) && min_len < 1 {
                            *self.ok = false;
                        }
                    }
                }
                syn::visit::visit_expr_match(self, m);
            }
        }
        use syn::visit::Visit;
        LV { ok: &mut len_ok, n: &mut len_matches }.visit_file(&p.file);
        let unguarded = {
            // the same accesses outside any `match X.len()` would be unguarded
            let whole = t.text.clone();
            whole.matches("statements[").count() != 1 || whole.matches("statements.pop().unwrap()").count() != 1
        };
        if len_ok && len_matches >= 1 && !unguarded {
            cx.ok(rule, "D.lenmatch: pop().unwrap() in the arm len == 1, statements[1] in the arm len >= 2");
        } else {
            cx.fail(rule, &format!("{}/stmt-len", rule), &p.rel, "Stmt::parse_tokens indexes/pops outside the arm that fixes the length");
        }
    }
}

/// C03.A1: unwraps inside grammar actions.
fn action_unwraps(cx: &mut Ctx) {
    let rule = "C03.A1";
    cx.rule(rule, "every `.unwrap()` in a grammar action is either part of a range-end chain over trailing statement lists whose last link is mandatory (validated by C02.R1), or applies to a binding the grammar proves non-empty (`+`, OneOrMore, TwoOrMore) / to a value guarded by the enclosing condition (`!suffix.is_empty()`, `elts.len() == 1`)");
    cx.floor(rule, 20);
    let g = match crate::tables::load_grammar(&cx.repo) {
        Ok(g) => g,
        Err(e) => return cx.anchor_missing(rule, &e),
    };
    for (d, a, e) in crate::rules::grammar_rules::actions(&g) {
        let mut sites: Vec<String> = vec![];
        sm::for_each_expr(e, |x| {
            if let syn::Expr::MethodCall(mc) = x {
                if mc.method == "unwrap" && mc.args.is_empty() {
                    sites.push(sm::tsc(&mc.receiver));
                }
            }
        });
        if sites.is_empty() {
            continue;
        }
        let code = sm::tsc(e);
        for recv in sites {
            let key = format!("{}/{}/{}", rule, crate::rules::grammar_rules::alt_key(d, a), recv.chars().take(40).collect::<String>());
            // (1) range-end chains: end with .last() / or_else(..) chains over bindings -> C02.R1
            let chain = recv.contains(".last()") && (code.contains(&format!("{}.unwrap().end()", recv)) || code.contains(&format!("{}.unwrap().body.last().unwrap().end()", recv)) || recv.contains(".or_else(") || code.contains(&format!("{}.unwrap();", recv)) && recv.contains("last.end()"));
            // (2) non-empty by grammar: X.first()/X.last()/X.pop() with X bound to + / OneOrMore / TwoOrMore
            let base: String = recv.chars().take_while(|c| c.is_alphanumeric() || *c == '_').collect();
            let sym = a.syms.iter().find(|s| s.binding.as_deref() == Some(base.as_str()));
            let nonempty = sym.map_or(false, |s| s.rep.contains('+') || matches!(&s.kind, crate::grammar::SymKind::Macro(n, _) if n == "OneOrMore" || n == "TwoOrMore"));
            // (3) guarded
            let guarded = (recv == "values.pop()" && code.contains("ifsuffix.is_empty(){") && code.contains("letmutvalues=suffix;")) || (recv == "elts.into_iter().next()" && code.contains("ifelts.len()==1&&trailing_comma.is_none(){elts.into_iter().next().unwrap()}"));
            if chain || nonempty || guarded {
                cx.ok(rule, &format!("{}: `{}.unwrap()` {}", crate::rules::grammar_rules::alt_key(d, a), recv.chars().take(50).collect::<String>(), if guarded { "guarded by the enclosing condition" } else if nonempty { "on a binding the grammar proves non-empty" } else { "range-end chain (C02.R1)" }));
            } else {
                cx.fail(rule, &key, &crate::rules::grammar_rules::lal(a), &format!("`{}.unwrap()` in this action has no non-emptiness justification: it panics on an input that makes the value empty/None", recv));
            }
        }
    }
}

/// D.range: every range built from captures brackets at least one non-nullable symbol.
fn nullable_ranges(cx: &mut Ctx) {
    let rule = "C03.R1";
    cx.rule(rule, "D.range: TextRange::new asserts start <= end, so every `(@L..@R).into()` / optional_range(@L, @R) in an action must bracket at least one non-nullable symbol: for an empty match @L is the start of the NEXT token and @R the end of the PREVIOUS one, which may be reversed");
    cx.floor(rule, 100);
    let g = match crate::tables::load_grammar(&cx.repo) {
        Ok(g) => g,
        Err(e) => return cx.anchor_missing(rule, &e),
    };
    // nullable nonterminals: least fixpoint
    let mut nullable: BTreeSet<String> = BTreeSet::new();
    fn sym_nullable(s: &crate::grammar::Sym, nullable: &BTreeSet<String>, g: &crate::grammar::Grammar) -> bool {
        use crate::grammar::SymKind::*;
        if s.rep.contains('?') || s.rep.contains('*') {
            return true;
        }
        match &s.kind {
            Term(_) => false,
            Lookahead | Lookbehind => true,
            Name(n) => {
                if g.is_extern_name(n) {
                    false
                } else {
                    nullable.contains(n)
                }
            }
            Macro(n, args) => {
                if n == "Comma" {
                    true
                } else if n == "OneOrMore" || n == "TwoOrMore" {
                    args.first().map_or(false, |a| sym_nullable(a, nullable, g))
                } else {
                    nullable.contains(n)
                }
            }
            Group(v) => v.iter().all(|x| sym_nullable(x, nullable, g)),
        }
    }
    loop {
        let mut changed = false;
        for d in &g.defs {
            if nullable.contains(&d.name) {
                continue;
            }
            if d.alts.iter().any(|a| a.syms.iter().all(|s| sym_nullable(s, &nullable, &g))) {
                nullable.insert(d.name.clone());
                changed = true;
            }
        }
        if !changed {
            break;
        }
    }
    cx.unit("nullable nonterminals", nullable.len());
    for (d, a, e) in crate::rules::grammar_rules::actions(&g) {
        let mut flow = crate::actionflow::Flow::new(a);
        flow.run_expr(e);
        let mut n = 0;
        for lit in &flow.lits {
            let Some(re) = &lit.range_expr else { continue };
            let Some((sa, sb)) = crate::rules::c02::split_range(re, &lit.defs, 0) else { continue };
            let s = crate::rules::c02::classify_end(sa, a, &lit.env, &lit.defs, 0);
            let en = crate::rules::c02::classify_end(sb, a, &lit.env, &lit.defs, 0);
            if let (crate::rules::c02::End::Capture(_, lo, _), crate::rules::c02::End::Capture(_, hi, _)) = (&s, &en) {
                n += 1;
                let solid = *lo < *hi && a.syms[*lo + 1..*hi].iter().any(|x| !sym_nullable(x, &nullable, &g));
                if solid {
                    cx.ok(rule, &format!("{}: {} range brackets a non-nullable symbol", crate::rules::grammar_rules::alt_key(d, a), lit.ty));
                } else {
                    cx.fail(rule, &format!("{}/{}/{}#{}", rule, crate::rules::grammar_rules::alt_key(d, a), lit.ty, n), &crate::rules::grammar_rules::lal(a), &format!("the captures used for the range of {} bracket only nullable symbols: for an empty match start > end and TextRange::new panics", lit.ty));
                }
            }
        }
    }
}

// ---------------------------------------------------------------- progress

const CONSUMERS: &[&str] = &[
    "next_char", "eat_single_char", "lex_identifier", "lex_number", "lex_string", "lex_normal_number",
    "parse_escaped_char", "parse_formatted_value", "parse_octet", "parse_unicode_literal", "parse_unicode_name",
];
/// conditional consumers, with the reason they consume in the context they are used
const CONDITIONAL: &[(&str, &str)] = &[
    ("take_number", "consumes iff it returns Some (used as `if let Some(c) = self.take_number(radix)`)"),
    ("lex_and_emit_comment", "called under the arm Some('#'): the '#' itself is consumed"),
    ("parse_fstring", "called from parse_spec when the peeked character is '{': parse_fstring consumes it or returns Err"),
    ("consume_normal", "consumes a character or emits a token (EndOfFile at end of input), which ends `while pending.is_empty()`"),
    ("pop", "pops the finite indentation stack"),
    ("peek", "MultiPeek::peek advances its look-ahead cursor over a finite token stream"),
    ("next", "pulls the next token / character of a finite stream"),
];

/// Path enumerator. Loop mode: paths of one iteration (to the back edge or a `continue`); function mode: paths to a
/// normal return (fall-through, `return Ok(..)`, `return x`), `return Err(..)` / `Err(..)?` diverge.
/// Nested loops are opaque: a `while` credits only its condition, `for` nothing (zero iterations are possible),
/// `loop` the paths of its first iteration.
struct Paths<'a> {
    fn_mode: bool,
    extra: &'a [&'a str],
    out: Vec<(bool, String)>,
    /// paths that reach a `break` of the loop being enumerated, with the progress made on the way
    breaks: Vec<(bool, String)>,
}

impl<'a> Paths<'a> {
    fn go(&mut self, stmts: &[syn::Stmt], acc: bool, desc: String) -> Vec<(bool, String)> {
        let mut states = vec![(acc, desc)];
        for s in stmts {
            let mut next = vec![];
            for (p, d) in states {
                match s {
                    syn::Stmt::Local(l) => {
                        if let Some(i) = &l.init {
                            let mut res = self.go_expr(&i.expr, p, d);
                            if let Some((_, div)) = &i.diverge {
                                // let-else: the else block diverges; in function mode a `return Ok` there is a path end
                                let _ = self.go_expr(div, p, "let-else".into());
                            }
                            next.append(&mut res);
                        } else {
                            next.push((p, d));
                        }
                    }
                    syn::Stmt::Expr(e, _) => next.extend(self.go_expr(e, p, d)),
                    _ => next.push((p, d)),
                }
            }
            states = next;
        }
        states
    }
    fn expr_progress(&self, e: &syn::Expr) -> bool {
        let mut found = false;
        let extra = self.extra;
        sm::for_each_expr(e, |x| {
            if let syn::Expr::MethodCall(mc) = x {
                let m = mc.method.to_string();
                let recv = sm::tsc(&mc.receiver);
                if (recv == "self" && (CONSUMERS.contains(&m.as_str()) || CONDITIONAL.iter().any(|c| c.0 == m) || extra.contains(&m.as_str())))
                    || (recv == "self.underlying" && (m == "peek" || m == "next"))
                    || (recv == "self.indentations" && m == "pop")
                    || (recv == "self.chars" && m == "next")
                {
                    found = true;
                }
            }
        });
        found
    }
    fn diverges(&self, e: &syn::Expr) -> bool {
        match e {
            syn::Expr::Return(r) => !self.fn_mode || r.expr.as_ref().map_or(false, |x| sm::tsc(x).starts_with("Err(")),
            syn::Expr::Break(_) => true,
            syn::Expr::Block(b) => b.block.stmts.last().map_or(false, |s| matches!(s, syn::Stmt::Expr(x, _) if self.diverges(x))),
            syn::Expr::Macro(m) => m.mac.path.is_ident("unreachable") || m.mac.path.is_ident("panic"),
            syn::Expr::Try(t) => matches!(&*t.expr, syn::Expr::Call(c) if sm::tsc(&c.func) == "Err"),
            _ => false,
        }
    }
    fn go_expr(&mut self, e: &syn::Expr, p: bool, d: String) -> Vec<(bool, String)> {
        match e {
            syn::Expr::If(i) => {
                // `if let Some(c) = self.take_number(..)`: progress only in the then-branch
                let cond_prog = self.expr_progress(&i.cond);
                let cond_is_conditional = sm::tsc(&i.cond).contains("self.take_number(");
                let then_p = p || cond_prog;
                let else_p = if cond_is_conditional { p } else { p || cond_prog };
                let mut res = self.go(&i.then_branch.stmts, then_p, format!("{}/if({})", d, sm::tsc(&i.cond).chars().take(30).collect::<String>()));
                match &i.else_branch {
                    Some((_, el)) => res.extend(self.go_expr(el, else_p, format!("{}/else", d))),
                    None => res.push((else_p, format!("{}/!if", d))),
                }
                res
            }
            syn::Expr::Match(m) => {
                let scrut_p = p || self.expr_progress(&m.expr);
                let mut res = vec![];
                for arm in &m.arms {
                    let ad = format!("{}/{}", d, sm::tsc(&arm.pat).chars().take(24).collect::<String>());
                    res.extend(self.go_expr(&arm.body, scrut_p, ad));
                }
                res
            }
            syn::Expr::Block(b) => self.go(&b.block.stmts, p, d),
            syn::Expr::Continue(_) => {
                self.out.push((p, format!("{}/continue", d)));
                vec![]
            }
            syn::Expr::Return(r) => {
                if !self.diverges(e) {
                    let pr = p || r.expr.as_ref().map_or(false, |x| self.expr_progress(x));
                    self.out.push((pr, format!("{}/return", d)));
                }
                vec![]
            }
            syn::Expr::Break(_) => {
                self.breaks.push((p, format!("{}/break", d)));
                vec![]
            }
            syn::Expr::While(w) => vec![(p || self.expr_progress(&w.cond), d)],
            syn::Expr::ForLoop(f) => vec![(p || self.expr_progress(&f.expr), d)],
            syn::Expr::Loop(l) => {
                // at least one iteration runs: a sub-enumeration of its body; the loop is left through `break`
                // (not tracked) — credit progress only if every iteration path has it
                // the loop is left through a `break`; the first iteration may already take it, so what is known after
                // the loop is what each path to a `break` has consumed (earlier full iterations only add to that)
                let mut sub = Paths { fn_mode: self.fn_mode, extra: self.extra, out: vec![], breaks: vec![] };
                let _ = sub.go(&l.body.stmts, false, String::new());
                // `return`s inside the loop body end the function: pass them up
                for r in sub.out.drain(..) {
                    if r.1.ends_with("/return") {
                        self.out.push((p || r.0, format!("{}/loop{}", d, r.1)));
                    }
                }
                sub.breaks.iter().map(|b| (p || b.0, format!("{}/loop{}", d, b.1))).collect()
            }
            other => {
                if self.diverges(other) {
                    return vec![];
                }
                vec![(p || self.expr_progress(other), d)]
            }
        }
    }
}

fn path_has_progress(stmts: &[syn::Stmt]) -> Vec<(bool, String)> {
    let mut ps = Paths { fn_mode: false, extra: &[], out: vec![], breaks: vec![] };
    let fall = ps.go(stmts, false, String::new());
    let mut out = ps.out;
    out.extend(fall);
    out
}

/// Function-mode enumeration: every path to a normal return of `block`.
fn fn_paths(block: &syn::Block, extra: &[&str]) -> Vec<(bool, String)> {
    let mut ps = Paths { fn_mode: true, extra, out: vec![], breaks: vec![] };
    let fall = ps.go(&block.stmts, false, String::new());
    let mut out = ps.out;
    out.extend(fall);
    out
}

/// functions whose "consumes at least one character, emits a token, or fails" summary P3 derives from their bodies
const SUMMARISED: &[(&str, &str, &[&str])] = &[
    ("parser/src/lexer.rs", "consume_normal", &["emit", "consume_character"]),
    ("parser/src/lexer.rs", "consume_character", &["emit"]),
    ("parser/src/lexer.rs", "lex_number", &[]),
    ("parser/src/lexer.rs", "lex_string", &[]),
    ("parser/src/lexer.rs", "eat_single_char", &[]),
    ("parser/src/string.rs", "parse_unicode_name", &[]),
    ("parser/src/string.rs", "parse_escaped_char", &[]),
    ("parser/src/string.rs", "parse_formatted_value", &[]),
];

/// consumers that consume only under a precondition on window[0]: every call site must sit under one of the
/// listed guards (an enclosing `if` condition or match-arm pattern, compact text), which establishes it
const PRECONDITIONED: &[(&str, &[&str], &str)] = &[
    ("lex_identifier", &["self.is_identifier_start(c)"], "window[0] starts an identifier, so `while self.is_identifier_continuation()` runs at least once (start ⊆ continuation, C01.I2)"),
    ("lex_number", &["'0'..='9'", "Some('0'..='9')"], "window[0] is a decimal digit (or '.' followed by one): radix_run(10) / the radix prefix consumes"),
    ("lex_and_emit_comment", &["'#'", "Some('#')"], "window[0] is '#', which lex_comment's loop consumes first"),
];

fn guard_sites(file: &syn::File, callee: &str) -> Vec<(String, Vec<String>)> {
    // (enclosing fn, guards) per call site `self.<callee>(..)`
    struct V<'a> {
        callee: &'a str,
        stack: Vec<String>,
        func: String,
        out: Vec<(String, Vec<String>)>,
    }
    impl<'a, 'ast> syn::visit::Visit<'ast> for V<'a> {
        fn visit_impl_item_fn(&mut self, f: &'ast syn::ImplItemFn) {
            self.func = f.sig.ident.to_string();
            self.stack.clear();
            syn::visit::visit_impl_item_fn(self, f);
        }
        fn visit_expr_if(&mut self, i: &'ast syn::ExprIf) {
            self.visit_expr(&i.cond);
            self.stack.push(sm::tsc(&i.cond));
            self.visit_block(&i.then_branch);
            self.stack.pop();
            if let Some((_, e)) = &i.else_branch {
                self.visit_expr(e);
            }
        }
        fn visit_arm(&mut self, a: &'ast syn::Arm) {
            self.stack.push(sm::tsc(&a.pat));
            syn::visit::visit_arm(self, a);
            self.stack.pop();
        }
        fn visit_expr_method_call(&mut self, mc: &'ast syn::ExprMethodCall) {
            if mc.method == self.callee && sm::tsc(&mc.receiver) == "self" {
                self.out.push((self.func.clone(), self.stack.clone()));
            }
            syn::visit::visit_expr_method_call(self, mc);
        }
    }
    use syn::visit::Visit;
    let mut v = V { callee, stack: vec![], func: String::new(), out: vec![] };
    v.visit_file(file);
    v.out
}

fn fn_summaries(cx: &mut Ctx) {
    let rule = "C03.P3";
    cx.rule(rule, "consumer summaries: the functions the loop rule P1 credits as consuming (consume_normal, consume_character, lex_*, parse_* …) are themselves checked — every path through the body to a normal return passes a call that consumes a character (next_char, another summarised consumer) or, for consume_normal/consume_character, emits a token (which ends `while pending.is_empty()`); `return Err` / `Err(..)?` paths end the token stream; nested `while`/`for` loops are credited with zero iterations");
    cx.floor(rule, 12);
    // private helpers that consume on every normal-return path (least fixpoint): a call to one of them is progress
    let mut derived: Vec<String> = vec![];
    if let Ok(lx) = sm::load(&cx.repo, "parser/src/lexer.rs") {
        let methods = crate::rules::lexer_rules::lexer_methods(&lx);
        loop {
            let mut changed = false;
            for (f, _) in &methods {
                let name = f.sig.ident.to_string();
                if CONSUMERS.contains(&name.as_str()) || CONDITIONAL.iter().any(|c| c.0 == name) || derived.contains(&name) || SUMMARISED.iter().any(|s| s.1 == name) || f.sig.inputs.is_empty() {
                    continue;
                }
                let extra: Vec<&str> = derived.iter().map(|s| s.as_str()).collect();
                let paths = fn_paths(&f.block, &extra);
                if !paths.is_empty() && paths.iter().all(|p| p.0) {
                    derived.push(name);
                    changed = true;
                }
            }
            if !changed {
                break;
            }
        }
        // only genuine helpers: getters without any consuming call have no path with progress and are never added
    }
    for (rel, name, extra) in SUMMARISED {
        let Ok(src) = sm::load(&cx.repo, rel) else {
            cx.anchor_missing(rule, rel);
            continue;
        };
        let mut extra_all: Vec<&str> = extra.to_vec();
        extra_all.extend(derived.iter().map(|s| s.as_str()));
        let extra = &extra_all;
        let mut found = false;
        for i in src.impls() {
            for it in &i.items {
                if let syn::ImplItem::Fn(f) = it {
                    if f.sig.ident == name {
                        found = true;
                        let paths = fn_paths(&f.block, extra);
                        let stuck: Vec<String> = paths.iter().filter(|p| !p.0).map(|p| p.1.clone()).collect();
                        if stuck.is_empty() {
                            cx.ok(rule, &format!("{}: all {} normal-return paths consume or emit", name, paths.len()));
                        } else {
                            cx.fail(rule, &format!("{}/{}", rule, name), rel, &format!("{}: path(s) {:?} return normally without consuming a character or emitting a token: the caller's loop can spin forever", name, stuck));
                        }
                    }
                }
            }
        }
        if !found {
            cx.anchor_missing(rule, &format!("{}::{}", rel, name));
        }
    }
    if let Ok(lx) = sm::load(&cx.repo, "parser/src/lexer.rs") {
        for (callee, guards, why) in PRECONDITIONED {
            let sites = guard_sites(&lx.file, callee);
            if sites.is_empty() {
                cx.anchor_missing(rule, &format!("call sites of {}", callee));
            }
            for (n, (func, stack)) in sites.iter().enumerate() {
                if stack.iter().any(|g| guards.iter().any(|w| g == w || g.split('|').any(|alt| alt == *w))) {
                    cx.ok(rule, &format!("{} called from {} under its guard ({})", callee, func, why));
                } else {
                    cx.fail(rule, &format!("{}/precondition/{}/{}#{}", rule, callee, func, n + 1), &lx.rel, &format!("{} is called from {} without one of the guards {:?} that make it consume ({}); enclosing guards: {:?}", callee, func, guards, why, stack));
                }
            }
        }
    }
}

fn progress(cx: &mut Ctx) {
    let rule = "C03.P1";
    cx.rule(rule, "structural progress: in lexer.rs, soft_keywords.rs and string.rs every iteration path of every loop (to its back edge or a `continue`) contains a consuming call — next_char, a lex_*/parse_* function that consumes at least one character or fails, a pull/peek on the finite token stream, a pop of the finite indentation stack — or leaves the loop; `while let Some(..) = self.next_char()` and `while self.is_identifier_continuation() { next_char }` consume at the head; the conditional consumers are tabled with the condition under which they are used");
    cx.floor(rule, 12);
    for rel in ["parser/src/lexer.rs", "parser/src/soft_keywords.rs", "parser/src/string.rs"] {
        let Ok(src) = sm::load(&cx.repo, rel) else {
            cx.anchor_missing(rule, rel);
            continue;
        };
        let mut fns: Vec<(String, &syn::Block)> = vec![];
        for f in src.all_free_fns() {
            fns.push((f.sig.ident.to_string(), &f.block));
        }
        for i in src.impls() {
            for it in &i.items {
                if let syn::ImplItem::Fn(f) = it {
                    fns.push((format!("{}::{}", sm::self_ty_name(i), f.sig.ident), &f.block));
                }
            }
        }
        for (fname, block) in fns {
            let mut loop_no = 0;
            sm::for_each_expr_in_block(block, |e| {
                let (head_progress, body, kind): (bool, &syn::Block, String) = match e {
                    syn::Expr::Loop(l) => (false, &l.body, "loop".into()),
                    syn::Expr::While(w) => {
                        let c = sm::tsc(&w.cond);
                        let head = c.contains("=self.next_char()") || c.contains("self.underlying.peek()");
                        (head, &w.body, format!("while {}", c.chars().take(40).collect::<String>()))
                    }
                    syn::Expr::ForLoop(_) => return, // iterates a finite collection / range
                    _ => return,
                };
                loop_no += 1;
                let key = format!("{}/{}/loop{}", rule, fname, loop_no);
                if head_progress {
                    cx.ok(rule, &format!("{} {}: consumes at the loop head", fname, kind));
                    return;
                }
                let paths = path_has_progress(&body.stmts);
                let stuck: Vec<&(bool, String)> = paths.iter().filter(|p| !p.0).collect();
                // `while !self.indentations.is_empty()` / `while self.pending.is_empty()`: body progress covers it
                if stuck.is_empty() {
                    cx.ok(rule, &format!("{} {}: all {} iteration paths make progress or leave the loop", fname, kind, paths.len()));
                } else {
                    cx.fail(rule, &key, rel, &format!("{} {}: iteration path(s) {:?} reach the back edge without consuming anything: the lexer can spin forever", fname, kind, stuck.iter().map(|p| p.1.clone()).collect::<Vec<_>>()));
                }
            });
        }
    }
    for (name, why) in CONDITIONAL {
        cx.assume(&format!("conditional consumer `{}`: {}", name, why));
    }
    // P2: inner_next / consume_normal
    if let Ok(lx) = sm::load(&cx.repo, "parser/src/lexer.rs") {
        let t = sm::tsx(&lx.file);
        let eof_emits = t.contains("self.emit((Tok::EndOfFile,TextRange::empty(tok_pos)));");
        let next_maps = t.contains("matchtoken{Ok((Tok::EndOfFile,_))=>None,_=>Some(token)}");
        if eof_emits && next_maps {
            cx.ok(rule, "P2: at end of input consume_normal emits EndOfFile (ending `while pending.is_empty()`), which Iterator::next maps to None: the token stream is finite");
        } else {
            cx.fail(rule, &format!("{}/eof", rule), &lx.rel, "end of input does not emit EndOfFile / Iterator::next does not turn it into None");
        }
    }
}

fn unsafe_inventory(cx: &mut Ctx) {
    let rule = "C03.U1";
    cx.rule(rule, "unsafe inventory: the unsafe blocks in the parser, core and vendored crates are exactly the reviewed ones (lexer eat_single_char: unreachable_unchecked, discharged by D.entry; newlines::find_newline: get_unchecked at a position memchr2 returned for the same slice), and no unsafe fn / impl exists");
    cx.floor(rule, 2);
    let mut found: BTreeMap<String, usize> = BTreeMap::new();
    for rel in crate::rules::c02::workspace_rs_files(&cx.repo) {
        if !(rel.starts_with("parser/src") || rel.starts_with("core/src") || rel.starts_with("vendored/src")) || rel.ends_with("python.rs") {
            continue;
        }
        let Ok(src) = sm::load(&cx.repo, &rel) else { continue };
        struct V {
            n: usize,
        }
        impl<'ast> syn::visit::Visit<'ast> for V {
            fn visit_expr_unsafe(&mut self, u: &'ast syn::ExprUnsafe) {
                self.n += 1;
                syn::visit::visit_expr_unsafe(self, u);
            }
            fn visit_item_fn(&mut self, f: &'ast syn::ItemFn) {
                if f.sig.unsafety.is_some() {
                    self.n += 100;
                }
                syn::visit::visit_item_fn(self, f);
            }
            fn visit_impl_item_fn(&mut self, f: &'ast syn::ImplItemFn) {
                if f.sig.unsafety.is_some() {
                    self.n += 100;
                }
                syn::visit::visit_impl_item_fn(self, f);
            }
            fn visit_item_impl(&mut self, i: &'ast syn::ItemImpl) {
                if i.unsafety.is_some() {
                    self.n += 100;
                }
                syn::visit::visit_item_impl(self, i);
            }
        }
        use syn::visit::Visit;
        let mut v = V { n: 0 };
        v.visit_file(&src.file);
        if v.n > 0 {
            found.insert(rel, v.n);
        }
    }
    let want: BTreeMap<String, usize> = [("parser/src/lexer.rs".to_string(), 1usize), ("vendored/src/source_location/newlines.rs".to_string(), 1usize)].into_iter().collect();
    for (f, n) in &found {
        match want.get(f) {
            Some(w) if w == n => cx.ok(rule, &format!("{}: {} reviewed unsafe block", f, n)),
            _ => cx.fail(rule, &format!("{}/{}", rule, f), f, &format!("{} unsafe block(s)/item(s) in {} are not in the reviewed inventory", n, f)),
        }
    }
    for f in want.keys() {
        if !found.contains_key(f) {
            cx.fail(rule, &format!("{}/{}/stale", rule, f), f, "reviewed unsafe block no longer exists (table stale; fail closed)");
        }
    }
    if let Ok(nl) = sm::load(&cx.repo, "vendored/src/source_location/newlines.rs") {
        let t = sm::tsx(&nl.file);
        let re = regex::Regex::new(r"(?:matchmemchr2\(b'\\n',b'\\r',bytes\)\{Some\((\w+)\)=>|let(\w+)=memchr2\(b'\\n',b'\\r',bytes\)\?;)").unwrap();
        let bound = re.captures(&t.text).and_then(|c| c.get(1).or(c.get(2)).map(|m| m.as_str().to_string()));
        if bound.as_ref().map_or(false, |p| t.contains(&format!("unsafe{{*bytes.get_unchecked({})}}", p))) {
            cx.ok(rule, "find_newline: get_unchecked(position) with position = memchr2(.., bytes) on the same slice");
        } else {
            cx.fail(rule, &format!("{}/find_newline", rule), &nl.rel, "get_unchecked index is not the position memchr2 returned for the same slice");
        }
    }
}
