//! C09 — start offsets only translate positions; all entry points are views of one parser.

use crate::report::Ctx;
use crate::rules::units;
use crate::srcmodel::{self as sm};
use std::collections::{BTreeMap, BTreeSet};

pub fn run(cx: &mut Ctx) {
    if let Some(facts) = units::load_facts(cx, "C09.U1") {
        units::position_comparisons(cx, "C09.U1", &facts);
        units::dimension_discipline(cx, "C09.D1", &facts);
        funnel(cx, &facts);
    }
    for (label, f) in units::extra_facts(cx, "C09.U1") {
        units::position_comparisons(cx, &format!("C09.U1@{}", label), &f);
        units::dimension_discipline(cx, &format!("C09.D1@{}", label), &f);
    }
    units::error_offsets(cx, "C09.E2");
    offset_threading(cx);
    projections(cx);
    generated_parse_impls(cx);
    mode_names(cx);
    crate::rules::lexer_rules::byte_accounting_mode(cx, "C09.N1", crate::rules::lexer_rules::Acct::Relative);
    crate::rules::c10::filter_dominance_pub(cx, "C09.F3");
    crate::rules::c01::soft_keywords_relabel_pub(cx, "C09.S1");
    if let Ok(g) = crate::tables::load_grammar(&cx.repo) {
        crate::rules::c01::start_markers_pub(cx, &g, "C09.F4");
    }
}

fn offset_threading(cx: &mut Ctx) {
    let rule = "C09.U2";
    cx.rule(rule, "offset threading: every call of Lexer::new, lex_starts_at, parse_starts_at and Parse::{parse_starts_at, lex_starts_at} in the parser crate passes the caller's own offset parameter (or, in parse_fstring_expr, a position); a zero offset is introduced only by the three convenience wrappers lex, parse and Parse::parse, as their last argument");
    cx.floor(rule, 14);
    for rel in ["parser/src/lexer.rs", "parser/src/parser.rs", "parser/src/string.rs", "parser/src/gen/parse.rs"] {
        let Ok(src) = sm::load(&cx.repo, rel) else {
            cx.anchor_missing(rule, rel);
            continue;
        };
        let mut fns: Vec<(String, &syn::Block)> = vec![];
        for f in src.all_free_fns() {
            fns.push((f.sig.ident.to_string(), &f.block));
        }
        for i in src.impls() {
            for it in &i.items {
                if let syn::ImplItem::Fn(f) = it {
                    fns.push((format!("{}::{}", sm::self_ty_name(i), f.sig.ident), &f.block));
                }
            }
        }
        for it in &src.file.items {
            if let syn::Item::Trait(t) = it {
                for ti in &t.items {
                    if let syn::TraitItem::Fn(f) = ti {
                        if let Some(b) = &f.default {
                            fns.push((format!("{}::{}", t.ident, f.sig.ident), b));
                        }
                    }
                }
            }
        }
        let mut generated_ok = 0;
        for (fname, block) in fns {
            sm::for_each_expr_in_block(block, |e| {
                let (callee, args): (String, Vec<String>) = match e {
                    syn::Expr::Call(c) => (sm::tsc(&c.func), c.args.iter().map(|a| sm::tsc(a)).collect()),
                    _ => return,
                };
                let last = callee.rsplit("::").next().unwrap_or("").to_string();
                let off_ix = match last.as_str() {
                    "lex_starts_at" => args.len().checked_sub(1),
                    "parse_starts_at" | "parse_expression_starts_at" => args.len().checked_sub(1),
                    "new" if callee == "Lexer::new" => Some(1),
                    _ => None,
                };
                let Some(ix) = off_ix else { return };
                let Some(arg) = args.get(ix) else { return };
                let wrapper = ["lex", "parse", "Parse::parse"].contains(&fname.as_str());
                let ok = arg == "offset" || arg == "start_offset" || (fname == "parse_fstring_expr" && arg == "start") || (wrapper && arg == "TextSize::default()");
                if ok {
                    if rel.ends_with("gen/parse.rs") {
                        generated_ok += 1;
                    } else {
                        cx.ok(rule, &format!("{}: {}(.., {})", fname, callee, arg));
                    }
                } else {
                    cx.fail(rule, &format!("{}/{}/{}", rule, fname, last), rel, &format!("{} calls {} with offset argument `{}` instead of its own offset parameter: results would not translate with the start offset", fname, callee, arg));
                }
            });
        }
        if rel.ends_with("gen/parse.rs") {
            if generated_ok == 55 {
                cx.ok(rule, "55 generated impls forward `offset` to the family lexer");
            } else {
                cx.fail(rule, &format!("{}/generated", rule), rel, &format!("{} of 55 generated impls forward their offset", generated_ok));
            }
        }
    }
    // Lexer::new seeds location with start (shared with N1) and SoftKeywordTransformer::new does not touch offsets
}

fn funnel(cx: &mut Ctx, facts: &crate::mir::Facts) {
    let rule = "C09.F1";
    cx.rule(rule, "funnel: every public parse entry point of the parser crate reaches parse_filtered_tokens in the resolved call graph, which is the only caller of the generated TopParser");
    cx.floor(rule, 8);
    let Some(cf) = facts.krate("rustpython_parser") else { return cx.anchor_missing(rule, "MIR facts of rustpython_parser") };
    let mut g = cf.local_call_graph();
    // calls to trait methods that could not be resolved in a generic context (Self::parse_tokens in the
    // default methods of Parse) may reach every impl of that method
    for c in &cf.calls {
        if !c.resolved && c.callee.starts_with("parser::Parse::") {
            let m = c.callee.rsplit("::").next().unwrap_or("");
            for f in &cf.funcs {
                if f.name.ends_with(&format!("as parser::Parse>::{}", m)) {
                    g.entry(c.caller.clone()).or_default().insert(f.name.clone());
                }
            }
        }
    }
    let reach = |from: &str| -> bool {
        let mut seen = BTreeSet::new();
        let mut st = vec![from.to_string()];
        while let Some(u) = st.pop() {
            if u == "parser::parse_filtered_tokens" {
                return true;
            }
            if !seen.insert(u.clone()) {
                continue;
            }
            if let Some(vs) = g.get(&u) {
                st.extend(vs.iter().cloned());
            }
        }
        false
    };
    let entries: Vec<String> = cf
        .funcs
        .iter()
        .filter(|f| f.file.ends_with("parser/src/parser.rs") && (f.name.starts_with("parser::parse") || f.name.contains("as parser::Parse>::parse_tokens")) && !f.name.contains("{closure") && f.name != "parser::parse_filtered_tokens" && f.name != "parser::parse_error_from_lalrpop")
        .map(|f| f.name.clone())
        .collect();
    for e in &entries {
        // trait default methods call Self::parse_tokens (unresolved): they reach the funnel through every impl
        if e == "parser::Parse::parse" || e == "parser::Parse::parse_starts_at" || e == "parser::Parse::parse_without_path" {
            cx.ok_trivial(rule);
            continue;
        }
        if reach(e) {
            cx.ok(rule, &format!("{} reaches parse_filtered_tokens", e));
        } else {
            cx.fail(rule, &format!("{}/{}", rule, e), "parser/src/parser.rs", &format!("{} does not reach parse_filtered_tokens: it is not a view of the one parser", e));
        }
    }
    if entries.len() < 12 {
        cx.fail(rule, &format!("{}/entries", rule), "parser/src/parser.rs", &format!("only {} entry points found", entries.len()));
    }
    let top_callers: BTreeSet<String> = cf.calls.iter().filter(|c| c.callee.contains("TopParser::parse") && !c.caller.contains("__parse__Top")).map(|c| c.caller.clone()).collect();
    if top_callers == ["parser::parse_filtered_tokens".to_string()].into_iter().collect() {
        cx.ok(rule, "TopParser::parse is called only from parse_filtered_tokens");
    } else {
        cx.fail(rule, &format!("{}/topparser", rule), "parser/src", &format!("TopParser::parse is called from {:?}", top_callers));
    }
}

fn projections(cx: &mut Ctx) {
    let rule = "C09.F1b";
    cx.rule(rule, "the typed convenience parsers project from the one tree: Suite = the module body, Expr = the expression-mode body, Stmt = the single statement of the module body (error at the second statement otherwise), Identifier / Constant = the Name id / Constant value (InvalidToken at the expression's start otherwise); every impl lexes in the mode of the tree it projects from");
    cx.floor(rule, 8);
    let p = match sm::load(&cx.repo, "parser/src/parser.rs") {
        Ok(s) => s,
        Err(e) => return cx.anchor_missing(rule, &e),
    };
    let want: [(&str, &str, &str); 5] = [
        ("Suite", "{ast::ModModule::lex_starts_at(source,offset)}", "{Ok(ast::ModModule::parse_tokens(lxr,source_path)?.body)}"),
        ("Expr", "{ast::ModExpression::lex_starts_at(source,offset)}", "{Ok(*ast::ModExpression::parse_tokens(lxr,source_path)?.body)}"),
        ("Stmt", "{ast::ModModule::lex_starts_at(source,offset)}", ""),
        ("Identifier", "{ast::Expr::lex_starts_at(source,offset)}", "{letexpr=ast::Expr::parse_tokens(lxr,source_path)?;matchexpr{ast::Expr::Name(name)=>Ok(name.id),expr=>Err(ParseError{error:ParseErrorType::InvalidToken,offset:expr.range().start(),source_path:source_path.to_owned()})}}"),
        ("Constant", "{ast::Expr::lex_starts_at(source,offset)}", "{letexpr=ast::Expr::parse_tokens(lxr,source_path)?;matchexpr{ast::Expr::Constant(c)=>Ok(c.value),expr=>Err(ParseError{error:ParseErrorType::InvalidToken,offset:expr.range().start(),source_path:source_path.to_owned()})}}"),
    ];
    for (ty, lex, pt) in want {
        let l = p.methods(ty, "lex_starts_at").first().map(|x| sm::tsc(&x.1.block)).unwrap_or_default();
        let t = p.methods(ty, "parse_tokens").first().map(|x| sm::tsc(&x.1.block)).unwrap_or_default();
        if l == lex {
            cx.ok(rule, &format!("{}: lexes via {}", ty, lex.trim_matches(|c| c == '{' || c == '}')));
        } else {
            cx.fail(rule, &format!("{}/{}/lex", rule, ty), &p.rel, &format!("impl Parse for {} lexes with `{}`", ty, l));
        }
        if ty == "Stmt" {
            // the module body, then by its length: 1 => that statement (with or without an Ok(..) around it),
            // more => InvalidToken at the second statement's start
            let ok = t.contains("letmutstatements=ast::ModModule::parse_tokens(lxr,source_path)?.body;")
                && (t.contains("1=>statements.pop().unwrap(),") || t.contains("1=>Ok(statements.pop().unwrap()),"))
                && t.contains("offset:statements[1].range().start(),")
                && t.contains("matchstatements.len(){0=>");
            if ok {
                cx.ok(rule, "Stmt: the single statement of the module body; a second statement is an error at its start");
            } else {
                cx.fail(rule, &format!("{}/Stmt/project", rule), &p.rel, "impl Parse for Stmt does not project the single statement of the module body");
            }
        } else if t == pt {
            cx.ok(rule, &format!("{}: projects from the family tree", ty));
        } else {
            cx.fail(rule, &format!("{}/{}/project", rule, ty), &p.rel, &format!("impl Parse for {} projects with `{}`", ty, t.chars().take(120).collect::<String>()));
        }
    }
    // free functions
    let t = sm::tsx(&p.file);
    let frees = [
        ("parse", "pubfnparse(source:&str,mode:Mode,source_path:&str)->Result<ast::Mod,ParseError>{parse_starts_at(source,mode,source_path,TextSize::default())}"),
        ("parse_starts_at", "{letlxr=lexer::lex_starts_at(source,mode,offset);parse_tokens(lxr,mode,source_path)}"),
        ("parse_expression", "{ast::Expr::parse(source,path)}"),
        ("parse_expression_starts_at", "{ast::Expr::parse_starts_at(source,path,offset)}"),
        ("Parse::parse", "fnparse(source:&str,source_path:&str)->Result<Self,ParseError>{Self::parse_starts_at(source,source_path,TextSize::default())}"),
    ];
    for (n, frag) in frees {
        if t.contains(frag) {
            cx.ok(rule, &format!("{} is a thin view", n));
        } else {
            cx.fail(rule, &format!("{}/free/{}", rule, n), &p.rel, &format!("{} is not the expected thin wrapper", n));
        }
    }
}

fn generated_parse_impls(cx: &mut Ctx) {
    let rule = "C09.F2";
    cx.rule(rule, "each of the 55 generated `impl Parse for ast::{Stmt,Expr}X` delegates lexing to its family parser and unwraps exactly the variant named like the type, reporting InvalidToken at the node's start otherwise");
    cx.floor(rule, 55);
    let src = match sm::load(&cx.repo, "parser/src/gen/parse.rs") {
        Ok(s) => s,
        Err(e) => return cx.anchor_missing(rule, &e),
    };
    let mut n = 0;
    for i in src.impls() {
        if sm::trait_name(i).as_deref() != Some("Parse") {
            continue;
        }
        n += 1;
        let ty = sm::self_ty_name(i);
        let (family, variant) = if let Some(v) = ty.strip_prefix("Stmt") { ("Stmt", v.to_string()) } else if let Some(v) = ty.strip_prefix("Expr") { ("Expr", v.to_string()) } else { ("?", ty.clone()) };
        let mut lex = String::new();
        let mut pt = String::new();
        for it in &i.items {
            if let syn::ImplItem::Fn(f) = it {
                if f.sig.ident == "lex_starts_at" {
                    lex = sm::tsc(&f.block);
                }
                if f.sig.ident == "parse_tokens" {
                    pt = sm::tsc(&f.block);
                }
            }
        }
        let want_lex = format!("{{ast::{}::lex_starts_at(source,offset)}}", family);
        let want_pt = format!("{{letnode=ast::{f}::parse_tokens(lxr,source_path)?;matchnode{{ast::{f}::{v}(node)=>Ok(node),node=>Err(ParseError{{error:ParseErrorType::InvalidToken,offset:node.range().start(),source_path:source_path.to_owned()}})}}}}", f = family, v = variant);
        if lex == want_lex && pt == want_pt {
            cx.ok(rule, &format!("{} <- {}::{}", ty, family, variant));
        } else {
            cx.fail(rule, &format!("{}/{}", rule, ty), &src.loc(i), &format!("impl Parse for {} does not delegate to {} and unwrap {}::{}", ty, family, family, variant));
        }
    }
    cx.unit("generated Parse impls", n);
}

fn mode_names(cx: &mut Ctx) {
    let rule = "C09.M1";
    cx.rule(rule, "Mode::from_str maps only onto existing modes (\"exec\" and \"single\" to Module, \"eval\" to Expression) and rejects every other name");
    cx.floor(rule, 4);
    let src = match sm::load(&cx.repo, "core/src/mode.rs") {
        Ok(s) => s,
        Err(e) => return cx.anchor_missing(rule, &e),
    };
    let variants: BTreeSet<String> = src.enum_named("Mode").map(|e| e.variants.iter().map(|v| v.ident.to_string()).collect()).unwrap_or_default();
    let mut table: BTreeMap<String, String> = BTreeMap::new();
    let mut default_err = false;
    for i in src.impls() {
        if sm::self_ty_name(i) == "Mode" && sm::trait_name(i).as_deref() == Some("FromStr") {
            for it in &i.items {
                if let syn::ImplItem::Fn(f) = it {
                    sm::for_each_expr_in_block(&f.block, |e| {
                        if let syn::Expr::Match(m) = e {
                            for arm in &m.arms {
                                let body = sm::tsc(sm::unblock(&arm.body));
                                let pat = sm::tsc(&arm.pat);
                                if pat == "_" {
                                    default_err = body == "Err(ModeParseError)";
                                } else {
                                    for lit in pat.split('|') {
                                        table.insert(lit.trim_matches('"').to_string(), body.clone());
                                    }
                                }
                            }
                        }
                    });
                }
            }
        }
    }
    let want: BTreeMap<&str, &str> = [("exec", "Ok(Mode::Module)"), ("single", "Ok(Mode::Module)"), ("eval", "Ok(Mode::Expression)")].into_iter().collect();
    for (k, v) in &want {
        match table.get(*k) {
            Some(g) if g == v && variants.contains(v.trim_start_matches("Ok(Mode::").trim_end_matches(')')) => cx.ok(rule, &format!("\"{}\" -> {}", k, v)),
            other => cx.fail(rule, &format!("{}/{}", rule, k), &src.rel, &format!("mode name \"{}\" maps to {:?}", k, other)),
        }
    }
    if table.len() == want.len() && default_err {
        cx.ok(rule, "every other name is rejected");
    } else {
        cx.fail(rule, &format!("{}/other", rule), &src.rel, &format!("mode table has {} names (3 expected) or the default arm does not reject", table.len()));
    }
}
