//! C02 — range-capture discipline of the grammar and of string.rs; TextRange representation invariant.

use crate::actionflow::{Flow, StructLit, Var};
use crate::grammar::{self, Alt, Grammar, NtDef, Sym, SymKind};
use crate::report::Ctx;
use crate::rules::grammar_rules::{actions, alt_key, lal};
use crate::srcmodel::{self as sm, Src};
use crate::tables;
use std::collections::{BTreeMap, BTreeSet};

pub fn run(cx: &mut Ctx) {
    crate::g1::run(cx, "C02.G1");
    let g = match tables::load_grammar(&cx.repo) {
        Ok(g) => g,
        Err(e) => return cx.anchor_missing("C02", &e),
    };
    cx.unit("grammar alternatives", g.n_alts());
    grammar_ranges(cx, &g);
    string_ranges(cx, &g);
    ranged_impls(cx);
    text_range_literals(cx);
    handwritten_ranges(cx, &g);
    crate::rules::lexer_rules::byte_accounting(cx, "C02.N1");
    crate::rules::lexer_rules::lex_fn_ranges(cx, "C02.L1");
    crate::rules::lexer_rules::operator_trie(cx, "C02.O1");
}

/// C02.R9: node ranges assigned outside the grammar (function.rs, context.rs, string.rs).
fn handwritten_ranges(cx: &mut Ctx, g: &Grammar) {
    let rule = "C02.R9";
    cx.rule(rule, "ranges assigned by hand-written code: (a) the keyword-argument alternatives of FunctionArgument hand parse_args the @L capture before their first symbol and the @R capture after their last; (b) parse_args gives ast::Keyword exactly that pair, in order (never a child's .start()/.end(), which drops parentheses); (c) every other `range` initialiser in function.rs / context.rs / string.rs is one of the reviewed forms — the `range` destructured from the node being rebuilt, StringParser::range(), or first-start..last-end of the concatenated tokens (R5) — and none calls .start()/.end()/.range() on a child");
    cx.floor(rule, 12);
    // (a)
    match g.def("FunctionArgument") {
        None => cx.anchor_missing(rule, "FunctionArgument"),
        Some(d) => {
            let mut n = 0;
            for a in &d.alts {
                let Some(act) = &a.action else { continue };
                let code: String = act.code.chars().filter(|c| !c.is_whitespace()).collect();
                let Some(rest) = code.strip_prefix("(Some((") else { continue };
                n += 1;
                let parts: Vec<&str> = rest.split(',').collect();
                let first_cap = a.syms.first().and_then(|s| if matches!(s.kind, SymKind::Lookahead) { s.binding.clone() } else { None });
                let last_cap = a.syms.last().and_then(|s| if matches!(s.kind, SymKind::Lookbehind) { s.binding.clone() } else { None });
                if parts.len() >= 2 && Some(parts[0].to_string()) == first_cap && Some(parts[1].to_string()) == last_cap {
                    cx.ok(rule, &format!("{}: passes ({}, {}) = (@L before the first symbol, @R after the last)", alt_key(d, a), parts[0], parts[1]));
                } else {
                    cx.fail(rule, &format!("{}/{}", rule, alt_key(d, a)), &lal(a), &format!("keyword alternative passes ({}) to parse_args; expected its leading @L and trailing @R captures ({:?}, {:?})", parts.iter().take(2).cloned().collect::<Vec<_>>().join(", "), first_cap, last_cap));
                }
            }
            if n != 2 {
                cx.fail(rule, &format!("{}/FunctionArgument/count", rule), "parser/src/python.lalrpop", &format!("{} keyword alternatives found in FunctionArgument (2 expected: name=value and **value)", n));
            }
        }
    }
    // (b) + (c)
    for rel in ["parser/src/function.rs", "parser/src/context.rs", "parser/src/string.rs"] {
        let src = match sm::load(&cx.repo, rel) {
            Ok(s) => s,
            Err(e) => {
                cx.anchor_missing(rule, &e);
                continue;
            }
        };
        // struct literals with a `range` field, with the stack of enclosing arm patterns
        struct V<'a> {
            arms: Vec<&'a syn::Pat>,
            out: Vec<(&'a syn::ExprStruct, Vec<&'a syn::Pat>)>,
        }
        impl<'a> syn::visit::Visit<'a> for V<'a> {
            fn visit_item_mod(&mut self, m: &'a syn::ItemMod) {
                if !sm::is_cfg_test(&m.attrs) {
                    syn::visit::visit_item_mod(self, m);
                }
            }
            fn visit_arm(&mut self, a: &'a syn::Arm) {
                self.arms.push(&a.pat);
                syn::visit::visit_arm(self, a);
                self.arms.pop();
            }
            fn visit_expr_struct(&mut self, s: &'a syn::ExprStruct) {
                if s.fields.iter().any(|f| matches!(&f.member, syn::Member::Named(n) if n == "range")) {
                    self.out.push((s, self.arms.clone()));
                }
                syn::visit::visit_expr_struct(self, s);
            }
        }
        use syn::visit::Visit;
        let mut v = V { arms: vec![], out: vec![] };
        v.visit_file(&src.file);
        let mut per_ty: BTreeMap<String, usize> = BTreeMap::new();
        for (lit, arms) in &v.out {
            let ty = sm::tsc(&lit.path);
            let k = per_ty.entry(ty.clone()).or_insert(0);
            *k += 1;
            let key = format!("{}/{}/{}#{}", rule, rel.rsplit('/').next().unwrap(), ty, k);
            let f = lit.fields.iter().find(|f| matches!(&f.member, syn::Member::Named(n) if n == "range")).unwrap();
            let init = sm::tsc(&f.expr);
            let child_call = {
                let mut bad = false;
                sm::for_each_expr(&f.expr, |e| {
                    if let syn::Expr::MethodCall(mc) = e {
                        let m = mc.method.to_string();
                        if (m == "start" || m == "end" || m == "range") && sm::tsc(&mc.receiver) != "self" {
                            bad = true;
                        }
                    }
                });
                bad
            };
            if child_call {
                cx.fail(rule, &key, &src.loc(*lit), &format!("{} range `{}` is derived from a child's .start()/.end()/.range(): a parenthesised child keeps its inner range, so this drops delimiters", ty, init));
                continue;
            }
            let ok = if ty == "ast::Keyword" {
                // TextRange::new(x, y) with (x, y, _) the tuple pattern of the innermost enclosing `Some((x, y, _))` arm
                let want = arms.iter().rev().find_map(|p| {
                    let t = sm::tsc(*p);
                    let inner = t.strip_prefix("Some((")?.strip_suffix("))")?;
                    let ids: Vec<String> = inner.split(',').map(|x| x.to_string()).collect();
                    if ids.len() == 3 { Some(format!("TextRange::new({},{})", ids[0], ids[1])) } else { None }
                });
                want.as_deref() == Some(init.as_str())
            } else if init == "range" {
                // shorthand or explicit: `range` must be bound by the innermost enclosing arm pattern that destructures the same node type
                arms.iter().rev().any(|p| {
                    let t = sm::tsc(*p);
                    t.contains(&format!("{}{{", ty)) && (t.contains(",range,") || t.contains("{range,") || t.contains(",range}"))
                })
            } else {
                init == "self.range()" || init == "TextRange::new(initial_start,last_end)"
            };
            if ok {
                cx.ok(rule, &format!("{}: {} range = {}", rel, ty, init));
            } else {
                cx.fail(rule, &key, &src.loc(*lit), &format!("{} range `{}` is not one of the reviewed forms (captures passed by the grammar / the rebuilt node's own range / the token range)", ty, init));
            }
        }
    }
}

#[derive(Debug, Clone, PartialEq)]
pub enum ValKind {
    Stmts,
    Handlers,
    Cases,
    Expr,
    Other,
}

pub fn sym_value_kind(g: &Grammar, s: &Sym) -> ValKind {
    fn of_type(t: &str) -> ValKind {
        let t: String = t.chars().filter(|c| !c.is_whitespace()).collect();
        match t.as_str() {
            "ast::Suite" | "Vec<ast::Stmt>" | "ast::Stmt" => ValKind::Stmts,
            "ast::ExceptHandler" => ValKind::Handlers,
            "ast::MatchCase" => ValKind::Cases,
            "ast::Expr" | "Vec<ast::Expr>" => ValKind::Expr,
            _ => ValKind::Other,
        }
    }
    match &s.kind {
        SymKind::Name(n) => g.def(n).and_then(|d| d.ty.as_deref().map(of_type)).unwrap_or(ValKind::Other),
        SymKind::Macro(n, args) => {
            if ["OneOrMore", "TwoOrMore", "Comma"].contains(&n.as_str()) {
                args.first().map(|a| sym_value_kind(g, a)).unwrap_or(ValKind::Other)
            } else {
                g.def(n).and_then(|d| d.ty.as_deref().map(of_type)).unwrap_or(ValKind::Other)
            }
        }
        SymKind::Group(v) => {
            let sel: Vec<&Sym> = v.iter().filter(|x| x.selected && !matches!(x.kind, SymKind::Lookahead | SymKind::Lookbehind)).collect();
            if sel.len() == 1 {
                sym_value_kind(g, sel[0])
            } else if sel.is_empty() && v.len() == 1 {
                sym_value_kind(g, &v[0])
            } else {
                // tuple-valued group: the kind of its last selected component decides what `.last()` reaches
                sel.last().map(|x| sym_value_kind(g, x)).unwrap_or(ValKind::Other)
            }
        }
        _ => ValKind::Other,
    }
}

fn is_loc(s: &Sym) -> bool {
    matches!(s.kind, SymKind::Lookahead | SymKind::Lookbehind)
}

/// Split a range expression into (start, end) expressions.
pub fn split_range<'a>(e: &'a syn::Expr, defs: &'a BTreeMap<String, syn::Expr>, depth: usize) -> Option<(&'a syn::Expr, &'a syn::Expr)> {
    if depth > 4 {
        return None;
    }
    match e {
        syn::Expr::MethodCall(mc) if mc.method == "into" => split_range(&mc.receiver, defs, depth),
        syn::Expr::Paren(p) => split_range(&p.expr, defs, depth),
        syn::Expr::Range(r) => match (&r.start, &r.end) {
            (Some(a), Some(b)) => Some((a, b)),
            _ => None,
        },
        syn::Expr::Call(c) if c.args.len() == 2 => {
            let f = sm::tsc(&c.func);
            if f == "optional_range" || f == "TextRange::new" {
                Some((&c.args[0], &c.args[1]))
            } else {
                None
            }
        }
        syn::Expr::Path(_) => {
            let id = sm::as_ident(e)?;
            let d = defs.get(&id)?;
            split_range(d, defs, depth + 1)
        }
        _ => None,
    }
}

#[derive(Debug, Clone)]
pub enum End {
    /// a top-level @L/@R capture: (binding, symbol index, is_lookbehind)
    Capture(String, usize, bool),
    /// derived through `.start()` / `.end()` from these bindings (in expression order)
    Derived(String, Vec<(String, usize)>),
    /// projection of a loop variable / group capture
    Inner(String),
    Other(String),
}

pub fn classify_end(e: &syn::Expr, alt: &Alt, env: &BTreeMap<String, Var>, defs: &BTreeMap<String, syn::Expr>, depth: usize) -> End {
    let txt = sm::tsc(e);
    if depth > 4 {
        return End::Other(txt);
    }
    if let Some(id) = sm::as_ident(e) {
        // local definitions shadow bindings
        if let Some(d) = defs.get(&id) {
            return classify_end(d, alt, env, defs, depth + 1);
        }
        for (i, s) in alt.syms.iter().enumerate() {
            if s.binding.as_deref() == Some(id.as_str()) && is_loc(s) {
                return End::Capture(id, i, matches!(s.kind, SymKind::Lookbehind));
            }
        }
        return End::Other(txt);
    }
    if let syn::Expr::Field(f) = e {
        if matches!(f.member, syn::Member::Unnamed(_)) {
            return End::Inner(txt);
        }
    }
    if txt.contains(".start()") || txt.contains(".end()") {
        let which = if txt.ends_with(".start()") { "start" } else { "end" };
        // roots in expression order
        let mut roots = vec![];
        for id in sm::idents_in(e) {
            // resolve locals one level
            let mut names = vec![id.clone()];
            if let Some(d) = defs.get(&id) {
                names = sm::idents_in(d);
            }
            for n in names {
                if let Some(v) = env.get(&n) {
                    if let Some(p) = &v.pos {
                        for r in &p.roots {
                            if let Some(ix) = alt.syms.iter().position(|s| s.binding.as_deref() == Some(r.as_str())) {
                                if !roots.iter().any(|(x, _): &(String, usize)| x == r) {
                                    roots.push((r.clone(), ix));
                                }
                            }
                        }
                    }
                }
            }
        }
        return End::Derived(which.to_string(), roots);
    }
    End::Other(txt)
}

/// The struct literals an action returns (wrappers stripped), as compact text.
fn principal_texts(e: &syn::Expr, out: &mut Vec<String>) {
    match e {
        syn::Expr::Block(b) => {
            for s in &b.block.stmts {
                if let syn::Stmt::Expr(syn::Expr::Return(r), _) = s {
                    if let Some(x) = &r.expr {
                        principal_texts(x, out);
                    }
                }
            }
            if let Some(syn::Stmt::Expr(x, None)) = b.block.stmts.last() {
                principal_texts(x, out);
            }
        }
        syn::Expr::If(i) => {
            if let Some(syn::Stmt::Expr(x, None)) = i.then_branch.stmts.last() {
                principal_texts(x, out);
            }
            if let Some((_, el)) = &i.else_branch {
                principal_texts(el, out);
            }
        }
        syn::Expr::Return(r) => {
            if let Some(x) = &r.expr {
                principal_texts(x, out)
            }
        }
        // the value of a match is the value of its arms
        syn::Expr::Match(m) => {
            for a in &m.arms {
                principal_texts(&a.body, out);
            }
        }
        syn::Expr::MethodCall(mc) if mc.method == "into" => principal_texts(&mc.receiver, out),
        syn::Expr::Paren(p) => principal_texts(&p.expr, out),
        syn::Expr::Call(c) if c.args.len() == 1 => {
            let f = sm::tsc(&c.func);
            if f == "Ok" || f == "Box::new" || f.starts_with("ast::") {
                principal_texts(&c.args[0], out)
            }
        }
        syn::Expr::Struct(s) => out.push(sm::tsc(s)),
        _ => {}
    }
}

const DECORATED: [&str; 2] = ["FuncDef", "ClassDef"];

pub fn grammar_ranges(cx: &mut Ctx, g: &Grammar) {
    cx.rule("C02.R1", "the node an alternative returns takes its range start from the @L capture before the alternative's first symbol (FuncDef/ClassDef: after Decorator*, as the reference does) and its end from the @R capture after the last symbol, or — for compound statements — from `.end()` of the trailing suites taken in reverse source order down to the first mandatory one");
    cx.rule("C02.R2", "no node range is derived from `.start()`/`.end()` of an expression child: the parenthesised atom returns the inner node with the inner range, so such a range silently drops parentheses and trailing commas");
    cx.rule("C02.R3", "a node built inside a closure or loop over a list symbol does not take the alternative-level @L/@R captures as its range");
    cx.rule("C02.R3b", "a secondary node built in an action takes its range from captures that bracket exactly the symbols feeding it; attaching a child to an already-built ranged node extends that node's range");
    cx.rule("C02.R4", "every child bound in an alternative lies between the captures used for the parent's range (parents enclose children; decorators excepted), and list-valued bindings are only transformed by order-preserving operations (the elif chain's rev() is the one tabled exception)");
    cx.floor("C02.R1", 120);
    cx.floor("C02.R2", 100);
    cx.floor("C02.R3", 2);
    cx.floor("C02.R3b", 8);
    cx.floor("C02.R4", 100);

    for (d, a, e) in actions(g) {
        let mut flow = Flow::new(a);
        flow.run_expr(e);
        let mut principals = vec![];
        principal_texts(e, &mut principals);
        let first_real = a.syms.iter().position(|s| !is_loc(s));
        // last real symbol ignoring trailing Dedent terminals and location captures
        let last_real = a.syms.iter().rposition(|s| !is_loc(s) && !matches!(&s.kind, SymKind::Name(n) if n == "Dedent"));
        let mut lit_no: BTreeMap<String, usize> = BTreeMap::new();
        for lit in &flow.lits {
            let Some(re) = &lit.range_expr else { continue };
            let n = lit_no.entry(lit.ty.clone()).or_insert(0);
            *n += 1;
            let lkey = format!("{}/{}{}", alt_key(d, a), lit.ty, if *n > 1 { format!("#{}", n) } else { String::new() });
            let Some((sa, sb)) = split_range(re, &lit.defs, 0) else {
                cx.fail("C02.R1", &format!("C02.R1/{}/unrecognised", lkey), &lal(a), &format!("range expression `{}` is not (a..b).into() / optional_range(a, b) / TextRange::new(a, b)", sm::tsc(re)));
                continue;
            };
            let start = classify_end(sa, a, &lit.env, &lit.defs, 0);
            let end = classify_end(sb, a, &lit.env, &lit.defs, 0);
            let is_principal = principals.contains(&lit.text) && !lit.in_loop && !lit.in_closure;

            // ---- R2
            let mut r2 = vec![];
            for (which, en) in [("start", &start), ("end", &end)] {
                if let End::Derived(m, roots) = en {
                    for (r, ix) in roots {
                        if sym_value_kind(g, &a.syms[*ix]) == ValKind::Expr {
                            r2.push(format!("{} is `{}.{}()` of the expression child `{}`", which, r, m, grammar::sym_text(&a.syms[*ix])));
                        }
                    }
                }
            }
            let r2_bad = !r2.is_empty();
            if r2_bad {
                cx.fail("C02.R2", &format!("C02.R2/{}", lkey), &lal(a), &format!("{} range {}: parentheses around that child (and a trailing comma) are dropped from the range", lit.ty, r2.join(" and ")));
            } else {
                cx.ok("C02.R2", &format!("{}: range ends are captures or statement ends", lkey));
            }

            // ---- R3
            if lit.in_loop || lit.in_closure {
                let mut uses_alt_capture = vec![];
                for en in [&start, &end] {
                    if let End::Capture(b, _, _) = en {
                        uses_alt_capture.push(b.clone());
                    }
                }
                if uses_alt_capture.is_empty() {
                    cx.ok("C02.R3", &format!("{}: per-element node does not use alternative-level captures", lkey));
                } else {
                    cx.fail("C02.R3", &format!("C02.R3/{}", lkey), &lal(a), &format!("{} is built once per list element but takes the alternative-level captures {:?} as its range: all elements share one range", lit.ty, uses_alt_capture));
                }
                continue;
            }

            if is_principal {
                // ---- R1 start
                let mut ok = true;
                match &start {
                    End::Capture(b, ix, false) => {
                        let prefix_ok = a.syms[..*ix].iter().all(|s| is_loc(s) || (DECORATED.contains(&d.name.as_str()) && matches!(&s.kind, SymKind::Name(n) if n == "Decorator") && s.rep == "*"));
                        // the capture must be immediately before a real symbol (i.e. nothing real before it)
                        if !prefix_ok {
                            ok = false;
                            cx.fail("C02.R1", &format!("C02.R1/{}/start", lkey), &lal(a), &format!("range starts at `{}` which is captured after `{}`", b, a.syms[..*ix].iter().filter(|s| !is_loc(s)).map(grammar::sym_text).collect::<Vec<_>>().join(" ")));
                        }
                    }
                    End::Capture(b, _, true) => {
                        ok = false;
                        cx.fail("C02.R1", &format!("C02.R1/{}/start", lkey), &lal(a), &format!("range starts at the @R capture `{}`", b));
                    }
                    other => {
                        ok = false;
                        cx.fail("C02.R1", &format!("C02.R1/{}/start", lkey), &lal(a), &format!("range start is {:?}, expected the leading @L capture", other));
                    }
                }
                // ---- R1 end
                match &end {
                    End::Capture(b, ix, lookbehind) => {
                        let suffix_ok = a.syms[*ix + 1..].iter().all(is_loc);
                        if !suffix_ok {
                            ok = false;
                            cx.fail("C02.R1", &format!("C02.R1/{}/end", lkey), &lal(a), &format!("range ends at `{}` which is captured before `{}`", b, a.syms[*ix + 1..].iter().filter(|s| !is_loc(s)).map(grammar::sym_text).collect::<Vec<_>>().join(" ")));
                        } else if !*lookbehind && last_real.map_or(false, |l| l < *ix) && first_real.is_some() {
                            // an @L capture after the last symbol is the start of the NEXT token, not the end of this one
                            ok = false;
                            cx.fail("C02.R1", &format!("C02.R1/{}/end", lkey), &lal(a), &format!("range ends at the @L capture `{}` (start of the following token) instead of an @R capture", b));
                        }
                    }
                    End::Derived(_, _) if r2_bad => {
                        // already reported under R2
                        ok = false;
                    }
                    End::Derived(m, roots) if m == "end" => {
                        // chain rule
                        let mut probs = vec![];
                        if roots.is_empty() {
                            probs.push("no statement list feeds the end".to_string());
                        }
                        for w in roots.windows(2) {
                            if w[0].1 <= w[1].1 {
                                probs.push(format!("`{}` is consulted before `{}` although it comes earlier in the source", w[0].0, w[1].0));
                            }
                        }
                        if let (Some(first), Some(lr)) = (roots.first(), last_real) {
                            if first.1 != lr {
                                probs.push(format!("the chain starts at `{}` but the last symbol of the alternative is `{}`", first.0, grammar::sym_text(&a.syms[lr])));
                            }
                        }
                        for (k, (r, ix)) in roots.iter().enumerate() {
                            let s = &a.syms[*ix];
                            let kind = sym_value_kind(g, s);
                            if !matches!(kind, ValKind::Stmts | ValKind::Handlers | ValKind::Cases) {
                                probs.push(format!("`{}` is not a statement list", r));
                            }
                            let optional = s.rep.contains('?') || s.rep.contains('*');
                            let last = k + 1 == roots.len();
                            if last && optional {
                                probs.push(format!("the chain ends at the optional `{}` (unwrap may see nothing)", r));
                            }
                            if !last && !optional {
                                probs.push(format!("`{}` is mandatory but the chain continues past it", r));
                            }
                            // consecutive links must be adjacent real symbols
                            if !last {
                                let next_ix = roots[k + 1].1;
                                let between_real = next_ix < *ix && a.syms[next_ix + 1..*ix].iter().any(|s| !is_loc(s));
                                if between_real {
                                    probs.push(format!("a symbol between `{}` and `{}` is skipped", roots[k + 1].0, r));
                                }
                            }
                        }
                        if !probs.is_empty() {
                            ok = false;
                            cx.fail("C02.R1", &format!("C02.R1/{}/end-chain", lkey), &lal(a), &format!("end of {}: {}", lit.ty, probs.join("; ")));
                        }
                    }
                    other => {
                        ok = false;
                        cx.fail("C02.R1", &format!("C02.R1/{}/end", lkey), &lal(a), &format!("range end is {:?}", other));
                    }
                }
                if ok {
                    cx.ok("C02.R1", &format!("{}: [{} .. {}]", lkey, end_text(&start), end_text(&end)));
                }
                // ---- R4 enclosure
                let lo = match &start {
                    End::Capture(_, ix, _) => Some(*ix),
                    _ => None,
                };
                let hi = match &end {
                    End::Capture(_, ix, _) => Some(*ix),
                    End::Derived(_, roots) => roots.first().map(|r| r.1 + 1),
                    _ => None,
                };
                if let (Some(lo), Some(hi)) = (lo, hi) {
                    let mut outside = vec![];
                    for (fname, pos, _, _) in &lit.fields {
                        if fname == "range" {
                            continue;
                        }
                        if let Some(p) = pos {
                            for r in &p.roots {
                                if let Some(ix) = a.syms.iter().position(|s| s.binding.as_deref() == Some(r.as_str())) {
                                    if is_loc(&a.syms[ix]) {
                                        continue;
                                    }
                                    if DECORATED.contains(&d.name.as_str()) && fname == "decorator_list" {
                                        continue;
                                    }
                                    if ix < lo || ix > hi {
                                        outside.push(format!("{} (field {})", r, fname));
                                    }
                                }
                            }
                        }
                    }
                    if outside.is_empty() {
                        cx.ok("C02.R4", &format!("{}: all children inside the captures", lkey));
                    } else {
                        cx.fail("C02.R4", &format!("C02.R4/{}", lkey), &lal(a), &format!("children {:?} lie outside the captures used for the range of {}", outside, lit.ty));
                    }
                }
            } else {
                // ---- R3b secondary node: bound symbols strictly between the captures must feed the node
                if let (End::Capture(_, lo, _), End::Capture(_, hi, _)) = (&start, &end) {
                    let mut feeding: BTreeSet<String> = BTreeSet::new();
                    for (_, pos, _, _) in &lit.fields {
                        if let Some(p) = pos {
                            feeding.extend(p.roots.iter().cloned());
                        }
                    }
                    let mut strangers = vec![];
                    for s in &a.syms[*lo + 1..*hi] {
                        if is_loc(s) {
                            continue;
                        }
                        if let Some(b) = &s.binding {
                            if !feeding.contains(b) {
                                strangers.push(b.clone());
                            }
                        }
                    }
                    if strangers.is_empty() {
                        cx.ok("C02.R3b", &format!("{}: secondary node bracketed by its own captures", lkey));
                    } else {
                        cx.fail("C02.R3b", &format!("C02.R3b/{}", lkey), &lal(a), &format!("secondary {} takes a range that also spans {:?}, which are not part of it", lit.ty, strangers));
                    }
                } else {
                    cx.ok_trivial("C02.R3b");
                }
            }
        }

        // ---- R3b: Arguments::empty(range) fallbacks
        if let syn::Expr::Block(b) = e {
            for s in &b.block.stmts {
                let syn::Stmt::Local(l) = s else { continue };
                let Some(init) = &l.init else { continue };
                let t = sm::tsx(&init.expr);
                if !t.contains("Arguments::empty(") {
                    continue;
                }
                let feeding: BTreeSet<String> = sm::idents_in(&init.expr).into_iter().collect();
                // the range passed
                let mut rng: Option<(End, End)> = None;
                sm::for_each_expr(&init.expr, |x| {
                    if let syn::Expr::Call(c) = x {
                        if sm::tsc(&c.func).ends_with("Arguments::empty") && c.args.len() == 1 {
                            if let Some((sa, sb)) = split_range(&c.args[0], &flow.defs, 0) {
                                rng = Some((classify_end(sa, a, &flow.env, &BTreeMap::new(), 0), classify_end(sb, a, &flow.env, &BTreeMap::new(), 0)));
                            }
                        }
                    }
                });
                let key = format!("C02.R3b/{}/Arguments::empty", alt_key(d, a));
                match rng {
                    Some((End::Capture(_, lo, _), End::Capture(_, hi, _))) => {
                        let strangers: Vec<String> = a.syms[lo + 1..hi].iter().filter(|s| !is_loc(s)).filter_map(|s| s.binding.clone()).filter(|b| !feeding.contains(b)).collect();
                        if strangers.is_empty() {
                            cx.ok("C02.R3b", &format!("{}: empty Arguments range brackets only the parameter list", alt_key(d, a)));
                        } else {
                            cx.fail("C02.R3b", &key, &lal(a), &format!("the empty Arguments node receives the alternative-level captures, which also span {:?}: a parameter-less construct gets an Arguments range covering the whole construct", strangers));
                        }
                    }
                    other => cx.fail("C02.R3b", &format!("{}/unrecognised", key), &lal(a), &format!("Arguments::empty range is {:?}", other)),
                }
            }
        }
        // ---- R3b: attaching a child to an already-built node
        for (bind, field, val) in &flow.field_assigns {
            if field == "range" {
                continue;
            }
            let Some(ix) = a.syms.iter().position(|s| s.binding.as_deref() == Some(bind.as_str())) else { continue };
            let extended = flow.field_assigns.iter().any(|(b2, f2, _)| b2 == bind && f2 == "range");
            let vroots: Vec<String> = sm::idents_in(val).into_iter().filter(|i| a.syms.iter().any(|s| s.binding.as_deref() == Some(i.as_str()))).collect();
            let later: Vec<&String> = vroots.iter().filter(|r| a.syms.iter().position(|s| s.binding.as_deref() == Some(r.as_str())).map_or(false, |p| p > ix)).collect();
            let key = format!("C02.R3b/{}/attach-{}", alt_key(d, a), field);
            if !later.is_empty() && !extended {
                cx.fail("C02.R3b", &key, &lal(a), &format!("`{}.{}` is set from {:?}, which follows `{}` in the source, but `{}.range` is not extended: the node's range excludes its new child", bind, field, later, bind, bind));
            } else {
                cx.ok("C02.R3b", &format!("{}: attach {} ok", alt_key(d, a), field));
            }
        }
    }

    // ---- R4 order-preserving operations on lists
    let bad_ops = [".rev()", ".sort", ".reverse()", ".insert(", ".swap(", ".dedup", ".swap_remove(", ".rotate", ".retain("];
    for (d, a, e) in actions(g) {
        let t = sm::tsx(e);
        for op in bad_ops {
            if t.contains(op) {
                if d.name == "IfStatement" && op == ".rev()" {
                    cx.assume("IfStatement folds the elif chain with s2.into_iter().rev(): the nesting order (innermost elif built first) is the reference's; tabled exception of C02.R4");
                    continue;
                }
                cx.fail("C02.R4", &format!("C02.R4/{}/op{}", alt_key(d, a), op.trim_matches(|c| c == '.' || c == '(' || c == ')')), &lal(a), &format!("order-changing operation `{}` in an action", op));
            }
        }
    }
}

fn end_text(e: &End) -> String {
    match e {
        End::Capture(b, _, lb) => format!("{}{}", if *lb { "@R " } else { "@L " }, b),
        End::Derived(m, roots) => format!("{}() of {}", m, roots.iter().map(|r| r.0.as_str()).collect::<Vec<_>>().join(" | ")),
        End::Inner(t) => t.clone(),
        End::Other(t) => t.clone(),
    }
}

// ------------------------------------------------------------------ string.rs

fn string_ranges(cx: &mut Ctx, g: &Grammar) {
    let s = match sm::load(&cx.repo, "parser/src/string.rs") {
        Ok(s) => s,
        Err(e) => return cx.anchor_missing("C02.R5", &e),
    };
    cx.rule("C02.R5", "parse_strings gives every node it builds the range first-start .. last-end of the concatenated tokens; StringParser::range() is the token's own start..end; every grammar use of parse_strings passes a non-empty (@L string @R)+ list");
    cx.floor("C02.R5", 8);
    // range(): TextRange::new(self.start, self.end)
    match s.method("StringParser", "range") {
        Some(m) if sm::tsx(&m.block) == "{TextRange::new(self.start,self.end)}" => cx.ok("C02.R5", "StringParser::range() = TextRange::new(self.start, self.end)"),
        Some(m) => cx.fail("C02.R5", "C02.R5/StringParser::range", &s.loc(m), &format!("StringParser::range() is `{}`", sm::tsc(&m.block))),
        None => cx.anchor_missing("C02.R5", "StringParser::range"),
    }
    // new(): start/end fields are the parameters
    match s.method("StringParser", "new") {
        Some(m) => {
            let t = sm::tsx(&m.block);
            if t.contains("end,kind,location:start+offset,start,") {
                cx.ok("C02.R5", "StringParser::new stores start, end and location = start + offset");
            } else {
                cx.fail("C02.R5", "C02.R5/StringParser::new", &s.loc(m), "StringParser::new does not store { start, end, location: start + offset }");
            }
            // offset = prefix_len + 3|1
            let offs_ok = t.contains("letoffset=kind.prefix_len()+iftriple_quoted{TextSize::from(3)}else{TextSize::from(1)};");
            if offs_ok {
                cx.ok("C02.R5", "content offset = prefix_len + (3 if triple-quoted else 1)");
            } else {
                cx.fail("C02.R5", "C02.R5/StringParser::new/offset", &s.loc(m), "the content offset is not prefix_len() + (3 | 1) by triple_quoted");
            }
        }
        None => cx.anchor_missing("C02.R5", "StringParser::new"),
    }
    if let Some(ps) = s.free_fns("parse_strings").into_iter().next() {
        let t = sm::tsx(&ps.block);
        if t.contains("letinitial_start=values[0].0;") && t.contains("letlast_end=values.last().unwrap().2;") {
            cx.ok("C02.R5", "initial_start = values[0].0, last_end = values.last().2");
        } else {
            cx.fail("C02.R5", "C02.R5/parse_strings/ends", &s.loc(ps), "initial_start / last_end are not values[0].0 / values.last().unwrap().2");
        }
        let mut n = 0;
        let mut bad = 0;
        sm::for_each_expr_in_block(&ps.block, |e| {
            if let syn::Expr::Struct(st) = e {
                for fv in &st.fields {
                    if sm::ts(&fv.member) == "range" {
                        n += 1;
                        if sm::tsc(&fv.expr) != "TextRange::new(initial_start,last_end)" {
                            bad += 1;
                        }
                    }
                }
            }
        });
        if n >= 4 && bad == 0 {
            cx.ok("C02.R5", &format!("{} node literals in parse_strings, all with TextRange::new(initial_start, last_end)", n));
        } else {
            cx.fail("C02.R5", "C02.R5/parse_strings/ranges", &s.loc(ps), &format!("{} of {} node literals in parse_strings do not use TextRange::new(initial_start, last_end) (4 expected)", bad, n));
        }
        // inner parse_string calls pass each token's own start/end
        let mut calls = 0;
        let mut callbad = 0;
        sm::for_each_expr_in_block(&ps.block, |e| {
            if let syn::Expr::Call(c) = e {
                if sm::tsc(&c.func) == "parse_string" {
                    calls += 1;
                    if sm::tsc(&c.args) != "&source,kind,triple_quoted,start,end" {
                        callbad += 1;
                    }
                }
            }
        });
        if calls == 3 && callbad == 0 {
            cx.ok("C02.R5", "3 parse_string calls pass the token's own (source, kind, triple_quoted, start, end)");
        } else {
            cx.fail("C02.R5", "C02.R5/parse_strings/calls", &s.loc(ps), &format!("{} parse_string calls, {} with unexpected arguments", calls, callbad));
        }
    } else {
        cx.anchor_missing("C02.R5", "parse_strings");
    }
    // grammar call sites: parse_strings(s) where s is bound to (@L string @R)+
    let mut sites = 0;
    for (d, a, e) in actions(g) {
        let t = sm::tsx(e);
        if !t.contains("parse_strings(") {
            continue;
        }
        sites += 1;
        let mut arg = String::new();
        sm::for_each_expr(e, |x| {
            if let syn::Expr::Call(c) = x {
                if sm::tsc(&c.func) == "parse_strings" && c.args.len() == 1 {
                    arg = sm::tsc(&c.args[0]);
                }
            }
        });
        let sym = a.syms.iter().find(|s| s.binding.as_deref() == Some(arg.as_str()));
        let ok = sym.map_or(false, |s| s.rep == "+" && grammar::sym_text(s).contains("(@L string @R)+"));
        if ok {
            cx.ok("C02.R5", &format!("{}: parse_strings({}) with {} = (@L string @R)+", alt_key(d, a), arg, arg));
        } else {
            cx.fail("C02.R5", &format!("C02.R5/site/{}", alt_key(d, a)), &lal(a), &format!("parse_strings argument `{}` is not bound to (@L string @R)+ (non-emptiness and per-token captures are not guaranteed)", arg));
        }
    }
    if sites < 3 {
        cx.fail("C02.R5", "C02.R5/sites", "parser/src/python.lalrpop", &format!("{} parse_strings call sites (3 expected)", sites));
    }

    // ---- R6 f-string re-basing
    cx.rule("C02.R6", "parse_fstring_expr wraps the field text in a prefix whose byte length equals the TextSize literal subtracted from the field's start position, which parse_formatted_value captures with get_pos() before consuming any character of the field");
    cx.floor("C02.R6", 3);
    match s.free_fns("parse_fstring_expr").into_iter().next() {
        None => cx.anchor_missing("C02.R6", "parse_fstring_expr"),
        Some(f) => {
            let mut prefix_len: Option<usize> = None;
            let mut sub: Option<u64> = None;
            let mut start_from_location = false;
            let mut passes_start = false;
            sm::for_each_expr_in_block(&f.block, |e| {
                if let syn::Expr::Macro(m) = e {
                    if m.mac.path.is_ident("format") {
                        let toks = m.mac.tokens.to_string();
                        if let Ok(lit) = syn::parse_str::<syn::LitStr>(toks.trim()) {
                            let v = lit.value();
                            if let Some(p) = v.find("{source}") {
                                prefix_len = Some(v[..p].len());
                            }
                        }
                    }
                }
                if let syn::Expr::Binary(b) = e {
                    if matches!(b.op, syn::BinOp::Sub(_)) && sm::tsc(&b.left) == "location" {
                        start_from_location = true;
                        if let syn::Expr::Call(c) = &*b.right {
                            if sm::tsc(&c.func) == "TextSize::from" && c.args.len() == 1 {
                                sub = tables::lit_int(&c.args[0]);
                            }
                        }
                    }
                }
                if let syn::Expr::Call(c) = e {
                    if sm::tsc(&c.func).ends_with("parse_starts_at") {
                        passes_start = c.args.len() == 3 && sm::tsc(&c.args[0]) == "&fstring_body" && sm::tsc(&c.args[2]) == "start";
                    }
                }
            });
            match (prefix_len, sub) {
                (Some(p), Some(k)) if p as u64 == k && start_from_location => cx.ok("C02.R6", &format!("prefix of {} byte(s) before {{source}}, start = location - {}", p, k)),
                (p, k) => cx.fail("C02.R6", "C02.R6/rebase-constant", &s.loc(f), &format!("prefix before {{source}} is {:?} bytes but the start is location - {:?}", p, k)),
            }
            if passes_start {
                cx.ok("C02.R6", "the re-based start and the wrapped body are what is parsed");
            } else {
                cx.fail("C02.R6", "C02.R6/parse-call", &s.loc(f), "parse_starts_at is not called with (&fstring_body, _, start)");
            }
        }
    }
    match s.method("StringParser", "parse_formatted_value") {
        None => cx.anchor_missing("C02.R6", "parse_formatted_value"),
        Some(m) => {
            // `let location = self.get_pos();` must precede the first next_char call
            let t = sm::tsx(&m.block);
            let p_loc = t.find("letlocation=self.get_pos();");
            let p_next = t.find("self.next_char()");
            // every call of the expression parser (one per branch, or one hoisted before the branch) gets the field's
            // text and the captured start
            let n_calls = t.matches("parse_fstring_expr(").count();
            let calls_ok = n_calls >= 1 && n_calls <= 2 && t.matches("parse_fstring_expr(&expression,location)").count() == n_calls;
            match (p_loc, p_next) {
                (Some(a), Some(b)) if a < b && calls_ok => cx.ok("C02.R6", "field start captured by get_pos() before the first next_char(); both parse_fstring_expr calls receive (&expression, location)"),
                _ => cx.fail("C02.R6", "C02.R6/field-start", &s.loc(m), "the field's start is not captured with get_pos() before the first consumed character, or parse_fstring_expr is not called with (&expression, location)"),
            }
        }
    }

    // ---- R7 position advancers
    cx.rule("C02.R7", "every function that advances a position by text_len() of a char read from text accounts for the CR LF -> LF folding performed by Lexer::next_char on that text (sibling agreement of position advancers)");
    cx.rule("C02.R7b", "StringParser::next_char is the only consumer of StringParser.chars (every consumed character advances location); all other code only peeks");
    cx.floor("C02.R7", 1);
    cx.floor("C02.R7b", 2);
    match s.method("StringParser", "next_char") {
        None => cx.anchor_missing("C02.R7", "StringParser::next_char"),
        Some(m) => {
            let t = sm::tsx(&m.block);
            if t == "{letc=self.chars.next()?;self.location+=c.text_len();Some(c)}" {
                cx.ok("C02.R7b", "StringParser::next_char: one chars.next(), location += c.text_len()");
            } else {
                cx.fail("C02.R7b", "C02.R7b/next_char", &s.loc(m), &format!("StringParser::next_char is `{}`", t));
            }
            // sibling: the token value has CR LF folded to LF by the lexer; this advancer adds 1 for '\n'
            let handles_fold = t.contains("'\\r'") || t.contains("\\r\\n");
            if handles_fold {
                cx.ok("C02.R7", "StringParser::next_char accounts for folded line endings");
            } else {
                cx.fail("C02.R7", "C02.R7/fstring-crlf-drift", &s.loc(m), "StringParser::next_char advances by text_len() of the already-folded token value: after a CR LF inside a (triple-quoted) f-string every later replacement-field range is one byte short per CR LF");
            }
        }
    }
    // who consumes self.chars
    let mut n_ok = 0;
    for i in s.impls() {
        if sm::self_ty_name(i) != "StringParser" {
            continue;
        }
        for it in &i.items {
            let syn::ImplItem::Fn(f) = it else { continue };
            let fname = f.sig.ident.to_string();
            sm::for_each_expr_in_block(&f.block, |e| {
                if let syn::Expr::MethodCall(mc) = e {
                    if sm::tsc(&mc.receiver) == "self.chars" {
                        let m = mc.method.to_string();
                        let allowed = (fname == "next_char" && m == "next") || (fname == "peek" && m == "peek");
                        if !allowed {
                            cx.fail("C02.R7b", &format!("C02.R7b/{}/{}", fname, m), &s.loc(mc), &format!("StringParser::{} calls self.chars.{}(): characters consumed or inspected outside next_char()/peek() bypass the position bookkeeping", fname, m));
                        } else {
                            n_ok += 1;
                        }
                    }
                }
                // passing self.chars somewhere else
                if let syn::Expr::Reference(r) = e {
                    if sm::tsc(&r.expr) == "self.chars" {
                        cx.fail("C02.R7b", &format!("C02.R7b/{}/borrow", fname), &s.loc(r), "self.chars is borrowed out of the parser");
                    }
                }
            });
        }
    }
    if n_ok >= 2 {
        cx.ok("C02.R7b", &format!("{} uses of self.chars, only next_char()/peek()", n_ok));
    }
}

// ------------------------------------------------------------------ Ranged impls

fn ranged_impls(cx: &mut Ctx) {
    let rule = "C02.R8";
    cx.rule(rule, "every node struct with a range field has an impl Ranged returning self.range; enum impls dispatch exhaustively to the bound variant; the impl is cfg(all-nodes-with-ranges)-gated iff the field's type is OptionalRange<R>");
    cx.floor(rule, 88);
    let (generic, ranged) = match (sm::load(&cx.repo, "ast/src/gen/generic.rs"), sm::load(&cx.repo, "ast/src/gen/ranged.rs")) {
        (Ok(a), Ok(b)) => (a, b),
        (Err(e), _) | (_, Err(e)) => return cx.anchor_missing(rule, &e),
    };
    let model = crate::astmodel::load(&generic);
    let mut impls: BTreeMap<String, &syn::ItemImpl> = BTreeMap::new();
    for i in ranged.impls() {
        if sm::trait_name(i).as_deref() == Some("Ranged") {
            impls.insert(sm::self_ty_name(i), i);
        }
    }
    for (name, st) in &model.structs {
        let Some(rf) = st.fields.iter().find(|f| f.name == "range") else { continue };
        let key = format!("{}/{}", rule, name);
        match impls.get(name) {
            None => cx.fail(rule, &format!("{}/missing", key), &format!("ast/src/gen/generic.rs:{}", st.line), "node struct with a range has no impl Ranged"),
            Some(i) => {
                let body = i.items.iter().find_map(|it| if let syn::ImplItem::Fn(f) = it { Some(sm::tsc(&f.block)) } else { None }).unwrap_or_default();
                let gated = sm::cfg_features(&i.attrs).iter().any(|(f, pos)| f == "all-nodes-with-ranges" && *pos);
                let mut probs = vec![];
                if body != "{self.range}" {
                    probs.push(format!("range() is `{}`", body));
                }
                if gated != rf.optional_range {
                    probs.push(format!("cfg gate = {}, but the field type is {}", gated, rf.ty));
                }
                if probs.is_empty() {
                    cx.ok(rule, &format!("{}: range() = self.range{}", name, if gated { " [all-nodes-with-ranges]" } else { "" }));
                } else {
                    cx.fail(rule, &key, &ranged.loc(*i), &probs.join("; "));
                }
            }
        }
    }
    for (name, en) in &model.enums {
        let Some(i) = impls.get(name) else { continue };
        let key = format!("{}/{}", rule, name);
        let mut seen = BTreeSet::new();
        let mut bad = vec![];
        for it in &i.items {
            if let syn::ImplItem::Fn(f) = it {
                sm::for_each_expr_in_block(&f.block, |e| {
                    if let syn::Expr::Match(m) = e {
                        if sm::tsc(&m.expr) != "self" {
                            bad.push("scrutinee is not self".to_string());
                        }
                        for arm in &m.arms {
                            if let syn::Pat::TupleStruct(ts) = &arm.pat {
                                let v = ts.path.segments.last().map(|s| s.ident.to_string()).unwrap_or_default();
                                let mut ids = vec![];
                                sm::pat_idents(&arm.pat, &mut ids);
                                let b = ids.first().cloned().unwrap_or_default();
                                if sm::tsc(sm::unblock(&arm.body)) != format!("{}.range()", b) {
                                    bad.push(format!("variant {} returns `{}`", v, sm::tsc(&arm.body)));
                                }
                                seen.insert(v);
                            } else {
                                bad.push(format!("arm `{}`", sm::tsc(&arm.pat)));
                            }
                        }
                    }
                });
            }
        }
        for (v, _) in &en.variants {
            if !seen.contains(v) {
                bad.push(format!("variant {} not dispatched", v));
            }
        }
        if bad.is_empty() {
            cx.ok(rule, &format!("enum {}: {} variants dispatched to node.range()", name, seen.len()));
        } else {
            cx.fail(rule, &key, &ranged.loc(*i), &bad.join("; "));
        }
    }
}

// ------------------------------------------------------------------ TextRange literals

fn text_range_literals(cx: &mut Ctx) {
    let rule = "C02.W1";
    cx.rule(rule, "TextRange { start, end } literals occur only in vendored/src/text_size/range.rs (private fields: the start <= end invariant can only be established through TextRange::new, which asserts it, and the order-preserving constructors); no other crate file constructs the struct literally");
    cx.floor(rule, 3);
    let range_rs = match sm::load(&cx.repo, "vendored/src/text_size/range.rs") {
        Ok(s) => s,
        Err(e) => return cx.anchor_missing(rule, &e),
    };
    // fields private
    match range_rs.struct_named("TextRange") {
        Some(st) => {
            let all_private = st.fields.iter().all(|f| matches!(f.vis, syn::Visibility::Inherited));
            if all_private {
                cx.ok(rule, "TextRange fields are private");
            } else {
                cx.fail(rule, "C02.W1/public-field", &range_rs.loc(st), "TextRange has a non-private field: any crate can build start > end");
            }
        }
        None => cx.anchor_missing(rule, "struct TextRange"),
    }
    // new() asserts start <= end
    match range_rs.method("TextRange", "new") {
        Some(m) => {
            let t = sm::tsx(&m.block);
            if t.contains("assert!(start<=end)") || t.contains("assert!(start.raw<=end.raw)") {
                cx.ok(rule, "TextRange::new asserts start <= end");
            } else {
                cx.fail(rule, "C02.W1/new-assert", &range_rs.loc(m), "TextRange::new does not assert start <= end");
            }
        }
        None => cx.anchor_missing(rule, "TextRange::new"),
    }
    // literals in range.rs: classify
    let mut lits = 0;
    for f in range_rs.impls().into_iter().flat_map(|i| i.items.iter()) {
        let syn::ImplItem::Fn(f) = f else { continue };
        let fname = f.sig.ident.to_string();
        sm::for_each_expr_in_block(&f.block, |e| {
            if let syn::Expr::Struct(s) = e {
                if s.path.segments.last().map_or(false, |p| p.ident == "TextRange" || p.ident == "Self") {
                    lits += 1;
                    let start = s.fields.iter().find(|f| sm::ts(&f.member) == "start").map(|f| sm::tsc(&f.expr)).unwrap_or_default();
                    let end = s.fields.iter().find(|f| sm::ts(&f.member) == "end").map(|f| sm::tsc(&f.expr)).unwrap_or_default();
                    let body = sm::tsc(&f.block);
                    let ok = start == end // empty
                        || (fname == "new" && (body.contains("assert!(start<=end)") || body.contains("assert!(start.raw<=end.raw)")))
                        || start == "0.into()" || start == "TextSize::new(0)" || start == "TextSize{raw:0}"
                        || (fname == "at" ) || fname == "up_to" || fname == "empty"
                        || fname.starts_with("checked_") || fname == "add" || fname == "sub" || fname == "cover" || fname == "intersect" || fname == "cover_offset" || fname == "sub_start" || fname == "add_start" || fname == "sub_end" || fname == "add_end";
                    if !ok {
                        cx.fail(rule, &format!("C02.W1/literal/{}", fname), &range_rs.loc(s), &format!("TextRange literal {{ start: {}, end: {} }} in `{}` is not one of the order-preserving forms", start, end, fname));
                    }
                }
            }
        });
    }
    cx.unit("TextRange literals in range.rs", lits);
    // other files of the workspace: no `TextRange {` struct literal
    let mut others = 0;
    for rel in workspace_rs_files(&cx.repo) {
        if rel == "vendored/src/text_size/range.rs" || rel.ends_with("python.rs") {
            continue;
        }
        let Ok(src) = sm::load(&cx.repo, &rel) else { continue };
        others += 1;
        struct V<'a> {
            hits: Vec<usize>,
            _p: std::marker::PhantomData<&'a ()>,
        }
        impl<'a> syn::visit::Visit<'a> for V<'a> {
            fn visit_expr_struct(&mut self, s: &'a syn::ExprStruct) {
                if s.path.segments.last().map_or(false, |p| p.ident == "TextRange") {
                    self.hits.push(sm::line(s.path.segments[0].ident.span()));
                }
                syn::visit::visit_expr_struct(self, s);
            }
        }
        use syn::visit::Visit;
        let mut v = V { hits: vec![], _p: std::marker::PhantomData };
        v.visit_file(&src.file);
        for l in v.hits {
            cx.fail(rule, &format!("C02.W1/foreign-literal/{}", rel), &format!("{}:{}", rel, l), "TextRange struct literal outside text_size/range.rs");
        }
    }
    cx.unit("files scanned for TextRange literals", others);
    cx.ok(rule, &format!("{} other source files contain no TextRange struct literal", others));
}

pub fn workspace_rs_files(repo: &std::path::Path) -> Vec<String> {
    let mut out = vec![];
    for krate in ["ast", "core", "format", "literal", "parser", "vendored"] {
        let mut stack = vec![repo.join(krate).join("src")];
        while let Some(d) = stack.pop() {
            let Ok(rd) = std::fs::read_dir(&d) else { continue };
            for ent in rd.flatten() {
                let p = ent.path();
                if p.is_dir() {
                    if p.file_name().map_or(false, |n| n == "snapshots") {
                        continue;
                    }
                    stack.push(p);
                } else if p.extension().map_or(false, |e| e == "rs") {
                    if let Ok(rel) = p.strip_prefix(repo) {
                        out.push(rel.to_string_lossy().to_string());
                    }
                }
            }
        }
    }
    out.sort();
    out
}

#[allow(dead_code)]
fn _u(_: &NtDef, _: &StructLit, _: &Src) {}
