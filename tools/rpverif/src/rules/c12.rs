//! C12 — fold and visitor traverse the whole tree faithfully (DESIGN §4 C12, §3.4).

use crate::astmodel::{self, AstModel};
use crate::report::Ctx;
use crate::srcmodel::{self as sm, Src};
use std::collections::{BTreeMap, BTreeSet};

pub fn run(cx: &mut Ctx) {
    cx.trust("rustc/syn (parsing of the generated files)");
    let generic = match sm::load(&cx.repo, "ast/src/gen/generic.rs") {
        Ok(s) => s,
        Err(e) => return cx.anchor_missing("C12", &e),
    };
    let model = astmodel::load(&generic);
    cx.unit("node structs", model.structs.len());
    cx.unit("node enums", model.enums.len());

    match sm::load(&cx.repo, "ast/src/gen/fold.rs") {
        Ok(fold) => {
            fold_rules(cx, &model, &fold);
        }
        Err(e) => cx.anchor_missing("C12.F1", &e),
    }
    match sm::load(&cx.repo, "ast/src/fold.rs") {
        Ok(f) => foldable_impls(cx, &f),
        Err(e) => cx.anchor_missing("C12.F4", &e),
    }
    match sm::load(&cx.repo, "ast/src/gen/visitor.rs") {
        Ok(v) => visitor_rules(cx, &model, &v),
        Err(e) => cx.anchor_missing("C12.V1", &e),
    }
    match sm::load(&cx.repo, "ast/src/optimizer.rs") {
        Ok(o) => optimizer_rules(cx, &o),
        Err(e) => cx.anchor_missing("C12.O1", &e),
    }
    match sm::load(&cx.repo, "ast/src/source_locator.rs") {
        Ok(l) => handwritten_folds(cx, &model, &l),
        Err(e) => cx.anchor_missing("C12.H1", &e),
    }
}

// ---------------------------------------------------------------- fold

fn fold_rules(cx: &mut Ctx, model: &AstModel, fold: &Src) {
    cx.rule("C12.F1", "every generated struct fold destructures exactly the struct's fields by their own names, takes the range context (will_map_user[_cfg]) before folding any child, folds every field exactly once from itself, maps the range exactly once with that context (the _cfg form iff the field is OptionalRange), and rebuilds the same struct with field f bound to the folded f");
    cx.rule("C12.F2", "every generated enum fold maps each variant to the same variant, exhaustively, folding the payload once; payload-less enums are returned unchanged");
    cx.rule("C12.F3", "every impl Foldable for K calls folder.fold_k; the Fold trait method fold_k defaults to the free function fold_k; fold_k takes and returns K");
    cx.floor("C12.F1", 70);
    cx.floor("C12.F2", 7);
    cx.floor("C12.F3", 80);

    // free fold functions by name
    let mut free: BTreeMap<String, &syn::ItemFn> = BTreeMap::new();
    for f in fold.all_free_fns() {
        free.insert(f.sig.ident.to_string(), f);
    }
    // trait Fold methods
    let mut trait_methods: BTreeMap<String, &syn::TraitItemFn> = BTreeMap::new();
    for it in &fold.file.items {
        if let syn::Item::Trait(t) = it {
            if t.ident == "Fold" {
                for ti in &t.items {
                    if let syn::TraitItem::Fn(f) = ti {
                        trait_methods.insert(f.sig.ident.to_string(), f);
                    }
                }
            }
        }
    }
    if trait_methods.is_empty() {
        return cx.anchor_missing("C12.F3", "trait Fold in gen/fold.rs");
    }
    cx.unit("Fold trait methods", trait_methods.len());
    cx.unit("free fold functions", free.len());

    // impl Foldable for K
    let mut covered_structs = BTreeSet::new();
    let mut covered_enums = BTreeSet::new();
    for i in fold.impls() {
        if sm::trait_name(i).as_deref() != Some("Foldable") {
            continue;
        }
        let ty = sm::self_ty_name(i);
        let key = format!("C12.F3/{}", ty);
        // body: folder.fold_x(self)
        let mut method = None;
        for it in &i.items {
            if let syn::ImplItem::Fn(f) = it {
                if f.sig.ident == "fold" && f.block.stmts.len() == 1 {
                    if let syn::Stmt::Expr(syn::Expr::MethodCall(mc), None) = &f.block.stmts[0] {
                        if sm::tsc(&mc.receiver) == "folder" && mc.args.len() == 1 && sm::tsc(&mc.args[0]) == "self" {
                            method = Some(mc.method.to_string());
                        }
                    }
                }
            }
        }
        let Some(method) = method else {
            cx.fail("C12.F3", &key, &fold.loc(i), "impl Foldable body is not `folder.fold_x(self)`");
            continue;
        };
        // trait default delegates to the free function of the same name
        let mut ok = true;
        match trait_methods.get(&method) {
            Some(tm) => {
                let body_ok = tm.default.as_ref().map_or(false, |b| {
                    b.stmts.len() == 1 && matches!(&b.stmts[0], syn::Stmt::Expr(syn::Expr::Call(c), None)
                        if sm::tsc(&c.func) == method && c.args.len() == 2 && sm::tsc(&c.args[0]) == "self" && sm::tsc(&c.args[1]) == "node")
                });
                if !body_ok {
                    ok = false;
                    cx.fail("C12.F3", &format!("{}/trait-default", key), &fold.loc(*tm), &format!("Fold::{} does not default to the free function {}(self, node)", method, method));
                }
                // param type is K
                let pty = tm.sig.inputs.iter().nth(1).map(|a| if let syn::FnArg::Typed(t) = a { sm::type_last_ident(&t.ty) } else { String::new() }).unwrap_or_default();
                if pty != ty {
                    ok = false;
                    cx.fail("C12.F3", &format!("{}/trait-param", key), &fold.loc(*tm), &format!("Fold::{} takes {} but is called for {}", method, pty, ty));
                }
            }
            None => {
                ok = false;
                cx.fail("C12.F3", &format!("{}/no-trait-method", key), &fold.loc(i), &format!("Fold has no method {}", method));
            }
        }
        let Some(ff) = free.get(&method) else {
            cx.fail("C12.F3", &format!("{}/no-free-fn", key), &fold.loc(i), &format!("no free function {}", method));
            continue;
        };
        let node_ty = ff.sig.inputs.iter().nth(1).map(|a| if let syn::FnArg::Typed(t) = a { sm::type_last_ident(&t.ty) } else { String::new() }).unwrap_or_default();
        if node_ty != ty {
            ok = false;
            cx.fail("C12.F3", &format!("{}/free-param", key), &fold.loc(*ff), &format!("{} takes {} but serves {}", method, node_ty, ty));
        }
        if ok {
            cx.ok("C12.F3", &format!("{} -> {}", ty, method));
        }
        if let Some(st) = model.structs.get(&ty) {
            covered_structs.insert(ty.clone());
            check_struct_fold(cx, fold, st, ff);
        } else if let Some(en) = model.enums.get(&ty) {
            covered_enums.insert(ty.clone());
            check_enum_fold(cx, fold, en, ff);
        } else {
            cx.fail("C12.F3", &format!("{}/unknown-type", key), &fold.loc(i), "Foldable implemented for a type not defined in gen/generic.rs");
        }
    }
    // every generic node struct/enum (except the Ast umbrella and Python-style arguments) has a fold
    for (name, st) in &model.structs {
        if st.generic && !covered_structs.contains(name) && name != "PythonArguments" {
            cx.fail("C12.F1", &format!("C12.F1/{}/no-fold", name), &format!("ast/src/gen/generic.rs:{}", st.line), "node struct has no Foldable impl");
        }
    }
    for (name, en) in &model.enums {
        if en.generic && !covered_enums.contains(name) && name != "Ast" {
            cx.fail("C12.F2", &format!("C12.F2/{}/no-fold", name), &format!("ast/src/gen/generic.rs:{}", en.line), "node enum has no Foldable impl");
        }
    }
}

fn check_struct_fold(cx: &mut Ctx, fold: &Src, st: &astmodel::NodeStruct, ff: &syn::ItemFn) {
    let name = &st.name;
    let key = format!("C12.F1/{}", name);
    let loc = fold.loc(&ff.sig.ident);
    let stmts = &ff.block.stmts;
    let field_names: Vec<String> = st.fields.iter().map(|f| f.name.clone()).collect();
    let mut problems: Vec<String> = vec![];

    // 1. destructure
    let mut idx = 0;
    let mut bound: BTreeMap<String, String> = BTreeMap::new(); // field -> local
    match stmts.get(0) {
        Some(syn::Stmt::Local(l)) => {
            if let syn::Pat::Struct(ps) = &l.pat {
                if ps.path.segments.last().map(|s| s.ident.to_string()).as_deref() != Some(name.as_str()) {
                    problems.push("destructuring pattern names another struct".into());
                }
                if ps.rest.is_some() {
                    problems.push("destructuring uses `..` (fields dropped)".into());
                }
                for fp in &ps.fields {
                    let member = sm::ts(&fp.member).trim_start_matches("r#").to_string();
                    let mut ids = vec![];
                    sm::pat_idents(&fp.pat, &mut ids);
                    let local = ids.get(0).cloned().unwrap_or_default().trim_start_matches("r#").to_string();
                    if local != member {
                        problems.push(format!("field `{}` is bound to a different name `{}`", member, local));
                    }
                    bound.insert(member, local);
                }
                let init_ok = l.init.as_ref().map_or(false, |i| sm::tsc(&i.expr) == "node");
                if !init_ok {
                    problems.push("destructured value is not `node`".into());
                }
            } else {
                problems.push("first statement is not a struct destructuring".into());
            }
            idx = 1;
        }
        _ => problems.push("first statement is not a `let K { .. } = node`".into()),
    }
    let bound_set: BTreeSet<&String> = bound.keys().collect();
    let field_set: BTreeSet<&String> = field_names.iter().collect();
    if bound_set != field_set {
        problems.push(format!("destructured fields {:?} differ from struct fields {:?}", bound_set, field_set));
    }
    let range_field = st.fields.iter().find(|f| f.name == "range");

    // 2.. remaining statements
    let mut context_taken_at: Option<usize> = None;
    let mut folded: BTreeMap<String, usize> = BTreeMap::new();
    let mut first_child_fold: Option<usize> = None;
    let mut mapped = 0usize;
    let mut ret: Option<&syn::Expr> = None;
    for (k, s) in stmts.iter().enumerate().skip(idx) {
        match s {
            syn::Stmt::Local(l) => {
                let mut ids = vec![];
                sm::pat_idents(&l.pat, &mut ids);
                let target = ids.get(0).cloned().unwrap_or_default();
                let Some(init) = &l.init else {
                    problems.push("let without initialiser".into());
                    continue;
                };
                let e = &init.expr;
                let et = sm::tsc(e);
                if target == "context" {
                    let want_cfg = range_field.map_or(false, |f| f.optional_range);
                    let expect = if want_cfg { "folder.will_map_user_cfg(&range)" } else { "folder.will_map_user(&range)" };
                    if et != expect {
                        problems.push(format!("context is `{}`, expected `{}`", et, expect));
                    }
                    if context_taken_at.is_some() {
                        problems.push("context taken twice".into());
                    }
                    context_taken_at = Some(k);
                } else if target == "range" {
                    let want_cfg = range_field.map_or(false, |f| f.optional_range);
                    let expect = if want_cfg { "folder.map_user_cfg(range,context)?" } else { "folder.map_user(range,context)?" };
                    if et != expect {
                        problems.push(format!("range is mapped by `{}`, expected `{}`", et, expect));
                    }
                    mapped += 1;
                } else {
                    let expect = format!("Foldable::fold({},folder)?", target);
                    if et != expect {
                        problems.push(format!("field `{}` is rebuilt from `{}`, expected `{}`", target, et, expect));
                    }
                    *folded.entry(target.clone()).or_insert(0) += 1;
                    if first_child_fold.is_none() {
                        first_child_fold = Some(k);
                    }
                }
            }
            syn::Stmt::Expr(e, None) => ret = Some(e),
            other => problems.push(format!("unexpected statement `{}`", sm::ts(other))),
        }
    }
    if range_field.is_some() {
        if mapped != 1 {
            problems.push(format!("range mapped {} times (must be exactly once)", mapped));
        }
        match (context_taken_at, first_child_fold) {
            (None, _) => problems.push("range context (will_map_user) is never taken".into()),
            (Some(c), Some(f)) if c > f => problems.push("range context is taken after a child was folded".into()),
            _ => {}
        }
    }
    for f in &st.fields {
        if f.name == "range" {
            continue;
        }
        match folded.get(&f.name).copied().unwrap_or(0) {
            1 => {}
            0 => problems.push(format!("field `{}` is never folded", f.name)),
            n => problems.push(format!("field `{}` folded {} times", f.name, n)),
        }
    }
    for f in folded.keys() {
        if !field_names.contains(f) {
            problems.push(format!("`{}` folded but is not a field", f));
        }
    }
    // 5. Ok(K { f, .. })
    match ret.map(sm::peel_ok) {
        Some(Some(syn::Expr::Struct(es))) => {
            if es.path.segments.last().map(|s| s.ident.to_string()).as_deref() != Some(name.as_str()) {
                problems.push("rebuilt struct is a different type".into());
            }
            if es.rest.is_some() {
                problems.push("rebuilt struct uses `..base`".into());
            }
            let mut seen = BTreeSet::new();
            for fv in &es.fields {
                let member = sm::ts(&fv.member).trim_start_matches("r#").to_string();
                let val = sm::tsc(&fv.expr).trim_start_matches("r#").to_string();
                if val != member {
                    problems.push(format!("rebuilt field `{}` is bound to `{}`", member, val));
                }
                seen.insert(member);
            }
            let want: BTreeSet<String> = field_names.iter().cloned().collect();
            if seen != want {
                problems.push(format!("rebuilt struct fields {:?} differ from struct fields {:?}", seen, want));
            }
        }
        _ => problems.push("function does not end in `Ok(K { .. })`".into()),
    }
    if problems.is_empty() {
        if st.fields.iter().any(|f| f.name != "range") {
            cx.ok("C12.F1", &format!("{} ({} fields)", name, st.fields.len()));
        } else {
            cx.ok_trivial("C12.F1");
        }
    } else {
        for (n, p) in problems.iter().enumerate() {
            cx.fail("C12.F1", &format!("{}/{}", key, n), &loc, &format!("{}: {}", ff.sig.ident, p));
        }
    }
}

fn check_enum_fold(cx: &mut Ctx, fold: &Src, en: &astmodel::NodeEnum, ff: &syn::ItemFn) {
    let key = format!("C12.F2/{}", en.name);
    let loc = fold.loc(&ff.sig.ident);
    let has_payload = en.variants.iter().any(|v| v.1.is_some());
    if !has_payload {
        // Ok(node)
        let ok = ff.block.stmts.len() == 1 && matches!(&ff.block.stmts[0], syn::Stmt::Expr(e, None) if sm::tsc(e) == "Ok(node)");
        if ok {
            cx.ok_trivial("C12.F2");
        } else {
            cx.fail("C12.F2", &key, &loc, "payload-less enum fold is not `Ok(node)`");
        }
        return;
    }
    // let folded = match node { .. }; Ok(folded)
    let mut m: Option<&syn::ExprMatch> = None;
    let mut result_var = String::new();
    for s in &ff.block.stmts {
        if let syn::Stmt::Local(l) = s {
            if let Some(init) = &l.init {
                if let syn::Expr::Match(mm) = &*init.expr {
                    m = Some(mm);
                    let mut ids = vec![];
                    sm::pat_idents(&l.pat, &mut ids);
                    result_var = ids.get(0).cloned().unwrap_or_default();
                }
            }
        }
    }
    let Some(m) = m else {
        cx.fail("C12.F2", &key, &loc, "enum fold has no `let folded = match node {..}`");
        return;
    };
    if sm::tsc(&m.expr) != "node" {
        cx.fail("C12.F2", &format!("{}/scrutinee", key), &loc, "match scrutinee is not `node`");
    }
    let last_ok = matches!(ff.block.stmts.last(), Some(syn::Stmt::Expr(e, None)) if sm::tsc(e) == format!("Ok({})", result_var));
    if !last_ok {
        cx.fail("C12.F2", &format!("{}/result", key), &loc, "enum fold does not return the matched value");
    }
    let mut seen = BTreeSet::new();
    for arm in &m.arms {
        // pattern E::V(cons)
        let (pv, binder) = match &arm.pat {
            syn::Pat::TupleStruct(ts) if ts.elems.len() == 1 => {
                let v = ts.path.segments.last().map(|s| s.ident.to_string()).unwrap_or_default();
                let mut ids = vec![];
                sm::pat_idents(&ts.elems[0], &mut ids);
                (v, ids.get(0).cloned().unwrap_or_default())
            }
            other => {
                cx.fail("C12.F2", &format!("{}/arm-shape/{}", key, sm::tsc(other)), &loc, "arm pattern is not `E::V(x)` (wildcards or multi-variant arms are not allowed)");
                continue;
            }
        };
        if arm.guard.is_some() {
            cx.fail("C12.F2", &format!("{}/{}/guard", key, pv), &loc, "guarded arm");
        }
        let want = format!("{}::{}(Foldable::fold({},folder)?)", en.name, pv, binder);
        let got = sm::tsc(sm::unblock(&arm.body));
        if got != want {
            cx.fail("C12.F2", &format!("{}/{}", key, pv), &fold.loc(&arm.pat), &format!("variant {} is rebuilt as `{}`, expected `{}`", pv, got, want));
        } else {
            cx.ok("C12.F2", &format!("{}::{}", en.name, pv));
        }
        seen.insert(pv);
    }
    for (v, _) in &en.variants {
        if !seen.contains(v) {
            cx.fail("C12.F2", &format!("{}/{}/missing", key, v), &loc, &format!("variant {} has no arm", v));
        }
    }
}

fn foldable_impls(cx: &mut Ctx, f: &Src) {
    cx.rule("C12.F4", "the Foldable impls for Vec/Option/Box use only order- and cardinality-preserving adapters (into_iter, map, collect, transpose, Box::new) around a single `x.fold(folder)`; leaf impls return Ok(self)");
    cx.floor("C12.F4", 4);
    let allowed: BTreeSet<&str> = ["into_iter", "map", "collect", "transpose", "fold"].into_iter().collect();
    let mut found = BTreeSet::new();
    for i in f.impls() {
        if sm::trait_name(i).as_deref() != Some("Foldable") {
            continue;
        }
        let ty = sm::self_ty_name(i);
        if !["Vec", "Option", "Box"].contains(&ty.as_str()) {
            continue;
        }
        found.insert(ty.clone());
        let key = format!("C12.F4/{}", ty);
        let Some(m) = i.items.iter().find_map(|it| if let syn::ImplItem::Fn(m) = it { Some(m) } else { None }) else {
            cx.fail("C12.F4", &key, &f.loc(i), "no fold method");
            continue;
        };
        if m.block.stmts.len() != 1 {
            cx.fail("C12.F4", &key, &f.loc(m), "body is not a single expression");
            continue;
        }
        let syn::Stmt::Expr(body, None) = &m.block.stmts[0] else {
            cx.fail("C12.F4", &key, &f.loc(m), "body is not a tail expression");
            continue;
        };
        let mut bad = vec![];
        let mut n_fold_calls = 0;
        sm::for_each_expr(body, |e| match e {
            syn::Expr::MethodCall(mc) => {
                let n = mc.method.to_string();
                if !allowed.contains(n.as_str()) {
                    bad.push(format!("adapter `{}`", n));
                }
                if n == "fold" {
                    n_fold_calls += 1;
                    if mc.args.len() != 1 || sm::tsc(&mc.args[0]) != "folder" {
                        bad.push("fold called with something other than `folder`".into());
                    }
                }
            }
            syn::Expr::Call(c) => {
                let fnm = sm::tsc(&c.func);
                if fnm != "Box::new" {
                    bad.push(format!("call `{}`", fnm));
                }
            }
            syn::Expr::Macro(_) | syn::Expr::If(_) | syn::Expr::Match(_) | syn::Expr::Loop(_) | syn::Expr::ForLoop(_) | syn::Expr::While(_) => {
                bad.push("control flow in a shape-preserving impl".into());
            }
            _ => {}
        });
        if n_fold_calls != 1 {
            bad.push(format!("{} element fold calls (exactly one expected)", n_fold_calls));
        }
        // the root receiver must be `self` / `*self`
        let mut root = body;
        loop {
            match root {
                syn::Expr::MethodCall(mc) => root = &mc.receiver,
                syn::Expr::Paren(p) => root = &p.expr,
                syn::Expr::Unary(u) => root = &u.expr,
                _ => break,
            }
        }
        if sm::tsc(root) != "self" {
            bad.push(format!("adapter chain starts from `{}` not self", sm::tsc(root)));
        }
        if bad.is_empty() {
            cx.ok("C12.F4", &format!("Foldable for {}: {}", ty, sm::tsc(body)));
        } else {
            for b in bad {
                cx.fail("C12.F4", &format!("{}/{}", key, b), &f.loc(m), &b);
            }
        }
    }
    for t in ["Vec", "Option", "Box"] {
        if !found.contains(t) {
            cx.anchor_missing("C12.F4", &format!("impl Foldable for {}", t));
        }
    }
    // simple_fold macro: body Ok(self)
    let mut ok = false;
    for it in &f.file.items {
        if let syn::Item::Macro(m) = it {
            if m.ident.as_ref().map_or(false, |i| i == "simple_fold") {
                let t: String = m.mac.tokens.to_string().chars().filter(|c| !c.is_whitespace()).collect();
                if t.contains("{Ok(self)}") && t.matches("Ok(").count() == 1 {
                    ok = true;
                }
            }
        }
    }
    if ok {
        cx.ok("C12.F4", "simple_fold! leaf impls return Ok(self)");
    } else {
        cx.fail("C12.F4", "C12.F4/simple_fold", &format!("{}:1", f.rel), "simple_fold! macro does not return exactly Ok(self)");
    }
}

// ---------------------------------------------------------------- visitor

fn visitor_rules(cx: &mut Ctx, model: &AstModel, v: &Src) {
    cx.rule("C12.V1", "for every node struct, generic_visit_k visits each field whose type reaches a node type exactly once with the visitor method of that node type; enum dispatch is exhaustive and variant-to-own-method; visit_k delegates to generic_visit_k");
    cx.floor("C12.V1", 80);
    let mut methods: BTreeMap<String, &syn::TraitItemFn> = BTreeMap::new();
    for it in &v.file.items {
        if let syn::Item::Trait(t) = it {
            if t.ident == "Visitor" {
                for ti in &t.items {
                    if let syn::TraitItem::Fn(f) = ti {
                        methods.insert(f.sig.ident.to_string(), f);
                    }
                }
            }
        }
    }
    if methods.is_empty() {
        return cx.anchor_missing("C12.V1", "trait Visitor");
    }
    cx.unit("Visitor trait methods", methods.len());
    let param_ty = |f: &syn::TraitItemFn| -> String {
        f.sig.inputs.iter().nth(1).map(|a| if let syn::FnArg::Typed(t) = a { sm::type_last_ident(&t.ty) } else { String::new() }).unwrap_or_default()
    };
    // type -> visit method
    let mut visit_of: BTreeMap<String, String> = BTreeMap::new();
    for (n, f) in &methods {
        if n.starts_with("visit_") {
            visit_of.insert(param_ty(f), n.clone());
        }
    }
    // visit_x delegates to generic_visit_x
    for (n, f) in &methods {
        if let Some(rest) = n.strip_prefix("visit_") {
            let g = format!("generic_visit_{}", rest);
            let key = format!("C12.V1/delegate/{}", n);
            let body = f.default.as_ref();
            if methods.contains_key(&g) {
                let ok = body.map_or(false, |b| b.stmts.len() == 1 && matches!(&b.stmts[0], syn::Stmt::Expr(e, None) if sm::tsc(e) == format!("self.{}(node)", g)));
                if ok {
                    cx.ok_trivial("C12.V1");
                } else {
                    cx.fail("C12.V1", &key, &v.loc(*f), &format!("{} does not delegate to {}", n, g));
                }
                if param_ty(f) != param_ty(methods[&g]) {
                    cx.fail("C12.V1", &format!("{}/type", key), &v.loc(*f), "visit/generic_visit parameter types differ");
                }
            } else {
                // leaf visit method (no fields): body must be empty
                let ty = param_ty(f);
                let has_children = model.structs.get(&ty).map_or(false, |s| s.fields.iter().any(|f| !f.reaches.is_empty()));
                if has_children {
                    cx.fail("C12.V1", &key, &v.loc(*f), &format!("{} has node-typed fields but no generic_visit", ty));
                } else {
                    cx.ok_trivial("C12.V1");
                }
            }
        }
    }
    // generic_visit bodies
    for (n, f) in &methods {
        let Some(rest) = n.strip_prefix("generic_visit_") else { continue };
        let ty = param_ty(f);
        let Some(body) = f.default.as_ref() else {
            cx.fail("C12.V1", &format!("C12.V1/{}/no-default", rest), &v.loc(*f), "generic_visit has no default body");
            continue;
        };
        if let Some(en) = model.enums.get(&ty) {
            check_enum_visit(cx, v, en, rest, body, &visit_of, f);
        } else if let Some(st) = model.structs.get(&ty) {
            check_struct_visit(cx, v, st, rest, body, &visit_of, f);
        } else {
            cx.fail("C12.V1", &format!("C12.V1/{}/unknown-type", rest), &v.loc(*f), &format!("parameter type {} is not a node type", ty));
        }
    }
    // every generic struct with node-typed children has a generic_visit
    for (name, st) in &model.structs {
        // the Visitor trait starts at statements: the Mod family and TypeIgnore are outside the property's claim
        if !st.generic || name == "PythonArguments" || name.starts_with("Mod") || name.starts_with("TypeIgnore") {
            continue;
        }
        if st.fields.iter().any(|f| !f.reaches.is_empty()) && !visit_of.contains_key(name) {
            // ArgWithDefault is reached only through Arguments; reported there
            if name == "ArgWithDefault" {
                continue;
            }
            cx.fail("C12.V1", &format!("C12.V1/visitor/{}/no-method", name), &format!("ast/src/gen/generic.rs:{}", st.line), "node struct with children has no visit method");
        }
    }
}

fn check_enum_visit(cx: &mut Ctx, v: &Src, en: &astmodel::NodeEnum, rest: &str, body: &syn::Block, visit_of: &BTreeMap<String, String>, f: &syn::TraitItemFn) {
    let key = format!("C12.V1/dispatch/{}", rest);
    if !en.variants.iter().any(|x| x.1.is_some()) {
        if body.stmts.is_empty() {
            cx.ok_trivial("C12.V1");
        } else {
            cx.fail("C12.V1", &key, &v.loc(f), "payload-less enum has a non-empty generic visit");
        }
        return;
    }
    let m = body.stmts.iter().find_map(|s| if let syn::Stmt::Expr(syn::Expr::Match(m), _) = s { Some(m) } else { None });
    let Some(m) = m else {
        cx.fail("C12.V1", &key, &v.loc(f), "enum generic_visit has no match over its variants");
        return;
    };
    if body.stmts.len() != 1 || sm::tsc(&m.expr) != "node" {
        cx.fail("C12.V1", &format!("{}/shape", key), &v.loc(f), "enum generic_visit is not a single `match node`");
    }
    let mut seen = BTreeSet::new();
    for arm in &m.arms {
        let syn::Pat::TupleStruct(ts) = &arm.pat else {
            cx.fail("C12.V1", &format!("{}/arm-shape/{}", key, sm::tsc(&arm.pat)), &v.loc(&arm.pat), "arm is not `E::V(data)`");
            continue;
        };
        let var = ts.path.segments.last().map(|s| s.ident.to_string()).unwrap_or_default();
        let mut ids = vec![];
        sm::pat_idents(&arm.pat, &mut ids);
        let binder = ids.get(0).cloned().unwrap_or_default();
        let payload = en.variants.iter().find(|x| x.0 == var).and_then(|x| x.1.clone()).unwrap_or_default();
        let want_method = visit_of.get(&payload).cloned().unwrap_or_else(|| "<no visit method>".into());
        let want = format!("self.{}({})", want_method, binder);
        let got = sm::tsc(sm::unblock(&arm.body));
        if got == want && arm.guard.is_none() {
            cx.ok("C12.V1", &format!("{}::{} -> {}", en.name, var, want_method));
        } else {
            cx.fail("C12.V1", &format!("{}/{}", key, var), &v.loc(&arm.pat), &format!("variant {} dispatches to `{}`, expected `{}`", var, got, want));
        }
        seen.insert(var);
    }
    for (var, _) in &en.variants {
        if !seen.contains(var) {
            cx.fail("C12.V1", &format!("{}/{}/missing", key, var), &v.loc(f), &format!("variant {} is not dispatched", var));
        }
    }
}

fn check_struct_visit(cx: &mut Ctx, v: &Src, st: &astmodel::NodeStruct, _rest: &str, body: &syn::Block, visit_of: &BTreeMap<String, String>, f: &syn::TraitItemFn) {
    // collect, per field, the visit calls whose argument derives from `node.<field>`
    let mut visits: BTreeMap<String, Vec<String>> = BTreeMap::new();
    let mut problems = vec![];
    for s in &body.stmts {
        // each top-level statement handles one field
        let (field, calls) = match s {
            syn::Stmt::Expr(e, _) => visit_stmt_shape(e),
            other => (None, vec![sm::tsc(other)]),
        };
        match field {
            Some(fl) => visits.entry(fl).or_default().extend(calls),
            None => problems.push(format!("statement not of a recognised visiting shape: {}", calls.join(" "))),
        }
    }
    let mut nontrivial = false;
    for fld in &st.fields {
        if fld.reaches.is_empty() {
            if visits.contains_key(&fld.name) {
                problems.push(format!("field `{}` has no node type but is visited", fld.name));
            }
            continue;
        }
        nontrivial = true;
        // the node type visited is the innermost generic node type of the field
        let target = fld.reaches.last().unwrap();
        let want = visit_of.get(target).cloned().unwrap_or_else(|| format!("<visit method for {}>", target));
        match visits.get(&fld.name) {
            None => problems.push(format!("field `{}: {}` is never visited (expected one self.{}(..))", fld.name, fld.ty, want)),
            Some(calls) => {
                if calls.len() != 1 {
                    problems.push(format!("field `{}` visited {} times", fld.name, calls.len()));
                }
                for c in calls {
                    if *c != want {
                        problems.push(format!("field `{}` visited with `{}`, expected `{}`", fld.name, c, want));
                    }
                }
            }
        }
    }
    for k in visits.keys() {
        if !st.fields.iter().any(|f| &f.name == k) {
            problems.push(format!("visits `node.{}` which is not a field", k));
        }
    }
    if problems.is_empty() {
        if nontrivial {
            cx.ok("C12.V1", &format!("generic visit of {} ({} node-typed fields)", st.name, st.fields.iter().filter(|f| !f.reaches.is_empty()).count()));
        } else {
            cx.ok_trivial("C12.V1");
        }
    } else if body.stmts.is_empty() && nontrivial {
        cx.fail(
            "C12.V1",
            &format!("C12.V1/visitor/{}/empty", st.name),
            &v.loc(f),
            &format!("generic visit of {} is empty: its node-typed fields ({}) are never reached by the default Visitor", st.name, st.fields.iter().filter(|f| !f.reaches.is_empty()).map(|f| f.name.clone()).collect::<Vec<_>>().join(", ")),
        );
    } else {
        for (n, p) in problems.iter().enumerate() {
            cx.fail("C12.V1", &format!("C12.V1/visitor/{}/{}", st.name, n), &v.loc(f), p);
        }
    }
}

/// Recognise `{ let value = node.f; self.visit_x(value|*value); }`, `if let Some(value) = node.f {..}`,
/// `for value in node.f[.into_iter().flatten()] {..}`; returns (field, visit method names called on the element).
fn visit_stmt_shape(e: &syn::Expr) -> (Option<String>, Vec<String>) {
    fn field_of(e: &syn::Expr) -> Option<String> {
        // node.f possibly followed by .into_iter().flatten()
        let mut cur = e;
        loop {
            match cur {
                syn::Expr::MethodCall(mc) if (mc.method == "into_iter" || mc.method == "flatten") && mc.args.is_empty() => cur = &mc.receiver,
                syn::Expr::Field(f) if sm::tsc(&f.base) == "node" => return Some(sm::ts(&f.member).trim_start_matches("r#").to_string()),
                _ => return None,
            }
        }
    }
    fn calls_in(b: &syn::Block, binder: &str) -> Vec<String> {
        let mut out = vec![];
        for s in &b.stmts {
            match s {
                syn::Stmt::Expr(syn::Expr::MethodCall(mc), _) if sm::tsc(&mc.receiver) == "self" && mc.args.len() == 1 => {
                    let a = sm::tsc(&mc.args[0]);
                    if a == binder || a == format!("*{}", binder) {
                        out.push(mc.method.to_string());
                    } else {
                        out.push(format!("{}({})", mc.method, a));
                    }
                }
                syn::Stmt::Local(_) => {}
                other => out.push(format!("?{}", sm::tsc(other))),
            }
        }
        out
    }
    match e {
        syn::Expr::Block(b) => {
            // { let value = node.f; self.visit(value); }
            let mut field = None;
            let mut binder = String::new();
            for s in &b.block.stmts {
                if let syn::Stmt::Local(l) = s {
                    let mut ids = vec![];
                    sm::pat_idents(&l.pat, &mut ids);
                    binder = ids.get(0).cloned().unwrap_or_default();
                    field = l.init.as_ref().and_then(|i| field_of(&i.expr));
                }
            }
            (field, calls_in(&b.block, &binder))
        }
        syn::Expr::If(_) | syn::Expr::Match(_) => {
            if let Some(il) = sm::if_let_form(e) {
                let mut ids = vec![];
                sm::pat_idents(il.pat, &mut ids);
                let is_some = sm::tsc(il.pat).starts_with("Some(");
                if is_some && il.else_block.is_none() {
                    return (field_of(il.scrut), calls_in(&il.then_block, ids.get(0).map(|s| s.as_str()).unwrap_or("")));
                }
            }
            (None, vec![sm::tsc(e)])
        }
        syn::Expr::ForLoop(fl) => {
            let mut ids = vec![];
            sm::pat_idents(&fl.pat, &mut ids);
            (field_of(&fl.expr), calls_in(&fl.body, ids.get(0).map(|s| s.as_str()).unwrap_or("")))
        }
        _ => (None, vec![sm::tsc(e)]),
    }
}

// ---------------------------------------------------------------- optimizer

fn optimizer_rules(cx: &mut Ctx, o: &Src) {
    cx.rule("C12.O1", "ConstantOptimizer::fold_expr special-cases only load-context tuples: the Tuple arm is guarded by ctx == Load, folds its elements first and in order, rewrites only when all elements are constants, keeps the range, otherwise rebuilds the same tuple; every other expression is delegated to the generated fold; map_user is the identity");
    cx.floor("C12.O1", 6);
    let ms = o.methods("ConstantOptimizer", "fold_expr");
    let Some((_, m)) = ms.first() else {
        return cx.anchor_missing("C12.O1", "ConstantOptimizer::fold_expr");
    };
    let loc = o.loc(*m);
    let mm = m.block.stmts.iter().find_map(|s| if let syn::Stmt::Expr(syn::Expr::Match(mm), _) = s { Some(mm) } else { None });
    let Some(mm) = mm else {
        return cx.fail("C12.O1", "C12.O1/shape", &loc, "fold_expr is not a single match");
    };
    if m.block.stmts.len() != 1 || sm::tsc(&mm.expr) != "node" {
        cx.fail("C12.O1", "C12.O1/shape", &loc, "fold_expr is not a single `match node`");
    }
    let mut tuple_arms = 0;
    let mut wildcard_ok = false;
    for arm in &mm.arms {
        let pt = sm::tsc(&arm.pat);
        if pt == "_" {
            let b = sm::tsc(&arm.body);
            if b == "crate::fold::fold_expr(self,node)" && arm.guard.is_none() {
                wildcard_ok = true;
                cx.ok("C12.O1", "wildcard arm delegates to the generated fold_expr(self, node)");
            } else {
                cx.fail("C12.O1", "C12.O1/delegate", &o.loc(&arm.pat), &format!("default arm is `{}`, expected delegation to crate::fold::fold_expr(self, node)", b));
            }
            continue;
        }
        if !pt.contains("Expr::Tuple(") {
            cx.fail("C12.O1", &format!("C12.O1/extra-arm/{}", pt.chars().take(40).collect::<String>()), &o.loc(&arm.pat), "fold_expr special-cases an expression kind other than Tuple");
            continue;
        }
        tuple_arms += 1;
        // guard on ctx Load
        match &arm.guard {
            Some((_, g)) => {
                let gt = sm::tsc(g);
                let load_only = (gt.starts_with("matches!(ctx,") && gt.ends_with("ExprContext::Load)") && !gt.contains('|'))
                    || gt == "ctx==crate::ExprContext::Load"
                    || gt == "ctx==ExprContext::Load"
                    || gt == "ctx.is_load()";
                if load_only {
                    cx.ok("C12.O1", &format!("Tuple arm guarded by `{}`", gt));
                } else {
                    cx.fail("C12.O1", "C12.O1/optimizer-store-tuple", &o.loc(&arm.pat), &format!("Tuple arm guard `{}` does not restrict the rewrite to load context", gt));
                }
            }
            None => cx.fail("C12.O1", "C12.O1/optimizer-store-tuple", &o.loc(&arm.pat), "Tuple arm is not conditioned on ctx == Load: store/del-context tuples such as the target of `() = x` are rewritten into constants"),
        }
        // body analysis
        let body = sm::tsc(&arm.body);
        // elements folded first via self.fold_expr inside elts.into_iter().map(..).collect()
        let mut recursion = false;
        sm::for_each_expr(&arm.body, |e| {
            let (root, chain) = sm::method_chain(e);
            let names: Vec<&str> = chain.iter().map(|c| c.0.as_str()).collect();
            if sm::tsc(root) == "elts" && names == ["into_iter", "map", "collect"] {
                if let Some((p, b)) = chain[1].1.get(0).and_then(|a| sm::closure1(a)) {
                    if sm::tsc(b) == format!("self.fold_expr({})", p) {
                        recursion = true;
                    }
                }
            }
        });
        if !recursion {
            // the same element-wise fold written as a loop: any run of statements of the arm
            let stmts: Vec<String> = match sm::unblock(&arm.body) {
                syn::Expr::Block(b) => b.block.stmts.iter().map(|s| sm::tsc(s)).collect(),
                other => vec![sm::tsc(other)],
            };
            let mut all_stmts: Vec<Vec<String>> = vec![stmts];
            sm::for_each_expr(&arm.body, |e| {
                if let syn::Expr::Block(b) = e {
                    all_stmts.push(b.block.stmts.iter().map(|s| sm::tsc(s)).collect());
                }
                if let syn::Expr::If(i) = e {
                    all_stmts.push(i.then_branch.stmts.iter().map(|s| sm::tsc(s)).collect());
                }
                if let syn::Expr::Match(m) = e {
                    for a in &m.arms {
                        if let syn::Expr::Block(b) = &*a.body {
                            all_stmts.push(b.block.stmts.iter().map(|s| sm::tsc(s)).collect());
                        }
                    }
                }
            });
            for ss in &all_stmts {
                for i in 0..ss.len() {
                    for j in i + 1..=ss.len().min(i + 3) {
                        let run: String = ss[i..j].concat();
                        if sm::elementwise(&run, None) == Some(("elts".to_string(), "self.fold_expr(_elem)".to_string())) {
                            recursion = true;
                        }
                    }
                }
            }
        }
        if recursion {
            cx.ok("C12.O1", "elements are folded first, in order, by elts.into_iter().map(self.fold_expr).collect()");
        } else {
            cx.fail("C12.O1", "C12.O1/recursion", &o.loc(&arm.pat), "Tuple arm does not fold its elements with elts.into_iter().map(|x| self.fold_expr(x)).collect()");
        }
        for bad in [".rev()", ".skip(", ".take(", ".filter(", ".step_by(", ".dedup", ".sort"] {
            if body.contains(bad) {
                cx.fail("C12.O1", &format!("C12.O1/adapter/{}", bad), &o.loc(&arm.pat), &format!("order/cardinality-changing adapter `{}` in the Tuple arm", bad));
            }
        }
        // find `if elts.iter().all(|e| e.is_constant_expr()) { .. } else { .. }`
        let mut cond_found = false;
        sm::for_each_expr(&arm.body, |e| {
            if let syn::Expr::If(i) = e {
                let (root, chain) = sm::method_chain(&i.cond);
                let names: Vec<&str> = chain.iter().map(|c| c.0.as_str()).collect();
                let mut all_const = sm::tsc(root) == "elts"
                    && names == ["iter", "all"]
                    && chain[1].1.get(0).and_then(|a| sm::closure1(a)).map_or(false, |(p, b)| sm::tsc(b) == format!("{}.is_constant_expr()", p));
                // the same universal test written as a flag loop:
                //   let mut F = true; for v in &elts { if !v.is_constant_expr() { F = false; break; } }  ...  if F
                if !all_const {
                    if let Some(flag) = sm::as_ident(&i.cond) {
                        let arm_text = sm::tsc(&arm.body);
                        let re = regex::Regex::new(&format!(r"letmut{}=true;for(\w+)in&?elts(?:\.iter\(\))?\{{(?:if!(\w+)\.is_constant_expr\(\)\{{{}=false;break;\}}|match(\w+)\.is_constant_expr\(\)\{{false=>\{{{}=false;break;\}},_=>\{{\}},\}})\}}", regex::escape(&flag), regex::escape(&flag), regex::escape(&flag))).unwrap();
                        if let Some(c) = re.captures(&arm_text) {
                            let v = c.get(1).map(|m| m.as_str()).unwrap_or("");
                            let used = c.get(2).or(c.get(3)).map(|m| m.as_str()).unwrap_or("");
                            // the flag is not written anywhere else
                            all_const = v == used && arm_text.matches(&format!("{}=", flag)).count() == 2;
                        }
                    }
                }
                if all_const {
                    cond_found = true;
                    let then_t = sm::tsc(&i.then_branch);
                    let else_t = i.else_branch.as_ref().map(|(_, e)| sm::tsc(e)).unwrap_or_default();
                    let then_ok = then_t.contains("Constant::Tuple(") && then_t.contains("ExprConstant{") && range_preserved(&then_t);
                    let else_ok = else_t.contains("crate::Expr::Tuple(crate::ExprTuple{ctx,elts,range})");
                    if then_ok {
                        cx.ok("C12.O1", "all-constant branch builds ExprConstant{ Constant::Tuple(..), range }");
                    } else {
                        cx.fail("C12.O1", "C12.O1/then", &o.loc(i), "all-constant branch does not build a Constant::Tuple that keeps `range`");
                    }
                    if else_ok {
                        cx.ok("C12.O1", "otherwise the same tuple { elts, ctx, range } is rebuilt");
                    } else {
                        cx.fail("C12.O1", "C12.O1/else", &o.loc(i), "non-constant branch does not rebuild ExprTuple { elts, ctx, range }");
                    }
                    if else_t.contains("unreachable!") {
                        cx.fail("C12.O1", "C12.O1/unreachable", &o.loc(i), "unreachable! outside the all-constant branch");
                    }
                }
            }
        });
        if !cond_found {
            cx.fail("C12.O1", "C12.O1/condition", &o.loc(&arm.pat), "rewrite is not conditioned on elts.iter().all(|e| e.is_constant_expr())");
        }
    }
    if tuple_arms != 1 {
        cx.fail("C12.O1", "C12.O1/tuple-arms", &loc, &format!("{} Tuple arms (exactly one expected)", tuple_arms));
    }
    if !wildcard_ok && !mm.arms.iter().any(|a| sm::tsc(&a.pat) == "_") {
        cx.fail("C12.O1", "C12.O1/delegate", &loc, "no default arm delegating to the generated fold");
    }
    // map_user identity
    match o.methods("ConstantOptimizer", "map_user").first() {
        Some((_, mu)) => {
            let ok = mu.block.stmts.len() == 1 && matches!(&mu.block.stmts[0], syn::Stmt::Expr(e, None) if sm::tsc(e) == "Ok(user)");
            if ok {
                cx.ok("C12.O1", "map_user is the identity Ok(user)");
            } else {
                cx.fail("C12.O1", "C12.O1/map_user", &o.loc(*mu), "ConstantOptimizer::map_user is not Ok(user)");
            }
        }
        None => cx.anchor_missing("C12.O1", "ConstantOptimizer::map_user"),
    }
    // no other Fold method overridden
    for i in o.impls() {
        if sm::self_ty_name(i) == "ConstantOptimizer" && sm::trait_name(i).as_deref() == Some("Fold") {
            for it in &i.items {
                if let syn::ImplItem::Fn(f) = it {
                    let n = f.sig.ident.to_string();
                    if !["will_map_user", "map_user", "fold_expr"].contains(&n.as_str()) {
                        cx.fail("C12.O1", &format!("C12.O1/override/{}", n), &o.loc(f), "ConstantOptimizer overrides a further Fold method");
                    }
                }
            }
        }
    }
}

fn range_preserved(t: &str) -> bool {
    // `range,` shorthand or `range:range` inside the ExprConstant literal
    t.contains("kind:None,range}") || t.contains("kind:None,range}") || t.contains("range:range") || t.contains(",range,") || t.contains("{range,")
}


// ---------------------------------------------------------------- hand-written folds (source_locator.rs)

/// C12.H1: the hand-written fold overrides rebuild nodes field by field; every field of every rebuilt node must be
/// derived from the same-named field of the node that came in (flow-insensitive def-use closure inside the function).
fn handwritten_folds(cx: &mut Ctx, model: &AstModel, src: &Src) {
    let rule = "C12.H1";
    cx.rule(rule, "hand-written folds drop nothing: in ast/src/source_locator.rs every struct literal of a generated node type gives each field other than `range` a value that is derived (def-use closure over lets, loops, pushes, match bindings and closure parameters of the enclosing function) from the same-named field of a node the function received — a field set to a constant, to a default or from another field is reported");
    cx.floor(rule, 30);
    let mut fns: Vec<(String, &syn::Block, Vec<String>)> = vec![];
    let params_of = |sig: &syn::Signature| -> Vec<String> {
        let mut v = vec![];
        for a in &sig.inputs {
            if let syn::FnArg::Typed(t) = a {
                sm::pat_idents(&t.pat, &mut v);
            }
        }
        v
    };
    for f in src.all_free_fns() {
        fns.push((f.sig.ident.to_string(), &f.block, params_of(&f.sig)));
    }
    for i in src.impls() {
        for it in &i.items {
            if let syn::ImplItem::Fn(f) = it {
                fns.push((format!("{}::{}", sm::self_ty_name(i), f.sig.ident), &f.block, params_of(&f.sig)));
            }
        }
    }
    for (fname, block, params) in fns {
        let mut lits: Vec<&syn::ExprStruct> = vec![];
        sm::for_each_expr_in_block(block, |e| {
            if let syn::Expr::Struct(st) = e {
                if st.path.segments.last().map_or(false, |s| model.structs.contains_key(&s.ident.to_string())) {
                    lits.push(st);
                }
            }
        });
        if lits.is_empty() {
            continue;
        }
        // def-use edges: binding -> identifiers it is computed from
        let mut deps: BTreeMap<String, BTreeSet<String>> = BTreeMap::new();
        let mut add = |names: Vec<String>, from: Vec<String>| {
            for n in names {
                deps.entry(n).or_default().extend(from.iter().cloned());
            }
        };
        sm::for_each_stmt_in_block(block, &mut |st| {
            if let syn::Stmt::Local(l) = st {
                if let Some(init) = &l.init {
                    let mut names = vec![];
                    sm::pat_idents(&l.pat, &mut names);
                    // field names of a destructuring pattern are bindings too (`Node { keys, values, .. } = node`)
                    add(names, sm::all_ident_tokens(&init.expr));
                }
            }
        });
        sm::for_each_expr_in_block(block, |e| match e {
            syn::Expr::ForLoop(fl) => {
                let mut names = vec![];
                sm::pat_idents(&fl.pat, &mut names);
                add(names, sm::all_ident_tokens(&fl.expr));
            }
            syn::Expr::Match(m) => {
                let from = sm::all_ident_tokens(&m.expr);
                for a in &m.arms {
                    let mut names = vec![];
                    sm::pat_idents(&a.pat, &mut names);
                    add(names, from.clone());
                }
            }
            syn::Expr::MethodCall(mc) => {
                let recv_ids = sm::all_ident_tokens(&mc.receiver);
                for a in &mc.args {
                    if let syn::Expr::Closure(c) = a {
                        let mut names = vec![];
                        for p in &c.inputs {
                            sm::pat_idents(p, &mut names);
                        }
                        add(names, recv_ids.clone());
                    }
                }
                if ["push", "extend", "insert", "push_back", "append"].contains(&mc.method.to_string().as_str()) {
                    if let Some(r) = sm::as_ident(sm::peel(&mc.receiver)) {
                        let mut from = vec![];
                        for a in &mc.args {
                            from.extend(sm::all_ident_tokens(a));
                        }
                        add(vec![r], from);
                    }
                }
            }
            syn::Expr::Let(l) => {
                let mut names = vec![];
                sm::pat_idents(&l.pat, &mut names);
                add(names, sm::all_ident_tokens(&l.expr));
            }
            _ => {}
        });
        let reach = |start: Vec<String>| -> BTreeSet<String> {
            let mut seen: BTreeSet<String> = BTreeSet::new();
            let mut work = start;
            while let Some(x) = work.pop() {
                if seen.insert(x.clone()) {
                    if let Some(d) = deps.get(&x) {
                        work.extend(d.iter().cloned());
                    }
                }
            }
            seen
        };
        for st in lits {
            let ty = st.path.segments.last().unwrap().ident.to_string();
            if st.rest.is_some() {
                cx.fail(rule, &format!("{}/{}/{}/rest", rule, fname, ty), &src.loc(st), &format!("{}: `{} {{ .., ..base }}` takes fields from a base expression the checker does not follow (fail closed)", fname, ty));
                continue;
            }
            let want: Vec<&str> = model.structs[&ty].fields.iter().map(|f| f.name.as_str()).collect();
            for f in &st.fields {
                let syn::Member::Named(n) = &f.member else { continue };
                let n = n.to_string();
                let n = n.trim_start_matches("r#").to_string();
                if n == "range" || !want.contains(&n.as_str()) {
                    continue;
                }
                let r = reach(sm::all_ident_tokens(&f.expr));
                let from_input = params.iter().any(|p| p != "self" && r.contains(p));
                if r.contains(&n) && from_input {
                    cx.ok_trivial(rule);
                } else {
                    cx.fail(rule, &format!("{}/{}/{}.{}", rule, fname, ty, n), &src.loc(f), &format!("{}: the rebuilt {}.{} is `{}`, which is not derived from the `{}` field of the node that came in: the fold drops or replaces this field", fname, ty, n, sm::tsc(&f.expr), n));
                }
            }
        }
    }
}
