//! C18 — format-spec parsing and formatting: no reachable panic (MIR inventory + discharge), table agreement.

use crate::eval::{Machine, V};
use crate::report::Ctx;
use crate::rules::c03::{check_inventory, panic_inventory, SiteRow};
use crate::rules::units;
use crate::srcmodel::{self as sm};
use std::collections::{BTreeMap, BTreeSet};

const FORMAT_SITES: &[SiteRow] = &[
    SiteRow { func: "format::FormatSpec::add_magnitude_separators", kind: "Result::unwrap", max: 1, discharge: "C18.T2", why: "get_separator_interval() is 3 or 4, try_into::<i32>() cannot fail" },
    SiteRow { func: "format::FormatSpec::add_magnitude_separators", kind: "assert:Overflow", max: 1, discharge: "D.width", why: "width as i32 - prefix.len(): width <= i32::MAX by FormatSpec::parse, prefix is at most 3 bytes" },
    SiteRow { func: "format::FormatSpec::add_magnitude_separators_for_char", kind: "assert:Overflow", max: 1, discharge: "D.width", why: "disp_digit_cnt - dec_digit_cnt on i32 within +-2^31 (lengths of rendered numbers)" },
    SiteRow { func: "format::FormatSpec::add_magnitude_separators_for_char", kind: "split_at", max: 1, discharge: "D.find", why: "index from find() on the same string (ASCII needle) or its len()" },
    SiteRow { func: "format::FormatSpec::add_magnitude_separators_for_char", kind: "index", max: 1, discharge: "D.full", why: "[..] of the needle array (full range)" },
    SiteRow { func: "format::FormatSpec::format_string::{closure#0}", kind: "index", max: 1, discharge: "D.find", why: "&s[..index] with index from s.char_indices().nth(precision) (C18.N2)" },
    SiteRow { func: "format::FormatString::parse_spec", kind: "index", max: 1, discharge: "D.find", why: "&right[1..]: right starts at the byte index of the closing `}` found by char_indices()" },
    SiteRow { func: "format::parse_number", kind: "index", max: 2, discharge: "D.find", why: "text[..num_digits] / text[num_digits..] with num_digits from get_num_digits (a char_indices() index or len(), C18.N2)" },
    SiteRow { func: "format::FormatSpec::format_bool", kind: "index", max: 1, discharge: "D.literal", why: "[1..] of \"true\"/\"false\"" },
    SiteRow { func: "format::FormatSpec::format_bool", kind: "Option::unwrap", max: 1, discharge: "D.literal", why: "BigInt::from_u8 never fails" },
    SiteRow { func: "format::FormatSpec::format_bool", kind: "assert:BoundsCheck", max: 1, discharge: "D.literal", why: "as_bytes()[0] of \"true\"/\"false\"" },
    SiteRow { func: "format::FormatSpec::format_float", kind: "Option::unwrap", max: 1, discharge: "D.arm", why: "format_type.as_ref().unwrap() inside arms that matched Some(..)" },
    SiteRow { func: "format::FormatSpec::format_sign_and_align", kind: "assert:DivisionByZero", max: 1, discharge: "D.literal", why: "division by the literal 2" },
    SiteRow { func: "format::FormatSpec::format_sign_and_align", kind: "assert:Overflow", max: 2, discharge: "D.width", why: "fill / 2 and fill - left on non-negative i32" },
    SiteRow { func: "format::FormatSpec::format_sign_and_align::{closure#0}", kind: "assert:Overflow", max: 2, discharge: "D.width", why: "w as i32 - chars - sign: w <= i32::MAX by FormatSpec::parse" },
    SiteRow { func: "format::FormatSpec::format_string", kind: "Option::unwrap", max: 1, discharge: "D.arm", why: "format_type.as_ref().unwrap() in the arm that excluded None" },
    SiteRow { func: "format::FormatSpec::insert_separator", kind: "String::insert/remove", max: 1, discharge: "D.sep", why: "index = len - inter*i with i <= sep_cnt <= (len-1)/inter (or the padded analogue): inside the ASCII digit string" },
    SiteRow { func: "format::FormatSpec::insert_separator", kind: "assert:Overflow", max: 3, discharge: "D.width", why: "i32 arithmetic on lengths bounded by the width bound" },
    SiteRow { func: "format::FormatSpec::separate_integer", kind: "assert:DivisionByZero", max: 2, discharge: "C18.T2", why: "divisors inter + 1 in {4, 5} and inter in {3, 4}" },
    SiteRow { func: "format::FormatSpec::separate_integer", kind: "assert:RemainderByZero", max: 1, discharge: "C18.T2", why: "inter + 1 in {4, 5}" },
    SiteRow { func: "format::FormatSpec::separate_integer", kind: "assert:Overflow", max: 9, discharge: "D.width", why: "i32 arithmetic on lengths bounded by the width bound" },
    SiteRow { func: "format::FormatString::parse_literal_single", kind: "Option::unwrap", max: 2, discharge: "D.nonempty", why: "called only under `while !cur_text.is_empty()`; second unwrap after is_none() test" },
    SiteRow { func: "format::FormatString::parse_part_in_brackets", kind: "index", max: 1, discharge: "D.splitn", why: "parts[0] of splitn(2, ..) always exists" },
    SiteRow { func: "format::FormatString::parse_spec", kind: "split_at", max: 1, discharge: "D.find", why: "pos from char_indices() of the same text" },
    SiteRow { func: "format::parse_fill_and_align", kind: "index", max: 3, discharge: "D.lenmatch", why: "char_indices[0], [1] in the branch with len >= 2; text[char_indices[1].0..] at a char_indices() index" },
];

pub fn run(cx: &mut Ctx) {
    if let Some(facts) = units::load_facts(cx, "C18.N1") {
        let rule = "C18.N1";
        cx.rule(rule, "panic-obligation inventory of format.rs from resolved MIR: every unwrap/expect, panic, indexing, split_at, String::insert/truncate and every Overflow/Bounds/Division assert belongs to a (function, kind) row of the reviewed site table with its discharge; a new site is an undischarged obligation");
        cx.floor(rule, 20);
        if let Some(cf) = facts.krate("rustpython_format") {
            let inv = panic_inventory(cf, &|f| f.ends_with("format/src/format.rs"));
            cx.unit("panic-capable sites in format.rs", inv.values().sum());
            check_inventory(cx, rule, &inv, FORMAT_SITES, "format/src/format.rs");
        } else {
            cx.anchor_missing(rule, "MIR facts of rustpython_format");
        }
    }
    let src = match sm::load(&cx.repo, "format/src/format.rs") {
        Ok(s) => s,
        Err(e) => return cx.anchor_missing("C18", &e),
    };
    index_provenance(cx, &src);
    type_tables(cx, &src);
    parse_order(cx, &src);
    align_order(cx, &src);
    allowed_handled(cx, &src);
    prefix_agreement(cx, &src);
    grouped_zero_padding(cx, &src);
    crate::rules::float_rules::float_renderer(cx, "C18.G1");
    crate::rules::float_rules::float_sign_rule(cx, "C18.S1", "format/src/format.rs", "FormatSpec", "format_float");
    unconsumed_text(cx, &src);
    grouped_padding(cx, &src);
    crate::rules::float_rules::float_spec_corner_cases(cx, "C18.G2");
    type_dispatch(cx);
}

/// A3: grouped digits are extended to the width only under zero padding.
fn grouped_zero_padding(cx: &mut Ctx, src: &sm::Src) {
    let rule = "C18.A3";
    cx.rule(rule, "add_magnitude_separators, interpreted over fill in {none, '0', 'x'} x alignment in {none, '=', '>'} x width in {none, 10} for a 4-digit magnitude: the digit count handed to the separator routine is the field width exactly when the fill is '0' and the alignment is '=' (what the 0 flag sets) and a width is given; in every other case it is the magnitude's own length (Python pads `format(1234, '10,')` with blanks, not with grouped zeros)");
    cx.floor(rule, 18);
    let Some(f) = src.method("FormatSpec", "add_magnitude_separators") else { return cx.anchor_missing(rule, "add_magnitude_separators") };
    use crate::eval::{Machine, V};
    let methods = |recv: &V, name: &str, args: &[V]| -> Option<V> {
        match (recv, name) {
            (V::Str(st), "len") => Some(V::Int(st.len() as i128)),
            (V::Opt(Some(x)), "unwrap_or") => Some((**x).clone()),
            (V::Opt(None), "unwrap_or") => args.first().cloned(),
            (V::Opt(Some(x)), "unwrap") => Some((**x).clone()),
            (x, "try_into") | (x, "into") | (x, "unwrap") => Some(x.clone()),
            (_, "get_separator_interval") => Some(V::Int(3)),
            (V::Unit, n) if n.ends_with("cmp::max") || n == "max" => match (args.first(), args.get(1)) {
                (Some(V::Int(a)), Some(V::Int(b))) => Some(V::Int(*a.max(b))),
                _ => None,
            },
            // the separator routine: report the digit count it is given
            (V::Unit, n) if n.ends_with("add_magnitude_separators_for_char") => args.get(3).cloned(),
            _ => None,
        }
    };
    let mut bad = vec![];
    for (fname, fill) in [("none", V::Opt(None)), ("'0'", V::Opt(Some(Box::new(V::Char('0' as u32))))), ("'x'", V::Opt(Some(Box::new(V::Char('x' as u32)))))] {
        for (aname, align) in [("none", V::Opt(None)), ("=", V::Opt(Some(Box::new(V::Enum("FormatAlign::AfterSign".into()))))), (">", V::Opt(Some(Box::new(V::Enum("FormatAlign::Right".into())))))] {
            for (wname, width) in [("none", V::Opt(None)), ("10", V::Opt(Some(Box::new(V::Int(10)))))] {
                let fields: Vec<(&str, V)> = vec![("self.fill", fill.clone()), ("self.align", align.clone()), ("self.width", width.clone()), ("self.grouping_option", V::Opt(Some(Box::new(V::Enum("FormatGrouping::Comma".into())))))];
                // a private helper method of FormatSpec is interpreted in place (one level), with the same field values
                let with_helpers = |recv: &V, name: &str, args: &[V]| -> Option<V> {
                    if let Some(v) = methods(recv, name, args) {
                        return Some(v);
                    }
                    if matches!(recv, V::Enum(s) if s == "self") {
                        if let Some(h) = src.method("FormatSpec", name) {
                            let mut hm = Machine::new(&methods);
                            for (k, v) in &fields {
                                hm.set(k, v.clone());
                            }
                            let params: Vec<String> = h.sig.inputs.iter().filter_map(|a| if let syn::FnArg::Typed(t) = a { Some(sm::tsc(&t.pat)) } else { None }).collect();
                            for (p, a) in params.iter().zip(args) {
                                hm.set(p, a.clone());
                            }
                            return hm.eval_fn_body(&h.block).ok();
                        }
                    }
                    None
                };
                let mut m = Machine::new(&with_helpers);
                for (k, v) in &fields {
                    m.set(k, v.clone());
                }
                m.set("magnitude_str", V::Str("1234".into()));
                m.set("prefix", V::Str(String::new()));
                let want = if fname == "'0'" && aname == "=" && wname == "10" { 10 } else { 4 };
                match m.eval_block(&f.block) {
                    Ok(V::Int(n)) if n == want => cx.ok_trivial(rule),
                    other => bad.push(format!("fill {} align {} width {} -> {:?} digits (expected {})", fname, aname, wname, other, want)),
                }
            }
        }
    }
    if bad.is_empty() {
        cx.ok(rule, "grouped digits are zero-extended to the width only for fill '0' with '=' alignment");
    } else {
        cx.fail(rule, &format!("{}/zero-extension", rule), &src.loc(f), &format!("add_magnitude_separators extends the grouped digits to the width outside zero padding: {}", bad.iter().take(4).cloned().collect::<Vec<_>>().join("; ")));
    }
}

/// A2: the prefix that is subtracted from the width for zero padding is the prefix that is printed.
fn prefix_agreement(cx: &mut Ctx, src: &sm::Src) {
    let rule = "C18.A2";
    cx.rule(rule, "in format_int and format_float the prefix handed to add_magnitude_separators (whose length is deducted from the width before zero/grouping padding) is the same expression as the prefix handed to format_sign_and_align (which prints it): sign and radix prefix are counted exactly once; in format_int that prefix is sign + radix prefix");
    cx.floor(rule, 3);
    for name in ["format_int", "format_float"] {
        let Some(f) = src.method("FormatSpec", name) else {
            cx.anchor_missing(rule, name);
            continue;
        };
        let mut sep: Vec<String> = vec![];
        let mut align: Vec<String> = vec![];
        sm::for_each_expr_in_block(&f.block, |e| {
            if let syn::Expr::MethodCall(mc) = e {
                if mc.method == "add_magnitude_separators" && mc.args.len() == 2 {
                    sep.push(sm::tsc(&mc.args[1]).trim_start_matches('&').to_string());
                }
                if mc.method == "format_sign_and_align" && mc.args.len() == 3 {
                    align.push(sm::tsc(&mc.args[1]).trim_start_matches('&').to_string());
                }
            }
        });
        if sep.len() == 1 && align.len() == 1 && sep[0] == align[0] {
            cx.ok(rule, &format!("{}: `{}` is both deducted from the width and printed", name, sep[0]));
        } else {
            cx.fail(rule, &format!("{}/{}", rule, name), &src.loc(f), &format!("{}: add_magnitude_separators deducts the length of {:?} but format_sign_and_align prints {:?}: the padded result misses or overshoots the width", name, sep, align));
        }
    }
    if let Some(f) = src.method("FormatSpec", "format_int") {
        let t = sm::tsc(&f.block);
        if t.contains("letsign_prefix=format!(\"{sign_str}{prefix}\");") || t.contains("letsign_prefix=format!(\"{}{}\",sign_str,prefix);") {
            cx.ok(rule, "format_int: sign_prefix = sign + radix prefix");
        } else {
            cx.fail(rule, &format!("{}/format_int/sign_prefix", rule), &src.loc(f), "format_int does not build its prefix as sign followed by the radix prefix");
        }
    }
}

fn index_provenance(cx: &mut Ctx, src: &sm::Src) {
    let rule = "C18.N2";
    cx.rule(rule, "index provenance: every byte index used for truncation / slicing / split_at / insert derives from char_indices(), find(), len() or an ASCII-digit count of the SAME string; the string precision counts characters and is applied before padding; widths are bounded to i32 at parse time");
    cx.floor(rule, 6);
    let t = sm::tsx(&src.file);
    let checks: [(&str, &str, &str); 6] = [
        ("string-precision", "lettruncated=self.precision.and_then(|precision|{let(index,_)=s.char_indices().nth(precision)?;Some(TruncatedStr{char_len:precision,inner:&s[..index]})});", "format_string cuts at the byte index of the precision-th character (char_indices().nth) and announces `precision` characters"),
        ("no-truncate", "", "no String::truncate with a spec-supplied index"),
        ("separator-split", "letint_end=magnitude_str.find(&['.','e','E','%'][..]).unwrap_or(magnitude_str.len());let(magnitude_int_str,rest)=magnitude_str.split_at(int_end);", "the integer part ends at find(['.','e','E','%']) or len()"),
        ("width-bound", "ifwidth.is_some_and(|width|(i32::MAXasusize)<width){returnErr(FormatSpecError::DecimalDigitsTooMany);}", "FormatSpec::parse rejects widths above i32::MAX (the padding arithmetic is i32)"),
        ("precision-bound", "if(i32::MAXasusize)<size{returnErr(FormatSpecError::PrecisionTooBig);}", "parse_precision rejects precisions above i32::MAX"),
        ("fill-align", "let(maybe_align,remaining)=FormatAlign::parse(&text[char_indices[1].0..]);", "parse_fill_and_align slices at the byte index of the second character"),
    ];
    // get_num_digits: the result is a byte offset taken from char_indices() (or len()), never a character count
    match src.free_fns("get_num_digits").into_iter().next() {
        None => cx.anchor_missing(rule, "get_num_digits"),
        Some(f) => {
            let t = sm::tsc(&f.block);
            let forbidden = [".chars().count()", ".enumerate()", ".chars().position(", ".chars().take_while(", "+1", "-1"];
            let bad: Vec<&str> = forbidden.iter().copied().filter(|x| t.contains(x)).collect();
            if t.contains("text.char_indices()") && t.contains("text.len()") && t.contains("is_ascii_digit()") && bad.is_empty() {
                cx.ok(rule, "get_num_digits returns a char_indices() byte offset of the first non-digit, or len()");
            } else {
                cx.fail(rule, &format!("{}/num-digits", rule), &src.loc(f), &format!("expected index discipline not found: get_num_digits returns a char_indices() index or len() (found {:?})", bad));
            }
        }
    }
    for (k, frag, what) in checks {
        if k == "no-truncate" {
            if !t.contains(".truncate(") {
                cx.ok(rule, what);
            } else {
                cx.fail(rule, &format!("{}/truncate", rule), &src.rel, "a String::truncate call exists in format.rs: a byte index inside a multi-byte character panics");
            }
            continue;
        }
        if t.contains(frag) {
            cx.ok(rule, what);
        } else {
            cx.fail(rule, &format!("{}/{}", rule, k), &src.rel, &format!("expected index discipline not found: {}", what));
        }
    }
}

fn fmt_methods(_recv: &V, _m: &str, _args: &[V]) -> Option<V> {
    None
}

fn type_tables(cx: &mut Ctx, src: &sm::Src) {
    let rule = "C18.T1";
    cx.rule(rule, "FormatType::parse and From<&FormatType> for char are inverse tables over exactly the presentation-type characters of Python's mini-language plus the two tabled extensions (`N`): s b c d o n x X e E f F g G %");
    cx.floor(rule, 16);
    // parse table: Some('x') => (Some(Self::Variant(..)), ..)
    let mut parse_tab: BTreeMap<char, String> = BTreeMap::new();
    let mut char_tab: BTreeMap<String, char> = BTreeMap::new();
    for i in src.impls() {
        let ty = sm::self_ty_name(i);
        let tr = sm::trait_name(i).unwrap_or_default();
        if ty == "FormatType" && tr == "FormatParse" {
            for it in &i.items {
                if let syn::ImplItem::Fn(f) = it {
                    sm::for_each_expr_in_block(&f.block, |e| {
                        if let syn::Expr::Match(m) = e {
                            for arm in &m.arms {
                                let pat = sm::tsc(&arm.pat);
                                let body = sm::tsc(sm::unblock(&arm.body));
                                if let Some(c) = pat.strip_prefix("Some('").and_then(|r| r.strip_suffix("')")) {
                                    if let Some(v) = body.strip_prefix("(Some(Self::").or_else(|| body.strip_prefix("(Some(FormatType::")).and_then(|r| r.strip_suffix("),chars.as_str())")) {
                                        if let Some(ch) = c.chars().next() {
                                            parse_tab.insert(ch, v.to_string());
                                        }
                                    }
                                }
                            }
                        }
                    });
                }
            }
        }
        if ty == "char" && tr == "From" {
            for it in &i.items {
                if let syn::ImplItem::Fn(f) = it {
                    sm::for_each_expr_in_block(&f.block, |e| {
                        if let syn::Expr::Match(m) = e {
                            for arm in &m.arms {
                                let pat = sm::tsc(&arm.pat).replace("FormatType::", "");
                                if let Some(c) = crate::tables::lit_char(sm::unblock(&arm.body)) {
                                    char_tab.insert(pat, c);
                                }
                            }
                        }
                    });
                }
            }
        }
    }
    let want: BTreeSet<char> = "sbcdonNxXeEfFgG%".chars().collect();
    for c in &want {
        match parse_tab.get(c) {
            Some(v) => match char_tab.get(v) {
                Some(back) if back == c => cx.ok(rule, &format!("'{}' <-> {}", c, v)),
                other => cx.fail(rule, &format!("{}/inverse/{}", rule, c), &src.rel, &format!("'{}' parses to {} which prints as {:?}", c, v, other)),
            },
            None => cx.fail(rule, &format!("{}/missing/{}", rule, c), &src.rel, &format!("presentation type '{}' is not parsed", c)),
        }
    }
    for c in parse_tab.keys() {
        if !want.contains(c) {
            cx.fail(rule, &format!("{}/extra/{}", rule, c), &src.rel, &format!("'{}' is accepted as a presentation type", c));
        }
    }
    if char_tab.len() != parse_tab.len() {
        cx.fail(rule, &format!("{}/sizes", rule), &src.rel, &format!("{} parse entries vs {} print entries", parse_tab.len(), char_tab.len()));
    }
    // conversion / align / sign / grouping tables
    let t = sm::tsx(&src.file);
    let _ = t;
    // each table is a match whose arm map (pattern -> value, in any order) equals the reference
    let small: [(&str, Vec<(&str, &str)>); 3] = [
        ("align", vec![("'<'", "Some(FormatAlign::Left)"), ("'>'", "Some(FormatAlign::Right)"), ("'='", "Some(FormatAlign::AfterSign)"), ("'^'", "Some(FormatAlign::Center)"), ("_", "None")]),
        ("sign", vec![("Some('-')", "(Some(FormatSign::Minus),chars.as_str())"), ("Some('+')", "(Some(FormatSign::Plus),chars.as_str())"), ("Some(' ')", "(Some(FormatSign::MinusOrSpace),chars.as_str())"), ("_", "(None,text)")]),
        ("grouping", vec![("Some('_')", "(Some(FormatGrouping::Underscore),chars.as_str())"), ("Some(',')", "(Some(FormatGrouping::Comma),chars.as_str())"), ("_", "(None,text)")]),
    ];
    let mut maps: Vec<std::collections::BTreeMap<String, String>> = vec![];
    {
        struct V<'a> {
            out: &'a mut Vec<std::collections::BTreeMap<String, String>>,
        }
        impl<'a, 'ast> syn::visit::Visit<'ast> for V<'a> {
            fn visit_expr_match(&mut self, m: &'ast syn::ExprMatch) {
                let mut mp = std::collections::BTreeMap::new();
                for a in &m.arms {
                    if a.guard.is_none() {
                        mp.insert(sm::tsc(&a.pat), sm::tsc(sm::unblock(&a.body)));
                    }
                }
                if mp.len() == m.arms.len() {
                    self.out.push(mp);
                }
                syn::visit::visit_expr_match(self, m);
            }
        }
        use syn::visit::Visit;
        V { out: &mut maps }.visit_file(&src.file);
    }
    for (k, want) in small {
        let w: std::collections::BTreeMap<String, String> = want.iter().map(|(a, b)| (a.to_string(), b.to_string())).collect();
        if maps.iter().any(|m| *m == w) {
            cx.ok(rule, &format!("{} table", k));
        } else {
            cx.fail(rule, &format!("{}/{}", rule, k), &src.rel, &format!("the {} character table differs from `< > = ^` / `- + space` / `_ ,`", k));
        }
    }
}

fn parse_order(cx: &mut Ctx, src: &sm::Src) {
    let rule = "C18.Q1";
    cx.rule(rule, "FormatSpec::parse reads the fields in the order of the mini-language (conversion, fill/align, sign, #, 0, width, grouping, precision, type), each parser continuing on the rest the previous one returned, and rejects trailing text; the 0 flag implies fill '0' and align '=' only when no explicit fill was given");
    cx.floor(rule, 3);
    let Some(m) = src.method("FormatSpec", "parse") else { return cx.anchor_missing(rule, "FormatSpec::parse") };
    let stmts: Vec<String> = m.block.stmts.iter().map(|s| sm::tsc(s)).collect();
    let want_prefixes = [
        "let(conversion,text)=FormatConversion::parse(text);",
        "let(mutfill,mutalign,text)=parse_fill_and_align(text);",
        "let(sign,text)=FormatSign::parse(text);",
        "let(alternate_form,text)=parse_alternate_form(text);",
        "let(zero,text)=parse_zero(text);",
        "let(width,text)=parse_number(text)?;",
    ];
    let mut ok = true;
    for (i, w) in want_prefixes.iter().enumerate() {
        if stmts.get(i).map(|s| s.as_str()) != Some(*w) {
            ok = false;
        }
    }
    let rest: Vec<&String> = stmts.iter().filter(|s| s.starts_with("let(")).collect();
    let order: Vec<&str> = rest.iter().map(|s| s.split('=').next().unwrap_or("")).collect();
    let want_order = ["let(conversion,text)", "let(mutfill,mutalign,text)", "let(sign,text)", "let(alternate_form,text)", "let(zero,text)", "let(width,text)", "let(grouping_option,text)", "let(precision,text)", "let(format_type,text)"];
    if ok && order == want_order {
        cx.ok(rule, "field parsers are called in mini-language order, threading `text`");
    } else {
        cx.fail(rule, &format!("{}/order", rule), &src.loc(m), &format!("FormatSpec::parse reads its fields in the order {:?}", order));
    }
    let t = sm::tsx(&m.block);
    if t.contains("if!text.is_empty(){returnErr(FormatSpecError::InvalidFormatSpecifier);}") {
        cx.ok(rule, "trailing text is rejected");
    } else {
        cx.fail(rule, &format!("{}/trailing", rule), &src.loc(m), "trailing text after the type is not rejected");
    }
    if t.contains("ifzero&&fill.is_none(){fill.replace('0');align=align.or(Some(FormatAlign::AfterSign));}") {
        cx.ok(rule, "0 flag: fill '0' whenever no explicit fill was given; align '=' only when none was given");
    } else {
        cx.fail(rule, &format!("{}/zero-flag", rule), &src.loc(m), "the zero flag is not `if zero && fill.is_none() { fill = '0'; align = align.or(AfterSign) }`: an explicit alignment without fill would lose the zero padding");
    }
    // parse_fill_and_align: fill only when the SECOND char is an alignment
    if sm::tsc(&src.file).contains("matchmaybe_align{Some(_)=>(Some(char_indices[0].1),maybe_align,remaining),_=>{let(only_align,only_align_remaining)=FormatAlign::parse(text);(None,only_align,only_align_remaining)}}") {
        cx.ok(rule, "fill is taken only when the second character is an alignment character");
    } else {
        cx.fail(rule, &format!("{}/fill-align", rule), &src.rel, "parse_fill_and_align does not take the fill only when the second character is an alignment");
    }
}

fn align_order(cx: &mut Ctx, src: &sm::Src) {
    let rule = "C18.A1";
    cx.rule(rule, "format_sign_and_align: per alignment the concatenation order of fill, sign and magnitude is the reference's (<: sign mag fill; >: fill sign mag; =: sign fill mag; ^: floor(fill/2) sign mag rest), and the fill count is max(0, width - chars - sign length) with chars = char_len() of the value");
    cx.floor(rule, 5);
    let Some(m) = src.method("FormatSpec", "format_sign_and_align") else { return cx.anchor_missing(rule, "format_sign_and_align") };
    let t = sm::tsx(&m.block);
    let arms = [
        ("Left", "FormatAlign::Left=>format!(\"{}{}{}\",sign_str,magnitude_str,FormatSpec::compute_fill_string(fill_char,fill_chars_needed)),"),
        ("Right", "FormatAlign::Right=>format!(\"{}{}{}\",FormatSpec::compute_fill_string(fill_char,fill_chars_needed),sign_str,magnitude_str),"),
        ("AfterSign", "FormatAlign::AfterSign=>format!(\"{}{}{}\",sign_str,FormatSpec::compute_fill_string(fill_char,fill_chars_needed),magnitude_str),"),
        ("Center", "FormatAlign::Center=>{letleft_fill_chars_needed=fill_chars_needed/2;letright_fill_chars_needed=fill_chars_needed-left_fill_chars_needed;letleft_fill_string=FormatSpec::compute_fill_string(fill_char,left_fill_chars_needed);letright_fill_string=FormatSpec::compute_fill_string(fill_char,right_fill_chars_needed);format!(\"{left_fill_string}{sign_str}{magnitude_str}{right_fill_string}\")}"),
    ];
    for (k, frag) in arms {
        if t.contains(frag) {
            cx.ok(rule, &format!("align {}: reference order", k));
        } else {
            cx.fail(rule, &format!("{}/{}", rule, k), &src.loc(m), &format!("the {} arm does not concatenate fill, sign and magnitude in the reference order", k));
        }
    }
    // the fill count is evaluated (whatever combinator or match spells it) for width x characters x sign length
    let fill_ok = (|| -> Result<usize, String> {
        use crate::eval::{Machine, V};
        let mut init: Option<&syn::Expr> = None;
        for st in &m.block.stmts {
            if let syn::Stmt::Local(l) = st {
                let mut ids = vec![];
                sm::pat_idents(&l.pat, &mut ids);
                if ids == ["fill_chars_needed"] {
                    init = l.init.as_ref().map(|i| &*i.expr);
                }
            }
        }
        let init = init.ok_or("no `let fill_chars_needed = ..`")?;
        let methods = |recv: &V, name: &str, args: &[V]| -> Option<V> {
            match (recv, name, args) {
                (V::Unit, "cmp::max", [V::Int(a), V::Int(b)]) | (V::Unit, "max", [V::Int(a), V::Int(b)]) => Some(V::Int(*a.max(b))),
                (V::Int(a), "max", [V::Int(b)]) => Some(V::Int(*a.max(b))),
                (V::Int(a), "saturating_sub", [V::Int(b)]) => Some(V::Int((*a - *b).max(0))),
                (V::Str(x), "len", []) => Some(V::Int(x.len() as i128)),
                _ => None,
            }
        };
        let mut n = 0;
        for width in [None, Some(0i128), Some(1), Some(4), Some(5), Some(9), Some(40)] {
            for chars in [0i128, 1, 4, 5, 12] {
                for sign in ["", "-"] {
                    let mut mach = Machine::new(&methods);
                    mach.set("self.width", V::Opt(width.map(|w| Box::new(V::Int(w)))));
                    mach.set("num_chars", V::Int(chars));
                    mach.set("sign_str", V::Str(sign.to_string()));
                    let got = mach.eval(init).map_err(|e| format!("not interpretable ({})", e))?;
                    let want = width.map_or(0, |w| (w - chars - sign.len() as i128).max(0));
                    if got != V::Int(want) {
                        return Err(format!("width {:?}, {} characters, sign {:?}: fill count {:?}, expected {}", width, chars, sign, got, want));
                    }
                    n += 1;
                }
            }
        }
        Ok(n)
    })();
    if let (true, Ok(n)) = (t.contains("letnum_chars=magnitude_str.char_len();"), &fill_ok) {
        cx.unit("width x characters x sign combinations on which the fill count was evaluated", *n);
        cx.ok(rule, "fill count = max(0, width - char_len - sign length)");
    } else {
        cx.fail(rule, &format!("{}/fill-count", rule), &src.loc(m), &format!("the fill count is not max(0, width - char_len() - sign length){}", fill_ok.as_ref().err().map(|e| format!(": {}", e)).unwrap_or_default()));
    }
    // TruncatedStr announces the number of characters it holds
    let ft = sm::tsx(&src.file);
    if ft.contains("implCharLenforTruncatedStr<'_>{fnchar_len(&self)->usize{self.char_len}}") && ft.contains("implCharLenforAsciiStr<'_>{fnchar_len(&self)->usize{self.inner.len()}}") {
        cx.ok(rule, "CharLen impls: TruncatedStr = kept characters, AsciiStr = byte length");
    } else {
        cx.fail(rule, &format!("{}/char_len", rule), &src.rel, "a CharLen impl of format.rs does not return the character count");
    }
}

/// T2: allowed ⊆ handled over grouping × FormatType.
fn allowed_handled(cx: &mut Ctx, src: &sm::Src) {
    let rule = "C18.T2";
    cx.rule(rule, "allowed ⊆ handled: evaluating validate_format and get_separator_interval over the finite domain grouping option x presentation type (the subject's own match arms are interpreted), every pair validate_format lets through that can reach add_magnitude_separators (integer and float drivers) has a non-panicking arm yielding 3 or 4");
    cx.floor(rule, 20);
    let (Some(vf), Some(gs)) = (src.method("FormatSpec", "validate_format"), src.method("FormatSpec", "get_separator_interval")) else {
        return cx.anchor_missing(rule, "validate_format / get_separator_interval");
    };
    // extract the two matches
    let vmatch = vf.block.stmts.iter().find_map(|s| if let syn::Stmt::Expr(syn::Expr::Match(m), _) = s { Some(m) } else { None });
    let gmatch = gs.block.stmts.iter().find_map(|s| if let syn::Stmt::Expr(syn::Expr::Match(m), _) = s { Some(m) } else { None });
    let (Some(vm), Some(gm)) = (vmatch, gmatch) else { return cx.fail(rule, &format!("{}/shape", rule), &src.rel, "validate_format / get_separator_interval are not single matches") };
    let types = ["String", "Binary", "Character", "Decimal", "Octal", "Number(Case::Lower)", "Number(Case::Upper)", "Hex(Case::Lower)", "Hex(Case::Upper)", "Exponent(Case::Lower)", "Exponent(Case::Upper)", "GeneralFormat(Case::Lower)", "GeneralFormat(Case::Upper)", "FixedPoint(Case::Lower)", "FixedPoint(Case::Upper)", "Percentage"];
    // types that the int / float drivers send through add_magnitude_separators
    let reach: BTreeSet<&str> = ["Binary", "Decimal", "Octal", "Number(Case::Lower)", "Hex(Case::Lower)", "Hex(Case::Upper)", "Exponent(Case::Lower)", "Exponent(Case::Upper)", "GeneralFormat(Case::Lower)", "GeneralFormat(Case::Upper)", "FixedPoint(Case::Lower)", "FixedPoint(Case::Upper)", "Percentage"].into_iter().collect();
    let methods = fmt_methods;
    for grouping in ["Comma", "Underscore"] {
        for ty in types.iter().map(|t| Some(*t)).chain([None]) {
            // validate_format: arms over (&self.grouping_option, format_type)
            let tyname = ty.unwrap_or("<none: driver default>");
            let base = ty.map(|t| t.split('(').next().unwrap().to_string());
            let allowed = {
                let Some(b) = &base else { continue };
                let mut m = Machine::new(&methods);
                let tv = V::Enum(format!("FormatType::{}", b));
                let gv = V::Opt(Some(Box::new(V::Enum(format!("FormatGrouping::{}", grouping)))));
                let scrut = V::Tuple(vec![gv, tv]);
                let mut hit_err = None;
                for arm in &vm.arms {
                    m.env.push(BTreeMap::new());
                    let matched = m.pat_matches(&arm.pat, &scrut);
                    m.env.pop();
                    match matched {
                        Ok(true) => {
                            hit_err = Some(sm::tsc(&arm.body).contains("Err("));
                            break;
                        }
                        Ok(false) => {}
                        Err(e) => {
                            cx.fail(rule, &format!("{}/unrecognised", rule), &src.loc(vf), &format!("validate_format: unknown pattern construct: {}", e));
                            return;
                        }
                    }
                }
                hit_err == Some(false)
            };
            if !allowed || !reach.contains(tyname) {
                cx.ok_trivial(rule);
                continue;
            }
            // get_separator_interval on self.format_type = Some(ty)
            let mut m = Machine::new(&methods);
            let scrut = V::Opt(Some(Box::new(V::Enum(format!("FormatType::{}", base.clone().unwrap())))));
            let mut result: Option<String> = None;
            for arm in &gm.arms {
                m.env.push(BTreeMap::new());
                let matched = m.pat_matches(&arm.pat, &scrut);
                m.env.pop();
                match matched {
                    Ok(true) => {
                        result = Some(sm::tsc(&arm.body));
                        break;
                    }
                    Ok(false) => {}
                    Err(e) => {
                        cx.fail(rule, &format!("{}/unrecognised", rule), &src.loc(gs), &format!("get_separator_interval: unknown pattern construct: {}", e));
                        return;
                    }
                }
            }
            match result.as_deref() {
                Some("3") | Some("4") => cx.ok(rule, &format!("grouping {} with type {}: interval {}", grouping, tyname, result.unwrap())),
                other => cx.fail(rule, &format!("{}/{}/{}", rule, grouping, tyname), &src.loc(gs), &format!("validate_format allows grouping `{}` with type {} but get_separator_interval yields {:?} for it (a panic! arm): format(x, \"{}{}\") panics", grouping, tyname, other, if grouping == "Comma" { "," } else { "_" }, tyname)),
            }
        }
    }
    // None type: `None => 3`
    if sm::tsc(&gm.arms.iter().map(|a| sm::tsc(a)).collect::<Vec<_>>().join("")).contains("None=>3,") {
        cx.ok(rule, "no explicit type: interval 3");
    } else {
        cx.fail(rule, &format!("{}/none", rule), &src.loc(gs), "get_separator_interval has no `None => 3` arm");
    }
}


/// P2: a sub-parser that recognises nothing consumes nothing.
fn unconsumed_text(cx: &mut Ctx, src: &sm::Src) {
    let rule = "C18.P2";
    cx.rule(rule, "the sub-parsers of the format spec (`fn parse*(text) -> (value.., rest)`) hand back their input unchanged when they recognise nothing: every result tuple whose value part is `None` / `false` ends in the parameter `text` itself — so a `.` without digits, a stray character etc. is still there for FormatSpec::parse to reject (`Format specifier missing precision`), instead of being swallowed");
    cx.floor(rule, 8);
    let re = regex::Regex::new(r"\((?:None,)+(\w+)\)|\(false,(\w+)\)").unwrap();
    let mut fns: Vec<(String, String, String)> = vec![]; // (name, param, body text)
    for f in src.all_free_fns() {
        let name = f.sig.ident.to_string();
        if name.starts_with("parse_") {
            if let Some(syn::FnArg::Typed(pt)) = f.sig.inputs.first() {
                fns.push((name, sm::tsc(&pt.pat), sm::tsc(&f.block)));
            }
        }
    }
    for i in src.impls() {
        for it in &i.items {
            if let syn::ImplItem::Fn(f) = it {
                if f.sig.ident == "parse" && sm::tsc(&f.sig.output).contains("(Option<") {
                    if let Some(syn::FnArg::Typed(pt)) = f.sig.inputs.first() {
                        fns.push((format!("{}::parse", sm::self_ty_name(i)), sm::tsc(&pt.pat), sm::tsc(&f.block)));
                    }
                }
            }
        }
    }
    for (name, param, body) in fns {
        let mut n = 0;
        let mut bad = vec![];
        for c in re.captures_iter(&body) {
            let whole = c.get(0).unwrap().as_str().to_string();
            // `(None, maybe_align, remaining)`-style tuples with a recognised middle part are not "nothing recognised"
            let rest = c.get(1).or(c.get(2)).unwrap().as_str();
            n += 1;
            if rest != param {
                bad.push(whole);
            }
        }
        if bad.is_empty() {
            if n > 0 {
                cx.ok(rule, &format!("{}: {} empty result(s) return `{}` unchanged", name, n, param));
            }
        } else {
            cx.fail(rule, &format!("{}/{}", rule, name), &src.rel, &format!("{} returns {:?} for an input it does not recognise: the rest must be the parameter `{}` itself, otherwise characters are swallowed", name, bad, param));
        }
    }
}


/// A4: zero padding under a grouping option.
fn grouped_padding(cx: &mut Ctx, src: &sm::Src) {
    use crate::eval::{Machine, V};
    let rule = "C18.A4";
    cx.rule(rule, "zero padding with a thousands separator: FormatSpec::separate_integer, interpreted for every digit string of 1..=8 digits, both group sizes (3 and 4) and every requested field width 0..=14, returns the digits zero-extended on the left to the smallest number of digits whose grouped form fills the width, grouped from the right, never starting with a separator (`format(1234, '08,')` = `0,001,234`); insert_separator is interpreted along with it");
    cx.floor(rule, 200);
    let (Some(sep_f), Some(ins_f)) = (src.method("FormatSpec", "separate_integer"), src.method("FormatSpec", "insert_separator")) else { return cx.anchor_missing(rule, "separate_integer / insert_separator") };
    let params = |f: &syn::ImplItemFn| -> Vec<String> {
        f.sig
            .inputs
            .iter()
            .filter_map(|a| if let syn::FnArg::Typed(pt) = a { Some(sm::tsc(&pt.pat).trim_start_matches("mut").to_string()) } else { None })
            .collect()
    };
    let (sp, ip) = (params(sep_f), params(ins_f));
    if sp.len() != 4 || ip.len() != 4 {
        return cx.fail(rule, &format!("{}/shape", rule), &src.loc(sep_f), "separate_integer / insert_separator do not take (digits, interval, separator, count)");
    }
    // reference: group `digits` from the right every `inter` digits
    let group = |digits: &str, inter: usize| -> String {
        let n = digits.len();
        let mut out = String::new();
        for (i, c) in digits.chars().enumerate() {
            if i > 0 && (n - i) % inter == 0 {
                out.push(',');
            }
            out.push(c);
        }
        out
    };
    // insert_separator(s, inter, sep, cnt): interpreted through its own body, with String::insert modelled
    fn run_insert(ins_f: &syn::ImplItemFn, ip: &[String], s: &str, inter: i128, cnt: i128) -> Result<String, String> {
        let cur = std::cell::RefCell::new(s.to_string());
        let methods = |recv: &V, m: &str, args: &[V]| -> Option<V> {
            match (recv, m, args) {
                (V::Str(_), "insert", [V::Int(at), V::Char(c)]) => {
                    let mut b = cur.borrow_mut();
                    if *at < 0 || *at as usize > b.len() {
                        return None;
                    }
                    b.insert(*at as usize, char::from_u32(*c)?);
                    Some(V::Unit)
                }
                _ => None,
            }
        };
        let mut mach = Machine::new(&methods);
        mach.set(&ip[0], V::Str(s.to_string()));
        mach.set(&ip[1], V::Int(inter));
        mach.set(&ip[2], V::Char(',' as u32));
        mach.set(&ip[3], V::Int(cnt));
        mach.eval_fn_body(&ins_f.block)?;
        let out = cur.borrow().clone();
        Ok(out)
    }
    let mut n = 0;
    let mut bad: Vec<String> = vec![];
    'outer: for len in 1..=8usize {
        let digits: String = "12345678"[..len].to_string();
        for inter in [3usize, 4] {
            for width in 0..=14usize {
                let failure = std::cell::RefCell::new(None::<String>);
                let methods = |recv: &V, m: &str, args: &[V]| -> Option<V> {
                    match (recv, m, args) {
                        (V::Unit, name, [V::Str(s), V::Int(i), V::Char(_), V::Int(c)]) if name.ends_with("insert_separator") => match run_insert(ins_f, &ip, s, *i, *c) {
                            Ok(r) => Some(V::Str(r)),
                            Err(e) => {
                                *failure.borrow_mut() = Some(e);
                                None
                            }
                        },
                        _ => None,
                    }
                };
                let mut mach = Machine::new(&methods);
                mach.set(&sp[0], V::Str(digits.clone()));
                mach.set(&sp[1], V::Int(inter as i128));
                mach.set(&sp[2], V::Char(',' as u32));
                mach.set(&sp[3], V::Int(width as i128));
                let got = mach.eval_fn_body(&sep_f.block);
                // reference
                let mut d = len;
                while d + (d - 1) / inter < width {
                    d += 1;
                }
                let want = group(&format!("{}{}", "0".repeat(d - len), digits), inter);
                n += 1;
                match got {
                    Ok(V::Str(g)) if g == want => {}
                    Ok(V::Str(g)) => bad.push(format!("digits {} grouped by {} in a field of {}: `{}`, expected `{}`", digits, inter, width, g, want)),
                    Ok(o) => bad.push(format!("result {:?}", o)),
                    Err(e) => {
                        bad.push(format!("not interpretable ({}{})", e, failure.borrow().clone().map(|x| format!("; {}", x)).unwrap_or_default()));
                        break 'outer;
                    }
                }
            }
        }
    }
    if bad.is_empty() {
        for _ in 0..n {
            cx.ok_trivial(rule);
        }
        cx.ok(rule, &format!("separate_integer agrees with the reference on {} (digits, group size, width) combinations", n));
    } else {
        bad.truncate(3);
        cx.fail(rule, &format!("{}/separate_integer", rule), &src.loc(sep_f), &format!("zero padding under grouping is wrong: {}", bad.join("; ")));
    }
}


/// C18.T3: which presentation types each formatter accepts, decided by matching every FormatType value against the
/// arms of the formatter's dispatch `match` in order.
fn type_dispatch(cx: &mut Ctx) {
    let rule = "C18.T3";
    cx.rule(rule, "presentation types per object kind (Python: floats accept e E f F g G n % and none; ints accept b c d o x X n, the float types and none): every value of FormatType (variants read from the enum, Case payloads expanded) and `None` is matched against the arms of the dispatch `match self.format_type` of format_float / format_int in order; the selected arm is the UnknownFormatCode error exactly for the types Python rejects for that object — for floats d b o x X s c and the undefined 'N', for ints s and 'N'");
    cx.floor(rule, 30);
    let Ok(src) = sm::load(&cx.repo, "format/src/format.rs") else { return cx.anchor_missing(rule, "format/src/format.rs") };
    let Some(en) = src.enum_named("FormatType") else { return cx.anchor_missing(rule, "enum FormatType") };
    use crate::eval::{Machine, V};
    let mut values: Vec<(String, V)> = vec![("None".into(), V::Opt(None))];
    for v in &en.variants {
        let name = v.ident.to_string();
        match &v.fields {
            syn::Fields::Unit => values.push((name.clone(), V::Opt(Some(Box::new(V::Enum(format!("FormatType::{}", name))))))),
            syn::Fields::Unnamed(u) if u.unnamed.len() == 1 && sm::tsc(&u.unnamed[0].ty) == "Case" => {
                for c in ["Lower", "Upper"] {
                    values.push((format!("{}({})", name, c), V::Opt(Some(Box::new(V::Ctor(format!("FormatType::{}", name), vec![V::Enum(format!("Case::{}", c))]))))));
                }
            }
            _ => cx.fail(rule, &format!("{}/variant/{}", rule, name), &src.loc(v), &format!("FormatType::{} has a payload the checker does not enumerate (fail closed)", name)),
        }
    }
    let rejected: [(&str, &str, &[&str]); 2] = [
        ("format_float", "float", &["Decimal", "Binary", "Octal", "Hex(Lower)", "Hex(Upper)", "String", "Character", "Number(Upper)"]),
        ("format_int", "int", &["String", "Number(Upper)"]),
    ];
    for (mname, obj, rej) in rejected {
        let Some(m) = src.method("FormatSpec", mname) else {
            cx.anchor_missing(rule, mname);
            continue;
        };
        // the dispatch: the match on the format type that has an UnknownFormatCode arm
        let mut dispatch: Option<&syn::ExprMatch> = None;
        sm::for_each_expr_in_block(&m.block, |e| {
            if let syn::Expr::Match(mm) = e {
                let sc = sm::tsc(&mm.expr);
                if (sc == "&self.format_type" || sc == "self.format_type") && mm.arms.iter().any(|a| sm::tsc(&a.body).contains("UnknownFormatCode")) && dispatch.is_none() {
                    dispatch = Some(mm);
                }
            }
        });
        let Some(mm) = dispatch else {
            cx.fail(rule, &format!("{}/{}/dispatch", rule, obj), &src.loc(m), &format!("{} has no `match self.format_type` with an UnknownFormatCode arm (fail closed)", mname));
            continue;
        };
        let no = |_: &V, _: &str, _: &[V]| -> Option<V> { None };
        for (vname, v) in &values {
            let mut selected: Option<&syn::Arm> = None;
            let mut err: Option<String> = None;
            for a in &mm.arms {
                let mut mch = Machine::new(&no);
                match mch.pat_matches(&a.pat, v) {
                    Ok(true) => {
                        if a.guard.is_some() {
                            err = Some(format!("arm `{}` has a guard", sm::tsc(&a.pat)));
                        }
                        selected = Some(a);
                        break;
                    }
                    Ok(false) => {}
                    Err(e) => {
                        err = Some(e);
                        break;
                    }
                }
            }
            let key = format!("{}/{}/{}", rule, obj, vname);
            match (selected, err) {
                (_, Some(e)) => cx.fail(rule, &key, &src.loc(mm), &format!("{}: cannot decide which arm takes {} ({}; fail closed)", mname, vname, e)),
                (None, None) => cx.fail(rule, &key, &src.loc(mm), &format!("{}: no arm takes {}", mname, vname)),
                (Some(a), None) => {
                    let is_err = sm::tsc(&a.body).contains("UnknownFormatCode");
                    let want_err = rej.contains(&vname.as_str());
                    if is_err == want_err {
                        cx.ok(rule, &format!("{}: {} -> {}", mname, vname, if is_err { "UnknownFormatCode" } else { "formatted" }));
                    } else if want_err {
                        cx.fail(rule, &key, &src.loc(a), &format!("{}: presentation type {} is taken by the arm `{}`, which formats the {}; Python rejects this type for {} objects", mname, vname, sm::tsc(&a.pat), obj, obj));
                    } else {
                        cx.fail(rule, &key, &src.loc(a), &format!("{}: presentation type {} is rejected with UnknownFormatCode by the arm `{}`; Python accepts it for {} objects", mname, vname, sm::tsc(&a.pat), obj));
                    }
                }
            }
        }
    }
}
