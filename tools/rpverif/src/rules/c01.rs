//! C01 — structural necessary conditions for "valid programs parse to the reference AST".

use crate::grammar::{self, Grammar, SymKind};
use crate::report::Ctx;
use crate::srcmodel::{self as sm, Src};
use crate::tables;
use std::collections::{BTreeMap, BTreeSet};

pub fn run(cx: &mut Ctx) {
    crate::g1::run(cx, "C01.G1");
    let g = match tables::load_grammar(&cx.repo) {
        Ok(g) => g,
        Err(e) => return cx.anchor_missing("C01", &e),
    };
    cx.unit("grammar definitions", g.defs.len());
    cx.unit("grammar alternatives", g.n_alts());
    cx.unit("grammar actions", g.n_actions());
    token_tables(cx, &g, "C01");
    operator_alternatives(cx, &g);
    start_markers(cx, &g);
    crate::rules::grammar_rules::context_discipline(cx, &g);
    crate::rules::grammar_rules::field_order(cx, &g, "C01.O1");
    crate::rules::grammar_rules::list_building_order(cx, &g, "C01.O2");
    crate::rules::grammar_rules::expr_wiring(cx, &g, "C01.E1");
    crate::rules::grammar_rules::singleton_deviants(cx, &g);
    crate::rules::grammar_rules::paren_sensitive_flags(cx, &g);
    soft_keywords(cx);
    import_dots(cx, &g);
    identifier_predicates(cx);
    parse_args_order(cx);
    {
        let rule = "C01.N1";
        cx.rule(rule, "valid numeric literals are not rejected for leading zeros: only a decimal INTEGER with a non-zero value is (`007`); `00`, `0_0`, `007j`, `00.5`, `01e1` are valid Python and reach their token — read from the exits of lex_normal_number (shared with C04.N1 / C06.Z1)");
        cx.floor(rule, 1);
        crate::rules::c04::leading_zero_rule(cx, rule);
    }
}

/// T1/T2: keyword table = extern keyword terminals = Tok variants = reference; operators likewise.
pub fn token_tables(cx: &mut Ctx, g: &Grammar, prefix: &str) {
    let t1 = format!("{}.T1", prefix);
    let t2 = format!("{}.T2", prefix);
    cx.rule(&t1, "keyword table (build.rs gen_phf) = grammar extern keyword terminals = Tok keyword variants with Display 'kw' = Python 3.11 keywords + the three soft keywords; \"...\" maps to Ellipsis");
    cx.rule(&t2, "every operator/delimiter of Python 3.11 is an extern terminal mapped to the Tok variant whose Display prints that spelling; no other quoted terminals exist");
    cx.floor(&t1, 39);
    cx.floor(&t2, 47);
    let refd = match tables::refdata(&cx.verif, "py311_tokens.json") {
        Ok(v) => v,
        Err(e) => return cx.anchor_missing(&t1, &e),
    };
    cx.refdata.insert("py311_tokens.json".into());
    let (build, token) = match (sm::load(&cx.repo, "parser/build.rs"), sm::load(&cx.repo, "parser/src/token.rs")) {
        (Ok(a), Ok(b)) => (a, b),
        (Err(e), _) | (_, Err(e)) => return cx.anchor_missing(&t1, &e),
    };
    let entries = tables::keyword_entries(&build);
    let variants: BTreeMap<String, (Option<String>, bool)> = tables::tok_variants(&token).into_iter().map(|(v, c, p)| (v, (c, p))).collect();
    let display = tables::tok_display(&token);
    let ext = tables::extern_map(g);
    if entries.is_empty() || variants.is_empty() || display.is_empty() || ext.is_empty() {
        return cx.anchor_missing(&t1, "gen_phf entries / enum Tok / Display for Tok / extern block");
    }
    let mut ref_kw: BTreeSet<String> = refd["keywords"].as_array().unwrap().iter().map(|v| v.as_str().unwrap().to_string()).collect();
    ref_kw.extend(refd["soft_keywords"].as_array().unwrap().iter().map(|v| v.as_str().unwrap().to_string()));
    let ref_ops = tables::str_map(&refd["operators"]);

    let mut seen = BTreeSet::new();
    for (kw, var) in &entries {
        let key = format!("{}/{}", t1, kw);
        if !seen.insert(kw.clone()) {
            cx.fail(&t1, &format!("{}/dup", key), "parser/build.rs", "duplicate keyword entry");
            continue;
        }
        let mut probs = vec![];
        if kw == "..." {
            if var != "Ellipsis" {
                probs.push(format!("\"...\" maps to Tok::{}", var));
            }
        } else if !ref_kw.contains(kw) {
            probs.push("not a Python 3.11 keyword".to_string());
        }
        match variants.get(var) {
            None => probs.push(format!("Tok::{} does not exist", var)),
            Some((cfg, payload)) => {
                if cfg.is_some() || *payload {
                    probs.push(format!("Tok::{} is feature-gated or carries a payload", var));
                }
            }
        }
        match display.get(var) {
            Some(d) if *d == format!("'{}'", kw) => {}
            other => probs.push(format!("Display for Tok::{} is {:?}, expected '{}'", var, other, kw)),
        }
        match ext.get(kw) {
            Some(v) if v == var => {}
            other => probs.push(format!("grammar terminal \"{}\" maps to {:?}, keyword table to Tok::{}", kw, other, var)),
        }
        if probs.is_empty() {
            cx.ok(&t1, &format!("{} -> Tok::{}", kw, var));
        } else {
            cx.fail(&t1, &key, "parser/build.rs", &probs.join("; "));
        }
    }
    for kw in &ref_kw {
        if !seen.contains(kw) {
            cx.fail(&t1, &format!("{}/{}/missing", t1, kw), "parser/build.rs", &format!("keyword `{}` has no entry in the keyword table", kw));
        }
    }
    // operators
    for (sp, cname) in &ref_ops {
        let key = format!("{}/{}", t2, sp);
        match ext.get(sp) {
            None => cx.fail(&t2, &key, "parser/src/python.lalrpop", &format!("operator `{}` ({}) is not an extern terminal", sp, cname)),
            Some(var) => {
                let mut probs = vec![];
                if !variants.contains_key(var) {
                    probs.push(format!("Tok::{} does not exist", var));
                }
                match display.get(var) {
                    Some(d) if *d == format!("'{}'", sp) => {}
                    other => probs.push(format!("Display for Tok::{} is {:?}, expected '{}'", var, other, sp)),
                }
                if probs.is_empty() {
                    cx.ok(&t2, &format!("{} -> Tok::{}", sp, var));
                } else {
                    cx.fail(&t2, &key, "parser/src/token.rs", &probs.join("; "));
                }
            }
        }
    }
    // no two terminals map to one variant; no stray quoted terminals
    let mut by_var: BTreeMap<&String, Vec<&String>> = BTreeMap::new();
    for (t, v) in &ext {
        by_var.entry(v).or_default().push(t);
    }
    for (v, ts) in by_var {
        if ts.len() > 1 {
            cx.fail(&t2, &format!("{}/alias/{}", t2, v), "parser/src/python.lalrpop", &format!("terminals {:?} map to the same Tok::{}", ts, v));
        }
    }
    for t in &g.extern_quoted {
        if !(ref_ops.contains_key(t) || ref_kw.contains(t) || t == "\n") {
            cx.fail(&t2, &format!("{}/stray/{}", t2, t), "parser/src/python.lalrpop", &format!("quoted terminal {:?} is neither a Python operator nor a keyword", t));
        }
    }
    match ext.get("\n") {
        Some(v) if v == "Newline" => cx.ok(&t2, "\"\\n\" -> Tok::Newline"),
        other => cx.fail(&t2, &format!("{}/newline", t2), "parser/src/python.lalrpop", &format!("terminal \"\\n\" maps to {:?}", other)),
    }
}

fn tag_paths(e: &syn::Expr) -> Vec<(String, String)> {
    // (enum, tag) for ast::Operator::X / ast::UnaryOp::X / ast::BoolOp::X / ast::CmpOp::X
    let mut out = vec![];
    sm::for_each_expr(e, |x| {
        if let syn::Expr::Path(p) = x {
            let segs: Vec<String> = p.path.segments.iter().map(|s| s.ident.to_string()).collect();
            if segs.len() >= 2 {
                let en = &segs[segs.len() - 2];
                if ["Operator", "UnaryOp", "BoolOp", "CmpOp"].contains(&en.as_str()) {
                    out.push((en.clone(), segs[segs.len() - 1].clone()));
                }
            }
        }
    });
    out
}

fn collect_terms(s: &grammar::Sym, out: &mut Vec<String>) {
    match &s.kind {
        SymKind::Term(t) => out.push(t.clone()),
        SymKind::Group(v) => v.iter().for_each(|x| collect_terms(x, out)),
        _ => {}
    }
}

fn operator_alternatives(cx: &mut Ctx, g: &Grammar) {
    let rule = "C01.T3";
    cx.rule(rule, "every grammar alternative that builds an operator tag pairs it with the terminal(s) the Python 3.11 reference assigns to that tag (13 binary, 13 augmented, 4 unary, 10 comparison, 2 boolean)");
    cx.floor(rule, 42);
    let refd = match tables::refdata(&cx.verif, "py311_ops.json") {
        Ok(v) => v,
        Err(e) => return cx.anchor_missing(rule, &e),
    };
    cx.refdata.insert("py311_ops.json".into());
    let binop = tables::str_map(&refd["binop"]);
    let aug = tables::str_map(&refd["augassign"]);
    let unary = tables::str_map(&refd["unaryop"]);
    let cmp = tables::str_map(&refd["cmpop"]);
    let boolop = tables::str_map(&refd["boolop"]);
    let mut found: BTreeSet<(String, String, String)> = BTreeSet::new(); // (table, spelling, tag)
    for d in &g.defs {
        for a in &d.alts {
            let Some(act) = &a.action else { continue };
            let Some(expr) = &act.expr else { continue };
            let tags = tag_paths(expr);
            if tags.is_empty() {
                continue;
            }
            let mut terms: Vec<String> = vec![];
            for s in &a.syms {
                collect_terms(s, &mut terms);
            }
            let key = format!("{}/{}#{}", rule, d.name, a.index);
            let loc = format!("parser/src/python.lalrpop:{}", a.line);
            if tags.len() != 1 {
                cx.fail(rule, &key, &loc, &format!("alternative builds {} operator tags: {:?}", tags.len(), tags));
                continue;
            }
            let (en, tag) = &tags[0];
            let all_terms = a.syms.iter().all(|s| matches!(s.kind, SymKind::Term(_)));
            let (table_name, table): (&str, &BTreeMap<String, String>) = match en.as_str() {
                "Operator" => {
                    if all_terms && terms.len() == 1 && terms[0].ends_with('=') && terms[0].len() >= 2 && aug.contains_key(&terms[0]) {
                        ("augassign", &aug)
                    } else {
                        ("binop", &binop)
                    }
                }
                "UnaryOp" => ("unaryop", &unary),
                "BoolOp" => ("boolop", &boolop),
                _ => ("cmpop", &cmp),
            };
            // candidate spellings: if the alternative consists only of terminals, their join; else the
            // terminals of the alternative that are keys of the table
            let cands: Vec<String> = if all_terms { vec![terms.join(" ")] } else { terms.iter().filter(|t| table.contains_key(*t)).cloned().collect() };
            if cands.len() != 1 {
                cx.fail(rule, &key, &loc, &format!("cannot pair tag {}::{} with exactly one operator terminal (candidates {:?})", en, tag, cands));
                continue;
            }
            let sp = &cands[0];
            match table.get(sp) {
                Some(want) if want == tag => {
                    cx.ok(rule, &format!("{} `{}` -> {}::{} in {}", table_name, sp, en, tag, d.name));
                    found.insert((table_name.to_string(), sp.clone(), tag.clone()));
                }
                Some(want) => cx.fail(rule, &key, &loc, &format!("`{}` builds {}::{} but the reference tag is {}", sp, en, tag, want)),
                None => cx.fail(rule, &key, &loc, &format!("`{}` is not a {} operator of the reference", sp, table_name)),
            }
        }
    }
    for (name, table) in [("binop", &binop), ("augassign", &aug), ("unaryop", &unary), ("cmpop", &cmp), ("boolop", &boolop)] {
        for (sp, tag) in table {
            if !found.contains(&(name.to_string(), sp.clone(), tag.clone())) {
                cx.fail(rule, &format!("{}/missing/{}/{}", rule, name, sp), "parser/src/python.lalrpop", &format!("no alternative builds {} for `{}`", tag, sp));
            }
        }
    }
}

pub fn start_markers_pub(cx: &mut Ctx, g: &Grammar, rule: &str) {
    start_markers_named(cx, g, rule)
}

fn start_markers(cx: &mut Ctx, g: &Grammar) {
    start_markers_named(cx, g, "C01.T4")
}

fn start_markers_named(cx: &mut Ctx, g: &Grammar, rule: &str) {
    cx.rule(rule, "Tok::start_marker maps the three modes to three distinct Start* tokens; each Top alternative begins with a distinct start token and builds the Mod variant of that mode; each impl Parse for Mod* passes its own mode and unwraps its own variant");
    cx.floor(rule, 9);
    let token = match sm::load(&cx.repo, "parser/src/token.rs") {
        Ok(t) => t,
        Err(e) => return cx.anchor_missing(rule, &e),
    };
    let expected = [("Module", "StartModule", "ModModule"), ("Interactive", "StartInteractive", "ModInteractive"), ("Expression", "StartExpression", "ModExpression")];
    // start_marker
    match token.method("Tok", "start_marker") {
        None => cx.anchor_missing(rule, "Tok::start_marker"),
        Some(m) => {
            let mut map = BTreeMap::new();
            sm::for_each_expr_in_block(&m.block, |e| {
                if let syn::Expr::Match(mm) = e {
                    for arm in &mm.arms {
                        let p = sm::tsc(&arm.pat);
                        let b = sm::tsc(sm::unblock(&arm.body));
                        map.insert(p.trim_start_matches("Mode::").to_string(), b.trim_start_matches("Tok::").to_string());
                    }
                }
            });
            for (mode, tok, _) in expected {
                match map.get(mode) {
                    Some(t) if t == tok => cx.ok(rule, &format!("start_marker({}) = {}", mode, tok)),
                    other => cx.fail(rule, &format!("{}/start_marker/{}", rule, mode), &token.loc(m), &format!("start_marker(Mode::{}) is {:?}, expected Tok::{}", mode, other, tok)),
                }
            }
            if map.len() != 3 {
                cx.fail(rule, &format!("{}/start_marker/arms", rule), &token.loc(m), &format!("{} arms (3 expected)", map.len()));
            }
        }
    }
    // Top alternatives
    match g.def("Top") {
        None => cx.anchor_missing(rule, "grammar nonterminal Top"),
        Some(top) => {
            if !top.public || g.defs.iter().filter(|d| d.public).count() != 1 {
                cx.fail(rule, &format!("{}/top/public", rule), "parser/src/python.lalrpop", "Top must be the only public nonterminal");
            }
            let mut seen = BTreeSet::new();
            for a in &top.alts {
                let first = a.syms.iter().find(|s| !matches!(s.kind, SymKind::Lookahead | SymKind::Lookbehind));
                let start = first.and_then(|s| if let SymKind::Name(n) = &s.kind { Some(n.clone()) } else { None }).unwrap_or_default();
                let act = a.action.as_ref().map(|x| x.code.clone()).unwrap_or_default();
                let loc = format!("parser/src/python.lalrpop:{}", a.line);
                match expected.iter().find(|(_, tok, _)| *tok == start) {
                    Some((mode, _, modty)) => {
                        let builds = act.contains(&format!("ast::{}", modty)) && expected.iter().filter(|(_, _, m)| act.contains(&format!("ast::{}", m))).count() == 1;
                        if builds && seen.insert(start.clone()) {
                            cx.ok(rule, &format!("Top: {} builds {}", start, modty));
                        } else {
                            cx.fail(rule, &format!("{}/top/{}", rule, mode), &loc, &format!("alternative starting with {} does not build exactly ast::{}", start, modty));
                        }
                    }
                    None => cx.fail(rule, &format!("{}/top/alt{}", rule, a.index), &loc, "Top alternative does not begin with a start token"),
                }
            }
            if seen.len() != 3 {
                cx.fail(rule, &format!("{}/top/count", rule), "parser/src/python.lalrpop", &format!("{} distinct start alternatives (3 expected)", seen.len()));
            }
        }
    }
    // impl Parse for Mod*
    let parser = match sm::load(&cx.repo, "parser/src/parser.rs") {
        Ok(t) => t,
        Err(e) => return cx.anchor_missing(rule, &e),
    };
    for (mode, _, modty) in expected {
        let lex = parser.methods(modty, "lex_starts_at");
        let pt = parser.methods(modty, "parse_tokens");
        let key = format!("{}/parse-impl/{}", rule, modty);
        match (lex.first(), pt.first()) {
            (Some((_, l)), Some((_, p))) => {
                let lt = sm::tsc(&l.block);
                let ptt = sm::tsc(&p.block);
                let mode_tok = format!("Mode::{}", mode);
                let variant = modty.strip_prefix("Mod").unwrap_or(modty);
                let lex_ok = lt.contains(&mode_tok) && expected.iter().filter(|(m, _, _)| lt.contains(&format!("Mode::{}", m))).count() == 1;
                let pt_ok = ptt.contains(&format!("parse_filtered_tokens(lxr,{},source_path)", mode_tok)) && ptt.contains(&format!("ast::Mod::{}(m)=>Ok(m)", variant));
                if lex_ok && pt_ok {
                    cx.ok(rule, &format!("impl Parse for {}: lexes and parses in {} and unwraps Mod::{}", modty, mode_tok, variant));
                } else {
                    cx.fail(rule, &key, &parser.loc(*p), &format!("impl Parse for {} does not consistently use {} / Mod::{}", modty, mode_tok, variant));
                }
            }
            _ => cx.anchor_missing(rule, &format!("impl Parse for {}", modty)),
        }
    }
}

pub fn soft_keywords_pub(cx: &mut Ctx, rule: &str) {
    soft_keywords_named(cx, rule, true)
}

/// Without the look-ahead rule: for properties that only need the relabelling and the start-of-line state (C09).
pub fn soft_keywords_relabel_pub(cx: &mut Ctx, rule: &str) {
    soft_keywords_named(cx, rule, false)
}

fn soft_keywords(cx: &mut Ctx) {
    soft_keywords_named(cx, "C01.S1", true)
}

fn soft_keywords_named(cx: &mut Ctx, rule: &str, lookahead: bool) {
    cx.rule(rule, "the soft-keyword pass is a relabelling: every rewritten token is the same soft keyword re-tagged as Name with its own range; soft_to_name spells match/case/type as the keyword table does; the start-of-line set is {StartModule, StartInteractive, Newline, Indent, Dedent}");
    cx.floor(rule, 5);
    let sk = match sm::load(&cx.repo, "parser/src/soft_keywords.rs") {
        Ok(t) => t,
        Err(e) => return cx.anchor_missing(rule, &e),
    };
    // soft_to_name
    match sk.free_fns("soft_to_name").first() {
        None => cx.anchor_missing(rule, "soft_to_name"),
        Some(f) => {
            let mut map = BTreeMap::new();
            sm::for_each_expr_in_block(&f.block, |e| {
                if let syn::Expr::Match(m) = e {
                    for arm in &m.arms {
                        if let Some(s) = tables::lit_str(sm::unblock(&arm.body)) {
                            map.insert(sm::tsc(&arm.pat), s);
                        }
                    }
                }
            });
            let want: BTreeMap<String, String> = [("Tok::Match", "match"), ("Tok::Case", "case"), ("Tok::Type", "type")].into_iter().map(|(a, b)| (a.to_string(), b.to_string())).collect();
            if map == want {
                cx.ok(rule, "soft_to_name: Match->match, Case->case, Type->type");
            } else {
                cx.fail(rule, &format!("{}/soft_to_name", rule), &sk.loc(*f), &format!("soft_to_name table is {:?}", map));
            }
            let t = sm::tsx(&f.block);
            if t.contains("Tok::Name{name:name.to_owned()}") || t.contains("Tok::Name{name:name.to_owned()}") {
                cx.ok(rule, "soft_to_name builds Tok::Name from the spelling");
            } else {
                cx.fail(rule, &format!("{}/soft_to_name/name", rule), &sk.loc(*f), "soft_to_name does not build Tok::Name { name }");
            }
        }
    }
    // next(): every assignment to `next` is Some(Ok((soft_to_name(tok), *range)))
    let Some((_, nx)) = sk.methods("SoftKeywordTransformer", "next").into_iter().next() else {
        return cx.anchor_missing(rule, "SoftKeywordTransformer::next");
    };
    let mut assigns = 0;
    let mut bad = 0;
    sm::for_each_expr_in_block(&nx.block, |e| {
        if let syn::Expr::Assign(a) = e {
            if sm::tsc(&a.left) == "next" {
                assigns += 1;
                if sm::tsc(&a.right) != "Some(Ok((soft_to_name(tok),*range)))" {
                    bad += 1;
                }
            }
        }
    });
    if assigns >= 4 && bad == 0 {
        cx.ok(rule, &format!("{} rewrites of `next`, all Some(Ok((soft_to_name(tok), *range)))", assigns));
    } else {
        cx.fail(rule, &format!("{}/relabel", rule), &sk.loc(nx), &format!("{} rewrites of `next`, {} of which are not a same-range relabelling (at least 4 expected)", assigns, bad));
    }
    // initial binding and return value
    let t = sm::tsx(&nx.block);
    if t.contains("letmutnext=self.underlying.next();") && t.ends_with("next}") {
        cx.ok(rule, "next is underlying.next() and is what is returned");
    } else {
        cx.fail(rule, &format!("{}/source", rule), &sk.loc(nx), "the returned token is not underlying.next() (possibly re-tagged)");
    }
    if lookahead {
        let _ = soft_keyword_lookahead;
        let r3 = if rule == "C01.S1" { "C01.S2".to_string() } else { format!("{}b", rule) };
        soft_keyword_decisions(cx, &r3, if cx.tier == "thorough" { 5 } else { 4 });
    }
    // start-of-line set: the update of self.start_of_line, interpreted for every token kind
    let want: BTreeSet<String> = ["StartModule", "StartInteractive", "Newline", "Indent", "Dedent"].iter().map(|s| s.to_string()).collect();
    match sm::load(&cx.repo, "parser/src/token.rs").and_then(|token| start_of_line_update(&sk, &token, false)) {
        Ok((sets, keeps)) if sets == want && keeps.is_empty() => cx.ok(rule, "start-of-line set = {StartModule, StartInteractive, Newline, Indent, Dedent} (interpreted for every token kind; end of stream and errors give false)"),
        Ok((sets, keeps)) => cx.fail(rule, &format!("{}/start-of-line-set", rule), &sk.loc(nx), &format!("start-of-line token set is {:?} (unchanged for {:?})", sets, keeps)),
        Err(e) => cx.fail(rule, &format!("{}/start-of-line-set", rule), &sk.loc(nx), &format!("the start_of_line update cannot be interpreted: {}", e)),
    }
    // constructor: start_of_line initialised for Module|Interactive
    if let Some((_, n)) = sk.methods("SoftKeywordTransformer", "new").into_iter().next() {
        let t = sm::tsx(&n.block);
        if t.contains("start_of_line:matches!(mode,Mode::Interactive|Mode::Module)") || t.contains("start_of_line:matches!(mode,Mode::Module|Mode::Interactive)") {
            cx.ok(rule, "start_of_line starts true exactly in Module and Interactive mode");
        } else {
            cx.fail(rule, &format!("{}/initial", rule), &sk.loc(n), "initial start_of_line is not matches!(mode, Interactive | Module)");
        }
    }
}

/// The update `self.start_of_line = <expr>` of SoftKeywordTransformer::next, interpreted for every token kind:
/// returns (kinds that set it, kinds that leave it unchanged, problems). `full_lexer` selects the configuration.
pub fn start_of_line_update(sk: &Src, token: &Src, full_lexer: bool) -> Result<(BTreeSet<String>, BTreeSet<String>), String> {
    let (_, nx) = sk.methods("SoftKeywordTransformer", "next").into_iter().next().ok_or("SoftKeywordTransformer::next")?;
    let mut rhs: Option<syn::Expr> = None;
    sm::for_each_expr_in_block(&nx.block, |e| {
        if let syn::Expr::Assign(a) = e {
            if sm::tsc(&a.left) == "self.start_of_line" {
                rhs = Some((*a.right).clone());
            }
        }
    });
    let rhs = rhs.ok_or("no assignment to self.start_of_line in next()")?;
    let methods = |_: &crate::eval::V, _: &str, _: &[crate::eval::V]| -> Option<crate::eval::V> { None };
    let mut sets = BTreeSet::new();
    let mut keeps = BTreeSet::new();
    let run = |next: crate::eval::V| -> Result<crate::eval::V, String> {
        let mut m = crate::eval::Machine::new(&methods);
        if full_lexer {
            m.features.push("full-lexer".into());
        }
        m.set("next", next);
        m.set("self.start_of_line", crate::eval::V::Enum("PREVIOUS".into()));
        m.eval(&rhs)
    };
    for (v, cfg, _) in tables::tok_variants(token) {
        if cfg.as_deref() == Some("full-lexer") && !full_lexer {
            continue;
        }
        let tokv = crate::eval::V::Tuple(vec![crate::eval::V::Enum(format!("Tok::{}", v)), crate::eval::V::Unit]);
        match run(crate::eval::V::Opt(Some(Box::new(tokv))))? {
            crate::eval::V::Bool(true) => {
                sets.insert(v);
            }
            crate::eval::V::Bool(false) => {}
            crate::eval::V::Enum(e) if e == "PREVIOUS" => {
                keeps.insert(v);
            }
            other => return Err(format!("token {} -> {:?}", v, other)),
        }
    }
    // end of stream and lexical errors never start a line
    for (what, v) in [("None", crate::eval::V::Opt(None)), ("Some(Err(_))", crate::eval::V::Opt(Some(Box::new(crate::eval::V::Enum("Err(e)".into())))))] {
        match run(v)? {
            crate::eval::V::Bool(false) => {}
            other => return Err(format!("{} -> {:?} (false expected)", what, other)),
        }
    }
    Ok((sets, keeps))
}

/// C01.S3: the soft-keyword decision, interpreted.
///
/// `SoftKeywordTransformer::next` is interpreted (syntax tree, nothing run) with a scripted token source: the first
/// token is `match` / `case` / `type` at the start of a logical line, followed by every sequence of up to `depth`
/// token kinds from a small alphabet; the decision (keyword kept / demoted to a name) is compared with the reference
/// statement of the heuristic:
///   match/case: keyword iff some `:` at bracket depth 0 is neither the first token after the keyword nor the colon
///               of a `lambda` seen at depth 0 (lambdas are paired with colons by count), scanning up to the Newline;
///   type:       keyword iff the next token is a name (or soft keyword) and, scanning on, an `=` occurs at depth 0 of
///               `[`..`]` before a Newline or any other token at depth 0.
/// This is independent of how the look-ahead is written (loops, helper functions, flags or counters).
pub fn soft_keyword_decisions(cx: &mut Ctx, rule: &str, depth: usize) {
    use crate::eval::{Machine, V};
    cx.rule(rule, "soft-keyword decision interpreted from SoftKeywordTransformer::next over every token-kind sequence up to the bound (alphabet: name, `:`, `lambda`, `(`, `)`, `[`, `]`, `=`, newline; plus fixed longer lines with braces, nested lambdas and commas): `match`/`case` stay keywords exactly when a `:` at bracket depth 0 remains after pairing each depth-0 `lambda` with one colon and it is not the first token; `type` stays a keyword exactly when a name follows and an `=` is reached at depth 0 of square brackets before the line ends or another depth-0 token intervenes; not at the start of a line they are always names");
    let sk = match sm::load(&cx.repo, "parser/src/soft_keywords.rs") {
        Ok(t) => t,
        Err(e) => return cx.anchor_missing(rule, &e),
    };
    let Some((_, nx)) = sk.methods("SoftKeywordTransformer", "next").into_iter().next() else {
        return cx.anchor_missing(rule, "SoftKeywordTransformer::next");
    };
    let alphabet = ["Name", "Colon", "Lambda", "Lpar", "Rpar", "Lsqb", "Rsqb", "Equal", "Newline"];
    let tokv = |k: &str| V::Tuple(vec![V::Enum(format!("Tok::{}", k)), V::Unit]);
    // reference semantics
    let ref_match = |seq: &[&str]| -> bool {
        let (mut nesting, mut first, mut seen_colon, mut open) = (0i32, true, false, 0u32);
        for t in seq {
            match *t {
                "Newline" => break,
                "Lambda" if nesting == 0 => open += 1,
                "Colon" if nesting == 0 => {
                    if open > 0 {
                        open -= 1;
                    } else if !first {
                        seen_colon = true;
                    }
                }
                "Lpar" | "Lsqb" | "Lbrace" => nesting += 1,
                "Rpar" | "Rsqb" | "Rbrace" => nesting -= 1,
                _ => {}
            }
            first = false;
        }
        seen_colon
    };
    let ref_type = |seq: &[&str]| -> bool {
        if !matches!(seq.first(), Some(&"Name") | Some(&"Type") | Some(&"Match") | Some(&"Case")) {
            return false;
        }
        // the look-ahead cursor has passed the name; the scan continues with the token after it
        let mut nesting = 0i32;
        for t in &seq[1..] {
            match *t {
                "Newline" => return false,
                "Equal" if nesting == 0 => return true,
                "Lsqb" => nesting += 1,
                "Rsqb" => nesting -= 1,
                _ if nesting > 0 => {}
                _ => return false,
            }
        }
        false
    };
    let run = |kw: &str, seq: &[&str], start_of_line: bool| -> Result<bool, String> {
        let cursor = std::cell::Cell::new(0usize);
        let seq_v: Vec<V> = seq.iter().map(|k| tokv(k)).collect();
        let kwv = tokv(kw);
        let methods = |recv: &V, name: &str, _a: &[V]| -> Option<V> {
            match (recv, name) {
                (V::Enum(r), "next") if r == "self.underlying" => Some(V::Opt(Some(Box::new(kwv.clone())))),
                (V::Enum(r), "peek") if r == "self.underlying" => {
                    let i = cursor.get();
                    cursor.set(i + 1);
                    Some(V::Opt(seq_v.get(i).cloned().map(Box::new)))
                }
                (V::Unit, n) if n.ends_with("soft_to_name") => Some(V::Enum("Tok::Name".into())),
                _ => None,
            }
        };
        let mut m = Machine::new(&methods);
        m.set("self.underlying", V::Enum("self.underlying".into()));
        m.set("self.start_of_line", V::Bool(start_of_line));
        match m.eval_fn_body(&nx.block)? {
            V::Opt(Some(b)) => match *b {
                V::Tuple(t) => match t.first() {
                    Some(V::Enum(e)) => Ok(e == &format!("Tok::{}", kw)),
                    other => Err(format!("result token {:?}", other)),
                },
                other => Err(format!("result {:?}", other)),
            },
            other => Err(format!("result {:?}", other)),
        }
    };
    let mut n = 0usize;
    let mut bad: Vec<String> = vec![];
    let mut check = |kw: &str, seq: &[&str], sol: bool, want: bool, bad: &mut Vec<String>| {
        n += 1;
        match run(kw, seq, sol) {
            Ok(g) if g == want => {}
            Ok(g) => {
                if bad.len() < 5 {
                    bad.push(format!("`{}` followed by {:?} (start of line: {}): {} (expected {})", kw.to_lowercase(), seq, sol, if g { "keyword" } else { "name" }, if want { "keyword" } else { "name" }));
                }
            }
            Err(e) => {
                if bad.len() < 5 {
                    bad.push(format!("`{}` followed by {:?}: not interpretable: {}", kw.to_lowercase(), seq, e));
                }
            }
        }
    };
    // all sequences up to the bound
    let mut seqs: Vec<Vec<&str>> = vec![vec![]];
    let mut frontier: Vec<Vec<&str>> = vec![vec![]];
    for _ in 0..depth {
        let mut next = vec![];
        for s0 in &frontier {
            for a in alphabet {
                let mut s1 = s0.clone();
                s1.push(a);
                next.push(s1);
            }
        }
        seqs.extend(next.iter().cloned());
        frontier = next;
    }
    // fixed longer lines
    let fixed: Vec<Vec<&str>> = vec![
        vec!["Comma", "Lambda", "Name", "Equal", "Lambda", "Colon", "Int", "Colon", "Name", "Newline"],
        vec!["Name", "Comma", "Lambda", "Name", "Equal", "Lambda", "Colon", "Int", "Colon", "Name", "Colon", "Newline"],
        vec!["Lbrace", "Name", "Colon", "Name", "Rbrace", "Colon", "Newline"],
        vec!["Lbrace", "Lambda", "Colon", "Name", "Rbrace", "Colon", "Newline"],
        vec!["Lpar", "Lsqb", "Colon", "Rsqb", "Rpar", "Newline"],
        vec!["Name", "Lsqb", "Name", "Comma", "Name", "Rsqb", "Equal", "Name", "Newline"],
        vec!["Name", "Lsqb", "Name", "Colon", "Name", "Equal", "Name", "Rsqb", "Newline", "Equal"],
        vec!["Name", "Dot", "Name", "Equal", "Name", "Newline"],
    ];
    seqs.extend(fixed);
    for sq in &seqs {
        check("Match", sq, true, ref_match(sq), &mut bad);
        check("Type", sq, true, ref_type(sq), &mut bad);
    }
    for sq in seqs.iter().take(100) {
        check("Case", sq, true, ref_match(sq), &mut bad);
        check("Match", sq, false, false, &mut bad);
        check("Type", sq, false, false, &mut bad);
    }
    cx.floor(rule, 1);
    if bad.is_empty() {
        for _ in 0..n {
            cx.ok_trivial(rule);
        }
        cx.ok(rule, &format!("{} (soft keyword, following tokens, line position) cases interpreted: every decision equals the reference heuristic", n));
    } else {
        cx.fail(rule, &format!("{}/decision", rule), &sk.loc(nx), &format!("the soft-keyword look-ahead decides differently from its reference statement: {}", bad.join("; ")));
    }
}

/// C01.S2: look-ahead loops with a bracket-depth counter.
fn soft_keyword_lookahead(cx: &mut Ctx, sk: &Src, nx: &syn::ImplItemFn, rule: &str) {
    let rule = if rule == "C01.S1b" { "C01.S2" } else { rule };
    cx.rule(rule, "in every token look-ahead loop of the soft-keyword pass that keeps a bracket-depth counter, each arm that sets a boolean flag (seen_colon, seen_lambda, is_type_alias) is guarded by depth == 0, the opening and closing bracket arms adjust the counter by +1/-1 for matching bracket kinds, and the loop stops at Newline");
    cx.floor(rule, 5);
    let mut loops = 0;
    sm::for_each_expr_in_block(&nx.block, |e| {
        let Some((scrut, _pat, body)) = sm::loop_form(e) else { return };
        if !scrut.contains("self.underlying.peek()") {
            return;
        }
        let w = e;
        // the loop body's match on the peeked token
        let mut mm: Option<&syn::ExprMatch> = None;
        for st in &body {
            if let syn::Stmt::Expr(syn::Expr::Match(m), _) = st {
                mm = Some(m);
            }
        }
        let Some(m) = mm else { return };
        loops += 1;
        let lname = format!("loop{}", loops);
        // the bracket-depth counter is the local the arm guards compare with 0
        let mut counter: Option<String> = None;
        for arm in &m.arms {
            if let Some((_, g)) = &arm.guard {
                let gt = sm::tsc(g);
                if let Some(c) = gt.strip_suffix("==0") {
                    counter = Some(c.to_string());
                }
            }
        }
        let mut inc: BTreeSet<String> = BTreeSet::new();
        let mut dec: BTreeSet<String> = BTreeSet::new();
        let mut newline_break = false;
        for arm in &m.arms {
            let pat = sm::tsc(&arm.pat);
            let body = sm::tsc(sm::unblock(&arm.body));
            if pat == "Tok::Newline" && body == "break" {
                newline_break = true;
            }
            if let Some(c) = &counter {
                if body == format!("{}+=1", c) {
                    inc.extend(pat.split('|').map(|p| p.trim_start_matches("Tok::").to_string()));
                } else if body == format!("{}-=1", c) {
                    dec.extend(pat.split('|').map(|p| p.trim_start_matches("Tok::").to_string()));
                }
            }
        }
        let Some(counter) = counter else { return };
        if newline_break {
            cx.ok(rule, &format!("{}: stops at Newline", lname));
        } else {
            cx.fail(rule, &format!("{}/{}/newline", rule, lname), &sk.loc(w), "look-ahead loop does not stop at Tok::Newline");
        }
        let inc_kinds: BTreeSet<String> = inc.iter().map(|t| t.trim_start_matches('L').to_string()).collect();
        let dec_kinds: BTreeSet<String> = dec.iter().map(|t| t.trim_start_matches('R').to_string()).collect();
        if !inc.is_empty() && inc_kinds == dec_kinds && inc.iter().all(|t| t.starts_with('L')) && dec.iter().all(|t| t.starts_with('R')) {
            cx.ok(rule, &format!("{}: depth +1 on {:?}, -1 on {:?}", lname, inc, dec));
        } else {
            cx.fail(rule, &format!("{}/{}/brackets", rule, lname), &sk.loc(w), &format!("depth counter incremented on {:?} but decremented on {:?}", inc, dec));
        }
        for arm in &m.arms {
            // writes (assignment or compound assignment) to a local other than the depth counter inside the arm
            let mut flags = vec![];
            sm::for_each_expr(&arm.body, |x| {
                let target = match x {
                    syn::Expr::Assign(a) => sm::as_ident(&a.left),
                    syn::Expr::Binary(b) if matches!(b.op, syn::BinOp::AddAssign(_) | syn::BinOp::SubAssign(_)) => sm::as_ident(&b.left),
                    _ => None,
                };
                if let Some(id) = target {
                    if id != counter && !flags.contains(&id) {
                        flags.push(id);
                    }
                }
            });
            if flags.is_empty() {
                continue;
            }
            let guard = arm.guard.as_ref().map(|g| sm::tsc(&g.1)).unwrap_or_default();
            let pat = sm::tsc(&arm.pat);
            if guard == format!("{}==0", counter) {
                cx.ok(rule, &format!("{}: arm {} sets {:?} only at depth 0", lname, pat, flags));
            } else {
                cx.fail(rule, &format!("{}/{}/{}", rule, lname, pat), &sk.loc(&arm.pat), &format!("arm `{}` sets {:?} with guard `{}`; the sibling arms treat these flags as top-level facts (guard `{} == 0`)", pat, flags, guard, counter));
            }
        }
        // match/case loop: lambda colons are paired by count (lambdas nest through parameter defaults)
        let lambda_arm = m.arms.iter().find(|a| sm::tsc(&a.pat) == "Tok::Lambda");
        let colon_arm = m.arms.iter().find(|a| sm::tsc(&a.pat) == "Tok::Colon");
        if let (Some(la), Some(ca)) = (lambda_arm, colon_arm) {
            let lb = sm::tsc(sm::unblock(&la.body));
            let cb = sm::tsc(&ca.body);
            let var = lb.strip_suffix("+=1").map(|v| v.to_string());
            let ok = var.as_ref().map_or(false, |v| cb.contains(&format!("if0<{}{{{}-=1;}}", v, v)) || cb.contains(&format!("if{}!=0{{{}-=1;}}", v, v)));
            if ok {
                cx.ok(rule, &format!("{}: every `lambda` is counted and each top-level `:` first closes an open lambda", lname));
            } else {
                cx.fail(rule, &format!("{}/{}/lambda-pairing", rule, lname), &sk.loc(&la.pat), &format!("the `lambda` arm is `{}` and the `:` arm `{}`: lambda colons are not paired by count, so with a lambda nested in a parameter default (`match, lambda a=lambda: 1: a`) a lambda's colon is taken for the statement's", lb, cb));
            }
        }
    });
    if loops < 2 {
        cx.fail(rule, &format!("{}/loops", rule), &sk.loc(nx), &format!("{} look-ahead loops found (2 expected: match/case and type)", loops));
    }
}

fn import_dots(cx: &mut Ctx, g: &Grammar) {
    let rule = "C01.I1";
    cx.rule(rule, "ImportDots values equal the number of dots spelled by the terminal (\".\" -> 1, \"...\" -> 3)");
    cx.floor(rule, 2);
    let Some(d) = g.def("ImportDots") else { return cx.anchor_missing(rule, "ImportDots") };
    for a in &d.alts {
        let terms: Vec<&String> = a.syms.iter().filter_map(|s| if let SymKind::Term(t) = &s.kind { Some(t) } else { None }).collect();
        let code: String = a.action.as_ref().map(|x| x.code.chars().filter(|c| !c.is_whitespace()).collect()).unwrap_or_default();
        let n: Option<usize> = code.strip_prefix("ast::Int::new(").and_then(|r| r.strip_suffix(')')).and_then(|r| r.parse().ok());
        let loc = format!("parser/src/python.lalrpop:{}", a.line);
        if terms.len() == 1 && terms[0].chars().all(|c| c == '.') && n == Some(terms[0].len()) {
            cx.ok(rule, &format!("{:?} -> {}", terms[0], terms[0].len()));
        } else {
            cx.fail(rule, &format!("{}/{}", rule, terms.get(0).map(|s| s.as_str()).unwrap_or("?")), &loc, &format!("terminal {:?} yields `{}`", terms, code));
        }
    }
}

/// Representative characters of the identifier partition outside ASCII, with their Unicode 15 XID properties
/// (DerivedCoreProperties.txt): (char, XID_Start, XID_Continue).
const XID_REPS: &[(char, bool, bool)] = &[
    ('é', true, true),          // Ll
    ('न', true, true),          // Lo (Devanagari NA)
    ('ℂ', true, true),          // letterlike, Other_ID_Start neighbourhood
    ('\u{0301}', false, true), // Mn combining acute
    ('\u{094D}', false, true), // Mn Devanagari virama
    ('٣', false, true),         // Nd Arabic-Indic digit three
    ('·', false, true),         // U+00B7 Other_ID_Continue
    ('‿', false, true),         // Pc undertie
    ('€', false, false),        // Sc
    ('→', false, false),        // Sm
    ('\u{00A0}', false, false), // Zs
    ('😀', false, false),       // So
];

fn identifier_predicates(cx: &mut Ctx) {
    let rule = "C01.I2";
    cx.rule(rule, "identifier character classes: is_identifier_start / is_identifier_continuation, interpreted from their syntax trees over all 128 ASCII characters and representatives of every non-ASCII class (XID_Start; XID_Continue-only marks, digits, connectors, U+00B7; neither), equal Python's identifier grammar — start = [A-Za-z_] | XID_Start, continue = [A-Za-z0-9_] | XID_Continue — with is_xid_start / is_xid_continue resolved to unic_ucd_ident; end of input is not a continuation");
    cx.floor(rule, 2 * (128 + XID_REPS.len()) + 3);
    let lx = match sm::load(&cx.repo, "parser/src/lexer.rs") {
        Ok(t) => t,
        Err(e) => return cx.anchor_missing(rule, &e),
    };
    let mut imported: BTreeSet<String> = BTreeSet::new();
    for it in &lx.file.items {
        if let syn::Item::Use(u) = it {
            let t = sm::tsc(&u.tree);
            if t.starts_with("unic_ucd_ident::") {
                for n in ["is_xid_start", "is_xid_continue"] {
                    if t.contains(n) {
                        imported.insert(n.to_string());
                    }
                }
            }
        }
    }
    let whole = sm::tsc(&lx.file);
    for n in ["is_xid_start", "is_xid_continue"] {
        let used = whole.contains(&format!("{}(", n));
        if !used || imported.contains(n) {
            cx.ok(rule, &format!("{}: {}", n, if used { "the unic_ucd_ident function" } else { "not used" }));
        } else {
            cx.fail(rule, &format!("{}/imports/{}", rule, n), &lx.rel, &format!("{} is used but not imported from unic_ucd_ident", n));
        }
    }
    let start_table: std::cell::RefCell<BTreeMap<u32, bool>> = std::cell::RefCell::new(BTreeMap::new());
    let methods = |_recv: &crate::eval::V, name: &str, args: &[crate::eval::V]| -> Option<crate::eval::V> {
        let c = match args.first() {
            Some(crate::eval::V::Char(c)) => char::from_u32(*c)?,
            _ => return None,
        };
        let row = XID_REPS.iter().find(|r| r.0 == c);
        let ascii_start = c.is_ascii_alphabetic();
        let ascii_cont = c.is_ascii_alphanumeric() || c == '_'; // '_' is Pc: XID_Continue, not XID_Start
        match name.rsplit("::").next()? {
            "is_xid_start" => Some(crate::eval::V::Bool(if c.is_ascii() { ascii_start } else { row?.1 })),
            "is_xid_continue" => Some(crate::eval::V::Bool(if c.is_ascii() { ascii_cont } else { row?.2 })),
            // sibling predicate, interpreted in the first pass
            "is_identifier_start" => start_table.borrow().get(&(c as u32)).map(|b| crate::eval::V::Bool(*b)),
            _ => None,
        }
    };
    for (fname, cont) in [("is_identifier_start", false), ("is_identifier_continuation", true)] {
        let Some(f) = lx.method("Lexer", fname) else {
            cx.anchor_missing(rule, fname);
            continue;
        };
        let takes_c = f.sig.inputs.len() == 2;
        let mut bad: Vec<String> = vec![];
        let mut n = 0;
        let mut chars: Vec<(char, bool)> = (0u8..128).map(|b| {
            let c = b as char;
            (c, if cont { c.is_ascii_alphanumeric() || c == '_' } else { c.is_ascii_alphabetic() || c == '_' })
        }).collect();
        chars.extend(XID_REPS.iter().map(|r| (r.0, if cont { r.2 } else { r.1 })));
        for (c, want) in &chars {
            let mut m = crate::eval::Machine::new(&methods);
            if takes_c {
                if let Some(syn::FnArg::Typed(pt)) = f.sig.inputs.iter().nth(1) {
                    m.set(&sm::tsc(&pt.pat), crate::eval::V::Char(*c as u32));
                }
            }
            m.set("self.window[0]", crate::eval::V::Opt(Some(Box::new(crate::eval::V::Char(*c as u32)))));
            n += 1;
            let r = m.eval_block(&f.block);
            if let (false, Ok(crate::eval::V::Bool(b))) = (cont, &r) {
                start_table.borrow_mut().insert(*c as u32, *b);
            }
            match r {
                Ok(crate::eval::V::Bool(b)) if b == *want => {}
                Ok(v) => bad.push(format!("{:?} -> {:?} (expected {})", c, v, want)),
                Err(e) => bad.push(format!("{:?}: not interpretable ({})", c, e)),
            }
        }
        if !takes_c {
            let mut m = crate::eval::Machine::new(&methods);
            m.set("self.window[0]", crate::eval::V::Opt(None));
            n += 1;
            match m.eval_block(&f.block) {
                Ok(crate::eval::V::Bool(false)) => {}
                other => bad.push(format!("end of input -> {:?} (expected false)", other)),
            }
        }
        if bad.is_empty() {
            for _ in 0..n {
                cx.ok_trivial(rule);
            }
            cx.ok(rule, &format!("{}: {} characters agree with the identifier grammar", fname, n));
        } else {
            cx.fail(rule, &format!("{}/{}", rule, fname), &lx.loc(f), &format!("{} disagrees with Python's identifier grammar on {} of {} characters, e.g. {}", fname, bad.len(), n, bad.iter().take(4).cloned().collect::<Vec<_>>().join("; ")));
        }
    }
}

fn parse_args_order(cx: &mut Ctx) {
    let rule = "C01.X2";
    cx.rule(rule, "parse_args is an order-preserving partition: it iterates its input once in order and appends to `args` and `keywords` only with push");
    cx.floor(rule, 2);
    let f = match sm::load(&cx.repo, "parser/src/function.rs") {
        Ok(t) => t,
        Err(e) => return cx.anchor_missing(rule, &e),
    };
    let Some(pa) = f.free_fns("parse_args").into_iter().next() else { return cx.anchor_missing(rule, "parse_args") };
    let mut for_loops = vec![];
    sm::for_each_expr_in_block(&pa.block, |e| {
        if let syn::Expr::ForLoop(fl) = e {
            for_loops.push(sm::tsc(&fl.expr));
        }
    });
    if for_loops == vec!["func_args".to_string()] {
        cx.ok(rule, "single `for .. in func_args`");
    } else {
        cx.fail(rule, &format!("{}/iteration", rule), &f.loc(pa), &format!("iteration is over {:?}, expected exactly `func_args`", for_loops));
    }
    let mut writers: BTreeMap<String, Vec<String>> = BTreeMap::new();
    sm::for_each_expr_in_block(&pa.block, |e| {
        if let syn::Expr::MethodCall(mc) = e {
            let r = sm::tsc(&mc.receiver);
            if r == "args" || r == "keywords" {
                let m = mc.method.to_string();
                if !["is_empty", "len", "iter"].contains(&m.as_str()) {
                    writers.entry(r).or_default().push(m);
                }
            }
        }
    });
    for v in ["args", "keywords"] {
        match writers.get(v) {
            Some(ms) if ms.iter().all(|m| m == "push") && ms.len() == 1 => cx.ok(rule, &format!("`{}` is written by one push", v)),
            other => cx.fail(rule, &format!("{}/{}", rule, v), &f.loc(pa), &format!("`{}` is written by {:?} (exactly one push expected)", v, other)),
        }
    }
    let t = sm::tsx(&pa.block);
    if t.ends_with("Ok(ArgumentList{args,keywords})}") {
        cx.ok(rule, "returns ArgumentList { args, keywords }");
    } else {
        cx.fail(rule, &format!("{}/result", rule), &f.loc(pa), "result is not ArgumentList { args, keywords }");
    }
}

#[allow(dead_code)]
fn _unused(_: &Src, _: &grammar::Alt) {}
