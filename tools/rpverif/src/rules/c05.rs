//! C05 — the token stream tiles the source: emit discipline and table agreement.

use crate::report::Ctx;
use crate::rules::lexer_rules as lr;
use crate::tables;

pub fn run(cx: &mut Ctx) {
    lr::operator_trie(cx, "C05.O1");
    lr::byte_accounting(cx, "C05.N1");
    lr::lex_fn_ranges(cx, "C05.L1");
    lr::indent_pairing(cx, "C05.I1");
    lr::newline_guards(cx, "C05.I2");
    lr::skip_set(cx, "C05.S1");
    lr::pending_fifo(cx, "C05.Q1");
    lr::indentation_counters(cx, "C05.W1");
    match tables::load_grammar(&cx.repo) {
        Ok(g) => crate::rules::c01::token_tables(cx, &g, "C05"),
        Err(e) => cx.anchor_missing("C05.T1", &e),
    }
    crate::rules::c10::full_lexer_confinement(cx, "C05.F1");
}
