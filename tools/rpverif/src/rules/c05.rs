//! C05 — the token stream tiles the source: emit discipline and table agreement.

use crate::report::Ctx;
use crate::srcmodel as sm;
use crate::rules::lexer_rules as lr;
use crate::tables;

pub fn run(cx: &mut Ctx) {
    lr::operator_trie(cx, "C05.O1");
    lr::byte_accounting(cx, "C05.N1");
    lr::lex_fn_ranges(cx, "C05.L1");
    lr::indent_pairing(cx, "C05.I1");
    lr::newline_guards(cx, "C05.I2");
    lr::skip_set(cx, "C05.S1");
    lr::pending_fifo(cx, "C05.Q1");
    lr::indentation_counters(cx, "C05.W1");
    match tables::load_grammar(&cx.repo) {
        Ok(g) => crate::rules::c01::token_tables(cx, &g, "C05"),
        Err(e) => cx.anchor_missing("C05.T1", &e),
    }
    crate::rules::c10::full_lexer_confinement(cx, "C05.F1");
    closing_quote_consumption(cx);
}

/// C05.S2: seeing the closing quote of a plain (single-quoted) literal consumes nothing further.
fn closing_quote_consumption(cx: &mut Ctx) {
    let rule = "C05.S2";
    cx.rule(rule, "a string token covers its prefix and both quotes and nothing more: in Lexer::lex_string every consuming call (next_char, or a lexer method that calls it) that is evaluated in response to a quote character (`c == quote_char` on its path, as a branch condition or as the left operand of a short-circuit) is evaluated only when `triple_quoted` holds — so after the closing quote of a single-quoted literal no further character can be pulled into the token; at least one such guarded consumption exists (the two extra quotes of a triple-quoted closing)");
    cx.floor(rule, 1);
    let Some(lx) = lr::load_lexer(cx, rule) else { return };
    let Some(f) = lr::lexer_method(&lx, "lex_string") else { return cx.anchor_missing(rule, "lex_string") };
    // lexer methods that consume (one level)
    let mut consuming: std::collections::BTreeSet<String> = ["next_char".to_string()].into_iter().collect();
    for i in lx.impls() {
        for it in &i.items {
            if let syn::ImplItem::Fn(m) = it {
                if sm::tsc(&m.block).contains("self.next_char()") {
                    consuming.insert(m.sig.ident.to_string());
                }
            }
        }
    }
    let norm = |c: &str| -> String {
        let mut c = c.to_string();
        while c.starts_with("!!") {
            c = c[2..].to_string();
        }
        c.trim_start_matches('(').trim_end_matches(')').to_string()
    };
    let mut guarded = 0;
    let mut bad: Vec<(String, String, Vec<String>)> = vec![];
    sm::for_each_expr_with_conds(&f.block, &mut |e, conds| {
        if let syn::Expr::MethodCall(mc) = e {
            if sm::tsc(&mc.receiver) == "self" && consuming.contains(&mc.method.to_string()) {
                let cs: Vec<String> = conds.iter().map(|c| norm(c)).collect();
                let on_quote = cs.iter().any(|c| c == "c==quote_char" || c == "quote_char==c");
                if on_quote {
                    if cs.iter().any(|c| c == "triple_quoted") {
                        guarded += 1;
                    } else {
                        bad.push((sm::tsc(e), lx.loc(e), cs));
                    }
                }
            }
        }
    });
    for (what, loc, cs) in &bad {
        cx.fail(rule, &format!("{}/unguarded-consumption", rule), loc, &format!("lex_string evaluates `{}` on a quote character without `triple_quoted` on its path (conditions: {:?}): the characters after the closing quote of a single-quoted literal can be pulled into the token", what, cs));
    }
    if guarded >= 1 {
        if bad.is_empty() {
            cx.ok(rule, &format!("{} consuming call(s) after a quote character, all under `triple_quoted`", guarded));
        }
    } else if bad.is_empty() {
        cx.fail(rule, &format!("{}/no-triple-closing", rule), &lx.loc(f), "lex_string has no consumption of the two further quotes of a triple-quoted closing under `c == quote_char` and `triple_quoted` (fail closed)");
    }
}
