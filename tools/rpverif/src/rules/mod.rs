pub mod c12;
