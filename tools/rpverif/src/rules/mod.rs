pub mod c01;
pub mod c12;
pub mod grammar_rules;
