pub mod c01;
pub mod c02;
pub mod c05;
pub mod c10;
pub mod c12;
pub mod grammar_rules;
pub mod lexer_rules;
pub mod matrix;
