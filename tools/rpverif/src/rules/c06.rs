//! C06 — the literal decoding tables equal the reference tables; conversions go through trusted primitives.

use crate::report::Ctx;
use crate::rules::lexer_rules as lr;
use crate::srcmodel::{self as sm, Src};
use crate::tables;
use std::collections::{BTreeMap, BTreeSet};

/// Characters matched by a char pattern: literal, range, or-pattern, `x @ pat`. None for bindings/wildcards.
pub fn pat_chars(p: &syn::Pat) -> Option<BTreeSet<char>> {
    match p {
        syn::Pat::Lit(l) => {
            if let syn::Lit::Char(c) = &l.lit {
                Some([c.value()].into_iter().collect())
            } else {
                None
            }
        }
        syn::Pat::Range(r) => {
            let lo = r.start.as_ref().and_then(|e| tables::lit_char(e))?;
            let hi = r.end.as_ref().and_then(|e| tables::lit_char(e))?;
            let inclusive = matches!(r.limits, syn::RangeLimits::Closed(_));
            let mut s = BTreeSet::new();
            let mut c = lo as u32;
            while c < hi as u32 || (inclusive && c == hi as u32) {
                if let Some(ch) = char::from_u32(c) {
                    s.insert(ch);
                }
                c += 1;
            }
            Some(s)
        }
        syn::Pat::Or(o) => {
            let mut s = BTreeSet::new();
            for c in &o.cases {
                s.extend(pat_chars(c)?);
            }
            Some(s)
        }
        syn::Pat::Paren(p) => pat_chars(&p.pat),
        syn::Pat::Ident(i) => i.subpat.as_ref().and_then(|(_, p)| pat_chars(p)),
        syn::Pat::TupleStruct(ts) if ts.path.is_ident("Some") && ts.elems.len() == 1 => pat_chars(&ts.elems[0]),
        _ => None,
    }
}

pub fn run(cx: &mut Ctx) {
    let refd = match tables::refdata(&cx.verif, "py311_escapes.json") {
        Ok(v) => v,
        Err(e) => return cx.anchor_missing("C06", &e),
    };
    cx.refdata.insert("py311_escapes.json".into());
    escape_table(cx, &refd, "C06.E1");
    string_kinds(cx, &refd);
    radix_tables(cx, &refd);
    radix_forwarding(cx);
    named_escape(cx);
    value_conversions(cx);
    lex_string_order(cx);
    bytes_truncation(cx);
    conversion_flags(cx, &refd);
    crate::rules::c16::writer_reader(cx, "C06.W1");
    {
        let rule = "C06.Z1";
        cx.rule(rule, "decimal literals with leading zeros: only a decimal INTEGER with a non-zero value is rejected (`007`); `0`, `00`, `0_0` are the integer 0 and `007j`, `00.5`, `01e1` keep their values — read from the exits of lex_normal_number (shared with C04.N1)");
        cx.floor(rule, 1);
        crate::rules::c04::leading_zero_rule(cx, rule);
    }
    escape_dispatch(cx);
    decode_per_literal(cx);
}

/// J1: implicit concatenation joins decoded values, not source texts.
fn decode_per_literal(cx: &mut Ctx) {
    let rule = "C06.J1";
    cx.rule(rule, "each literal of an implicit concatenation is decoded on its own: in parse_strings every call of parse_string sits in a `for` loop over the parameter `values` itself and takes source text, kind, triple-quote flag, start and end from that loop's pattern — an escape at the end of one literal (`'\\1' '2'`) cannot continue into the next, and each part is decoded under its own prefix");
    cx.floor(rule, 2);
    let Ok(src) = sm::load(&cx.repo, "parser/src/string.rs") else { return cx.anchor_missing(rule, "parser/src/string.rs") };
    let Some(f) = src.free_fns("parse_strings").into_iter().next() else { return cx.anchor_missing(rule, "parse_strings") };
    let param = f.sig.inputs.first().and_then(|a| if let syn::FnArg::Typed(pt) = a { Some(sm::tsc(&pt.pat)) } else { None }).unwrap_or_default();
    // all calls
    let mut total = 0;
    sm::for_each_expr_in_block(&f.block, |e| {
        if let syn::Expr::Call(c) = e {
            if sm::tsc(&c.func) == "parse_string" {
                total += 1;
            }
        }
    });
    let mut good = 0;
    let mut bad: Vec<String> = vec![];
    sm::for_each_expr_in_block(&f.block, |e| {
        if let syn::Expr::ForLoop(fl) = e {
            let mut ids = vec![];
            sm::pat_idents(&fl.pat, &mut ids);
            let iter = sm::tsc(&fl.expr);
            // calls directly governed by this loop: in its header expression of an inner loop or in its body
            let mut calls: Vec<Vec<String>> = vec![];
            sm::for_each_expr_in_block(&fl.body, |x| {
                if let syn::Expr::Call(c) = x {
                    if sm::tsc(&c.func) == "parse_string" {
                        calls.push(c.args.iter().map(|a| sm::tsc(a).trim_start_matches('&').to_string()).collect());
                    }
                }
            });
            for args in calls {
                // only count a call under its nearest loop over the literals (the inner `for value in parse_string(..)?`
                // has the call in its header, which belongs to the enclosing loop's body)
                if !args.iter().all(|a| ids.contains(a)) {
                    continue;
                }
                if iter == param && args.len() == 5 {
                    good += 1;
                } else {
                    bad.push(format!("parse_string({}) under `for .. in {}`", args.join(","), iter));
                }
            }
        }
    });
    // the name iterated must be the parameter: no `let values = <derived collection>` anywhere in the function
    let mut rebound = false;
    sm::for_each_stmt_in_block(&f.block, &mut |st: &syn::Stmt| {
        if let syn::Stmt::Local(l) = st {
            let mut ids = vec![];
            sm::pat_idents(&l.pat, &mut ids);
            if ids.contains(&param) {
                rebound = true;
            }
        }
    });
    if rebound {
        bad.push(format!("`{}` is re-bound to a derived collection before it is decoded", param));
    }
    if total >= 2 && good == total && bad.is_empty() {
        cx.ok(rule, &format!("{} parse_string calls, each on one element of `{}`", total, param));
        cx.ok_trivial(rule);
    } else {
        cx.fail(rule, &format!("{}/parse_strings", rule), &src.loc(f), &format!("{} of {} parse_string calls decode one element of `{}` with that element's own text, kind and offsets{}: literals may be merged before they are decoded", good, total, param, if bad.is_empty() { String::new() } else { format!(" ({})", bad.join("; ")) }));
    }
}

/// K1: escapes are decoded exactly in the non-raw kinds.
fn escape_dispatch(cx: &mut Ctx) {
    use crate::eval::{Machine, V};
    let rule = "C06.K1";
    cx.rule(rule, "backslash escapes are decoded exactly in the literals that are not raw: in parse_string, parse_bytes and parse_fstring the guard of the backslash arm, evaluated for each of the seven string kinds, is true iff the kind is not one of RawString / RawBytes / RawFString (the kind predicates themselves are C06.P1)");
    cx.floor(rule, 3);
    let Ok(src) = sm::load(&cx.repo, "parser/src/string.rs") else { return cx.anchor_missing(rule, "parser/src/string.rs") };
    let kinds = ["String", "FString", "Bytes", "RawString", "RawFString", "RawBytes", "Unicode"];
    let pred = |kind: &str, m: &str| -> Option<bool> {
        Some(match m {
            "is_raw" => matches!(kind, "RawString" | "RawFString" | "RawBytes"),
            "is_any_fstring" => matches!(kind, "FString" | "RawFString"),
            "is_any_bytes" => matches!(kind, "Bytes" | "RawBytes"),
            "is_unicode" => kind == "Unicode",
            _ => return None,
        })
    };
    for fname in ["parse_string", "parse_bytes", "parse_fstring"] {
        let Some(f) = src.method("StringParser", fname) else {
            cx.anchor_missing(rule, fname);
            continue;
        };
        // the arm for the backslash character in the match on the consumed character
        let mut arms: Vec<&syn::Arm> = vec![];
        sm::for_each_expr_in_block(&f.block, |e| {
            if let syn::Expr::Match(m) = e {
                for a in &m.arms {
                    if sm::tsc(&a.pat) == "'\\\\'" {
                        arms.push(a);
                    }
                }
            }
        });
        if arms.len() != 1 {
            cx.fail(rule, &format!("{}/{}/arm", rule, fname), &src.loc(f), &format!("{} has {} arms for the backslash character (1 expected)", fname, arms.len()));
            continue;
        }
        let arm = arms[0];
        let mut bad = vec![];
        for k in kinds {
            let decoded = match &arm.guard {
                None => Ok(true),
                Some((_, g)) => {
                    let methods = |recv: &V, m: &str, _a: &[V]| -> Option<V> {
                        match recv {
                            V::Enum(e) => e.strip_prefix("StringKind::").and_then(|kk| pred(kk, m)).map(V::Bool),
                            _ => None,
                        }
                    };
                    let mut mach = Machine::new(&methods);
                    mach.set("self.kind", V::Enum(format!("StringKind::{}", k)));
                    match mach.eval(g) {
                        Ok(V::Bool(b)) => Ok(b),
                        Ok(o) => Err(format!("guard evaluates to {:?}", o)),
                        Err(e) => Err(e),
                    }
                }
            };
            let raw = pred(k, "is_raw").unwrap();
            match decoded {
                Ok(d) if d == !raw => {}
                Ok(d) => bad.push(format!("{}: escapes {}", k, if d { "decoded although the literal is raw" } else { "left verbatim although the literal is not raw" })),
                Err(e) => bad.push(format!("{}: {}", k, e)),
            }
        }
        if bad.is_empty() {
            cx.ok(rule, &format!("{}: backslash arm taken exactly for the non-raw kinds (7 kinds evaluated)", fname));
        } else {
            cx.fail(rule, &format!("{}/{}", rule, fname), &src.loc(&arm.pat), &format!("{}: {}", fname, bad.join("; ")));
        }
    }
}

pub fn escape_table(cx: &mut Ctx, refd: &serde_json::Value, rule: &str) {
    cx.rule(rule, "the arms of parse_escaped_char evaluate to the reference escape table: \\\\ \\' \\\" \\a \\b \\f \\n \\r \\t \\v map to their code points; the octal arm covers exactly '0'..='7' and parse_octet reads at most 3 octal digits and converts the value losslessly; \\x, \\u, \\U read 2, 4, 8 hex digits; \\u \\U \\N are text-only (guarded by !is_any_bytes()); backslash-newline yields nothing; any other character keeps the backslash");
    cx.floor(rule, 18);
    let s = match sm::load(&cx.repo, "parser/src/string.rs") {
        Ok(s) => s,
        Err(e) => return cx.anchor_missing(rule, &e),
    };
    let Some(m) = s.method("StringParser", "parse_escaped_char") else { return cx.anchor_missing(rule, "parse_escaped_char") };
    // inner match c { ... }
    let mut inner: Option<&syn::ExprMatch> = None;
    sm::for_each_expr_in_block(&m.block, |e| {
        if let syn::Expr::Match(mm) = e {
            if sm::tsc(&mm.expr) == "c" && inner.is_none() {
                inner = Some(mm);
            }
        }
    });
    let Some(mm) = inner else { return cx.fail(rule, &format!("{}/shape", rule), &s.loc(m), "no `match c` in parse_escaped_char") };
    let simple: BTreeMap<char, u32> = refd["simple_escapes"].as_object().unwrap().iter().map(|(k, v)| (k.chars().next().unwrap(), v.as_u64().unwrap() as u32)).collect();
    let hex: BTreeMap<char, u64> = refd["hex_escapes"].as_object().unwrap().iter().map(|(k, v)| (k.chars().next().unwrap(), v.as_u64().unwrap())).collect();
    let text_only: BTreeSet<char> = refd["text_only"].as_array().unwrap().iter().map(|v| v.as_str().unwrap().chars().next().unwrap()).collect();
    let mut seen_simple = BTreeSet::new();
    let mut seen_hex = BTreeSet::new();
    let mut claimed: BTreeSet<char> = BTreeSet::new();
    for arm in &mm.arms {
        let body = sm::unblock(&arm.body);
        let bt = sm::tsc(body);
        let guard = arm.guard.as_ref().map(|g| sm::tsc(&g.1));
        match pat_chars(&arm.pat) {
            Some(chars) => {
                // arms are evaluated top-down: a character already claimed by an earlier arm is shadowed
                let fresh: BTreeSet<char> = chars.difference(&claimed).cloned().collect();
                if guard.is_none() {
                    claimed.extend(chars.iter());
                }
                if let Some(v) = tables::lit_char(body) {
                    for c in &fresh {
                        let key = format!("{}/simple/{}", rule, c.escape_default());
                        match simple.get(c) {
                            Some(w) if *w == v as u32 && guard.is_none() => {
                                seen_simple.insert(*c);
                                cx.ok(rule, &format!("\\{} -> U+{:04X}", c.escape_default(), v as u32));
                            }
                            Some(w) => cx.fail(rule, &key, &s.loc(&arm.pat), &format!("escape \\{} decodes to U+{:04X}, the reference value is U+{:04X}", c.escape_default(), v as u32, w)),
                            None => cx.fail(rule, &key, &s.loc(&arm.pat), &format!("\\{} is not a simple escape of the reference", c.escape_default())),
                        }
                    }
                } else if bt.starts_with("self.parse_octet(") {
                    let want: BTreeSet<char> = refd["octal"]["digits"].as_str().unwrap().chars().collect();
                    if fresh == want && guard.is_none() {
                        cx.ok(rule, "octal arm covers exactly '0'..='7'");
                    } else {
                        cx.fail(rule, &format!("{}/octal/arm", rule), &s.loc(&arm.pat), &format!("the octal arm covers {:?}", fresh));
                    }
                } else if bt.starts_with("self.parse_unicode_literal(") {
                    let n = bt.trim_start_matches("self.parse_unicode_literal(").split(')').next().and_then(|x| x.parse::<u64>().ok());
                    for c in &fresh {
                        let key = format!("{}/hex/{}", rule, c);
                        let guard_ok = if text_only.contains(c) { guard.as_deref() == Some("!self.kind.is_any_bytes()") } else { guard.is_none() };
                        match hex.get(c) {
                            Some(w) if Some(*w) == n && guard_ok => {
                                seen_hex.insert(*c);
                                cx.ok(rule, &format!("\\{} reads {} hex digits{}", c, w, if text_only.contains(c) { " (text only)" } else { "" }));
                            }
                            Some(w) => cx.fail(rule, &key, &s.loc(&arm.pat), &format!("\\{} reads {:?} hex digits under guard {:?}; the reference is {} digits{}", c, n, guard, w, if text_only.contains(c) { ", text literals only" } else { "" })),
                            None => cx.fail(rule, &key, &s.loc(&arm.pat), &format!("\\{} is not a hex escape of the reference", c)),
                        }
                    }
                } else if bt.starts_with("self.parse_unicode_name(") {
                    if fresh == ['N'].into_iter().collect() && guard.as_deref() == Some("!self.kind.is_any_bytes()") {
                        cx.ok(rule, "\\N{name} only in text literals");
                    } else {
                        cx.fail(rule, &format!("{}/named", rule), &s.loc(&arm.pat), "the \\N arm is not `'N' if !is_any_bytes()`");
                    }
                } else if fresh == ['\n'].into_iter().collect() {
                    if bt == "returnOk(\"\".to_string())" {
                        cx.ok(rule, "backslash-newline yields the empty string");
                    } else {
                        cx.fail(rule, &format!("{}/line-continuation", rule), &s.loc(&arm.pat), "backslash-newline does not yield the empty string");
                    }
                } else {
                    cx.fail(rule, &format!("{}/unknown-arm/{}", rule, sm::tsc(&arm.pat)), &s.loc(&arm.pat), &format!("unrecognised escape arm `{}` => `{}`", sm::tsc(&arm.pat), bt));
                }
            }
            None => {
                // default arm: keeps the backslash (after the non-ASCII bytes check)
                if bt.ends_with("returnOk(format!(\"\\\\{c}\"));}") || bt.contains("returnOk(format!(\"\\\\{c}\"));") {
                    cx.ok(rule, "unknown escapes keep the backslash and the character");
                } else {
                    cx.fail(rule, &format!("{}/default", rule), &s.loc(&arm.pat), "the default arm does not keep `\\` + character");
                }
            }
        }
    }
    for c in simple.keys() {
        if !seen_simple.contains(c) {
            cx.fail(rule, &format!("{}/simple/{}/missing", rule, c.escape_default()), &s.loc(m), &format!("no arm for the simple escape \\{}", c.escape_default()));
        }
    }
    for c in hex.keys() {
        if !seen_hex.contains(c) {
            cx.fail(rule, &format!("{}/hex/{}/missing", rule, c), &s.loc(m), &format!("no arm for \\{}", c));
        }
    }
    // parse_octet
    match s.method("StringParser", "parse_octet") {
        None => cx.anchor_missing(rule, "parse_octet"),
        Some(po) => {
            let t = sm::tsx(&po.block);
            let maxd = refd["octal"]["max_digits"].as_u64().unwrap();
            let loop_ok = t.contains(&format!("whileoctet_content.len()<{}{{matchself.peek(){{Some('0'..='7')=>octet_content.push(self.next_char().unwrap()),_=>break}}}}", maxd));
            let conv_ok = t.ends_with("letvalue=u32::from_str_radix(&octet_content,8).unwrap();char::from_u32(value).unwrap()}");
            if loop_ok {
                cx.ok(rule, "parse_octet reads at most 3 octal digits, each peeked as '0'..='7' before it is consumed");
            } else {
                cx.fail(rule, &format!("{}/octal/loop", rule), &s.loc(po), "parse_octet does not read `while len < 3 { if let Some('0'..='7') = peek() { push(next_char) } else { break } }`");
            }
            if conv_ok {
                cx.ok(rule, "octal value: u32::from_str_radix(_, 8) then char::from_u32 (lossless up to \\777 = U+01FF)");
            } else {
                cx.fail(rule, &format!("{}/octal/conversion", rule), &s.loc(po), "the octal value is not converted with u32::from_str_radix(.., 8) + char::from_u32(value): a narrower type wraps or fails for \\400..\\777");
            }
        }
    }
    // parse_unicode_literal: hex nibble accumulation
    match s.method("StringParser", "parse_unicode_literal") {
        None => cx.anchor_missing(rule, "parse_unicode_literal"),
        Some(pu) => {
            // Interpreted, not matched: the body is evaluated by the checker's own interpreter on a designed set of
            // digit strings (every hex digit at every position with the others 0, the surrogate / scalar-range
            // boundaries, a non-hex character and the end of input at every position).
            let (ok, why) = match unicode_literal_semantics(pu, cx.tier == "thorough") {
                Ok(n) => {
                    cx.unit("digit strings on which parse_unicode_literal was interpreted", n);
                    (true, String::new())
                }
                Err(e) => (false, e),
            };
            if ok {
                cx.ok(rule, "parse_unicode_literal: n hex digits, most significant first; surrogates -> U+FFFD; invalid scalar -> error");
            } else {
                cx.fail(rule, &format!("{}/hex/accumulate", rule), &s.loc(pu), &format!("parse_unicode_literal does not accumulate n hex digits most-significant-first with surrogates mapped to U+FFFD: {}", why));
            }
        }
    }
}

/// Evaluate `parse_unicode_literal(n)` with the checker's interpreter; `self.next_char()` reads a scripted input.
fn unicode_literal_semantics(pu: &syn::ImplItemFn, exhaustive: bool) -> Result<usize, String> {
    use crate::eval::{Machine, V};
    let pname = pu.sig.inputs.iter().nth(1).and_then(|a| if let syn::FnArg::Typed(pt) = a { Some(sm::tsc(&pt.pat)) } else { None }).ok_or("no length parameter")?;
    // every error the function constructs must be the unicode error
    let body = sm::tsc(&pu.block);
    let re = regex::Regex::new(r"LexicalErrorType::([A-Za-z]+)").unwrap();
    for c in re.captures_iter(&body) {
        if &c[1] != "UnicodeError" {
            return Err(format!("constructs LexicalErrorType::{}", &c[1]));
        }
    }
    let mut cases: Vec<(usize, Vec<Option<char>>, Option<u32>)> = vec![];
    let hex = |v: u32, n: usize| -> Vec<Option<char>> { format!("{:0width$X}", v, width = n).chars().map(Some).collect() };
    for n in [2usize, 4, 8] {
        for pos in 0..n {
            for d in 0..16u32 {
                let v = (d as u64) << (4 * (n - 1 - pos));
                let mut digits: Vec<Option<char>> = vec![Some('0'); n];
                digits[pos] = std::char::from_digit(d, 16);
                let expect = if v > 0x10FFFF { None } else if (0xD800..=0xDFFF).contains(&(v as u32)) { Some(0xFFFD) } else { Some(v as u32) };
                cases.push((n, digits.clone(), expect));
                // lower-case digits are hex digits too
                let lower: Vec<Option<char>> = digits.iter().map(|c| c.map(|c| c.to_ascii_lowercase())).collect();
                cases.push((n, lower, expect));
            }
            // a non-hex character / the end of input at this position
            for bad in [Some('g'), Some('_'), Some(' '), None] {
                let mut digits: Vec<Option<char>> = vec![Some('1'); n];
                digits[pos] = bad;
                digits.truncate(if bad.is_none() { pos } else { n });
                cases.push((n, digits, None));
            }
        }
        for v in [0xD7FFu32, 0xD800, 0xDABC, 0xDFFF, 0xE000, 0xFFFF, 0x10FFFF, 0x110000, 0xFFFFFFFF, 0x1F600, 0x41, 0xFF, 0x1234, 0xABCD] {
            if (v as u64) < (1u64 << (4 * n)) {
                let expect = if v > 0x10FFFF { None } else if (0xD800..=0xDFFF).contains(&v) { Some(0xFFFD) } else { Some(v) };
                cases.push((n, hex(v, n), expect));
            }
        }
    }
    if exhaustive {
        // thorough tier: every 2-digit and every 4-digit hexadecimal escape
        for v in 0u32..=0xFF {
            cases.push((2, hex(v, 2), Some(v)));
        }
        for v in 0u32..=0xFFFF {
            let expect = if (0xD800..=0xDFFF).contains(&v) { Some(0xFFFD) } else { Some(v) };
            cases.push((4, hex(v, 4), expect));
        }
    }
    let total = cases.len();
    for (n, digits, expect) in cases {
        let input: std::cell::RefCell<std::collections::VecDeque<Option<char>>> = std::cell::RefCell::new(digits.iter().cloned().collect());
        let consumed = std::cell::Cell::new(0usize);
        let methods = |recv: &V, m: &str, _args: &[V]| -> Option<V> {
            match (recv, m) {
                (V::Enum(r), "next_char") if r == "self" => {
                    consumed.set(consumed.get() + 1);
                    let c = input.borrow_mut().pop_front().flatten();
                    Some(V::Opt(c.map(|c| Box::new(V::Char(c as u32)))))
                }
                (V::Enum(r), "get_pos") if r == "self" => Some(V::Enum("pos".into())),
                (V::Unit, "LexicalError::new") => Some(V::Enum("LexicalError".into())),
                _ => None,
            }
        };
        let mut mach = Machine::new(&methods);
        mach.set(&pname, V::Int(n as i128));
        let got = mach.eval_fn_body(&pu.block).map_err(|e| format!("not interpretable ({})", e))?;
        let shown: String = digits.iter().map(|c| c.unwrap_or('$')).collect();
        match (expect, &got) {
            (Some(cp), V::Char(c)) if *c == cp => {
                if consumed.get() != n {
                    return Err(format!("{} digits requested, {} characters consumed for `{}`", n, consumed.get(), shown));
                }
            }
            (None, V::Enum(e)) if e.starts_with("Err(") => {}
            (e, g) => return Err(format!("\\{}{} ({} digits) evaluates to {:?}, expected {}", if n == 2 { "x" } else if n == 4 { "u" } else { "U" }, shown, n, g, e.map_or("a unicode error".to_string(), |c| format!("U+{:04X}", c)))),
        }
    }
    Ok(total)
}

fn string_kinds(cx: &mut Ctx, refd: &serde_json::Value) {
    let rule = "C06.P1";
    cx.rule(rule, "StringKind::try_from(char) / ([char; 2]) accept exactly the reference prefixes (every case and order) and map them to the right kind; prefix_len is the prefix's character count; is_raw / is_any_bytes / is_any_fstring / is_unicode partition the kinds as their names say; Display prints a prefix of prefix_len characters");
    cx.floor(rule, 30);
    let t = match sm::load(&cx.repo, "parser/src/token.rs") {
        Ok(s) => s,
        Err(e) => return cx.anchor_missing(rule, &e),
    };
    // try_from(char)
    let p1: BTreeMap<char, String> = refd["prefixes_1"].as_object().unwrap().iter().map(|(k, v)| (k.chars().next().unwrap(), v.as_str().unwrap().to_string())).collect();
    let mut got1: BTreeMap<char, String> = BTreeMap::new();
    let mut got2: BTreeMap<String, String> = BTreeMap::new();
    for i in t.impls() {
        if sm::self_ty_name(i) != "StringKind" || sm::trait_name(i).as_deref() != Some("TryFrom") {
            continue;
        }
        let arg = i.trait_.as_ref().map(|x| sm::tsc(&x.1)).unwrap_or_default();
        for it in &i.items {
            let syn::ImplItem::Fn(f) = it else { continue };
            sm::for_each_expr_in_block(&f.block, |e| {
                if let syn::Expr::Match(m) = e {
                    for arm in &m.arms {
                        let body = sm::tsc(sm::unblock(&arm.body));
                        let kind = body.strip_prefix("Ok(StringKind::").and_then(|x| x.strip_suffix(')')).map(|x| x.to_string());
                        if arg.contains("[char;2]") {
                            // `[a, b]` or an or-pattern of such pairs; the first arm that matches a pair decides
                            let alts: Vec<&syn::Pat> = match &arm.pat {
                                syn::Pat::Or(o) => o.cases.iter().collect(),
                                other => vec![other],
                            };
                            for alt in alts {
                                if let syn::Pat::Slice(sl) = alt {
                                    if sl.elems.len() == 2 {
                                        if let (Some(a), Some(b), Some(k)) = (pat_chars(&sl.elems[0]), pat_chars(&sl.elems[1]), kind.clone()) {
                                            for x in &a {
                                                for y in &b {
                                                    got2.entry(format!("{}{}", x, y)).or_insert(k.clone());
                                                }
                                            }
                                        }
                                    }
                                }
                            }
                        } else if let (Some(cs), Some(k)) = (pat_chars(&arm.pat), kind) {
                            for c in cs {
                                got1.insert(c, k.clone());
                            }
                        }
                    }
                }
            });
        }
    }
    for (c, k) in &p1 {
        match got1.get(c) {
            Some(g) if g == k => cx.ok(rule, &format!("prefix {} -> {}", c, k)),
            other => cx.fail(rule, &format!("{}/prefix1/{}", rule, c), &t.rel, &format!("prefix `{}` maps to {:?}, reference {}", c, other, k)),
        }
    }
    for c in got1.keys() {
        if !p1.contains_key(c) {
            cx.fail(rule, &format!("{}/prefix1/{}/extra", rule, c), &t.rel, &format!("`{}` is accepted as a string prefix but is not one", c));
        }
    }
    let mut want2: BTreeMap<String, String> = BTreeMap::new();
    for (k, arr) in refd["prefixes_2"].as_object().unwrap() {
        for p in arr.as_array().unwrap() {
            want2.insert(p.as_str().unwrap().to_string(), k.clone());
        }
    }
    for (p, k) in &want2 {
        match got2.get(p) {
            Some(g) if g == k => cx.ok(rule, &format!("prefix {} -> {}", p, k)),
            other => cx.fail(rule, &format!("{}/prefix2/{}", rule, p), &t.rel, &format!("prefix `{}` maps to {:?}, reference {}", p, other, k)),
        }
    }
    for p in got2.keys() {
        if !want2.contains_key(p) {
            cx.fail(rule, &format!("{}/prefix2/{}/extra", rule, p), &t.rel, &format!("`{}` is accepted as a string prefix but is not one", p));
        }
    }
    // predicates and prefix_len / Display
    let kinds = ["String", "FString", "Bytes", "RawString", "RawFString", "RawBytes", "Unicode"];
    let preds: [(&str, Vec<&str>); 4] = [("is_raw", vec!["RawString", "RawFString", "RawBytes"]), ("is_any_fstring", vec!["FString", "RawFString"]), ("is_any_bytes", vec!["Bytes", "RawBytes"]), ("is_unicode", vec!["Unicode"])];
    for (name, want) in preds {
        match t.method("StringKind", name) {
            None => cx.anchor_missing(rule, &format!("StringKind::{}", name)),
            Some(m) => {
                let mut set = BTreeSet::new();
                sm::for_each_expr_in_block(&m.block, |e| {
                    if let syn::Expr::Macro(mac) = e {
                        if mac.mac.path.is_ident("matches") {
                            let s = sm::tsc(&mac.mac.tokens);
                            if let Some(rest) = s.strip_prefix("self,") {
                                for k in rest.split('|') {
                                    set.insert(k.trim_start_matches("StringKind::").to_string());
                                }
                            }
                        }
                    }
                });
                let w: BTreeSet<String> = want.iter().map(|s| s.to_string()).collect();
                if set == w {
                    cx.ok(rule, &format!("{} = {:?}", name, want));
                } else {
                    cx.fail(rule, &format!("{}/{}", rule, name), &t.loc(m), &format!("{} is true for {:?}, expected {:?}", name, set, w));
                }
            }
        }
    }
    let want_len: BTreeMap<&str, u64> = [("String", 0), ("RawString", 1), ("FString", 1), ("Unicode", 1), ("Bytes", 1), ("RawFString", 2), ("RawBytes", 2)].into_iter().collect();
    match t.method("StringKind", "prefix_len") {
        None => cx.anchor_missing(rule, "StringKind::prefix_len"),
        Some(m) => {
            let mut got: BTreeMap<String, u64> = BTreeMap::new();
            sm::for_each_expr_in_block(&m.block, |e| {
                if let syn::Expr::Match(mm) = e {
                    for arm in &mm.arms {
                        if let Some(n) = tables::lit_int(sm::unblock(&arm.body)) {
                            for k in sm::tsc(&arm.pat).split('|') {
                                got.insert(k.trim_start_matches("StringKind::").to_string(), n);
                            }
                        }
                    }
                }
            });
            for k in kinds {
                match (got.get(k), want_len.get(k)) {
                    (Some(a), Some(b)) if a == b => cx.ok(rule, &format!("prefix_len({}) = {}", k, a)),
                    (a, b) => cx.fail(rule, &format!("{}/prefix_len/{}", rule, k), &t.loc(m), &format!("prefix_len({}) is {:?}, expected {:?}", k, a, b)),
                }
            }
            if !sm::tsx(&m.block).ends_with("len.into()}") {
                cx.fail(rule, &format!("{}/prefix_len/result", rule), &t.loc(m), "prefix_len does not return the matched length");
            }
        }
    }
    // Display length = prefix_len
    for i in t.impls() {
        if sm::self_ty_name(i) == "StringKind" && sm::trait_name(i).as_deref() == Some("Display") {
            for it in &i.items {
                let syn::ImplItem::Fn(f) = it else { continue };
                sm::for_each_expr_in_block(&f.block, |e| {
                    if let syn::Expr::Match(mm) = e {
                        for arm in &mm.arms {
                            if let syn::Expr::MethodCall(mc) = sm::unblock(&arm.body) {
                                if mc.method == "write_str" {
                                    if let Some(s) = tables::lit_str(&mc.args[0]) {
                                        let k = sm::tsc(&arm.pat).trim_start_matches("StringKind::").to_string();
                                        if want_len.get(k.as_str()).copied() == Some(s.chars().count() as u64) {
                                            cx.ok(rule, &format!("Display({}) = {:?}", k, s));
                                        } else {
                                            cx.fail(rule, &format!("{}/display/{}", rule, k), &t.loc(&arm.pat), &format!("Display({}) prints {:?}, whose length differs from prefix_len", k, s));
                                        }
                                    }
                                }
                            }
                        }
                    }
                });
            }
        }
    }
}

fn radix_tables(cx: &mut Ctx, refd: &serde_json::Value) {
    let rule = "C06.R1";
    cx.rule(rule, "lex_number maps the prefixes 0x/0X, 0o/0O, 0b/0B (and only those) to radix 16/8/2 after consuming exactly the two prefix characters; is_digit_of_radix's digit classes equal the reference classes; every radix passed down is one of {2, 8, 10, 16}");
    cx.floor(rule, 11);
    let Some(lx) = lr::load_lexer(cx, rule) else { return };
    let Some(f) = lr::lexer_method(&lx, "lex_number") else { return cx.anchor_missing(rule, "lex_number") };
    let want: BTreeMap<char, u64> = refd["radix_prefixes"].as_object().unwrap().iter().map(|(k, v)| (k.chars().next().unwrap(), v.as_u64().unwrap())).collect();
    let mut got: BTreeMap<char, u64> = BTreeMap::new();
    sm::for_each_expr_in_block(&f.block, |e| {
        if let syn::Expr::Match(m) = e {
            for arm in &m.arms {
                if let syn::Pat::Slice(sl) = &arm.pat {
                    if sl.elems.len() == 2 {
                        let first = pat_chars(&sl.elems[0]);
                        let second = pat_chars(&sl.elems[1]);
                        let body = sm::tsc(&arm.body);
                        let radix = body.split("self.lex_number_radix(start_pos,").nth(1).and_then(|r| r.split(')').next()).and_then(|r| r.parse::<u64>().ok());
                        let two_consumed = body.starts_with("{self.next_char();self.next_char();self.lex_number_radix(");
                        if let (Some(a), Some(b), Some(r)) = (first, second, radix) {
                            if a == ['0'].into_iter().collect() && two_consumed {
                                for c in b {
                                    got.insert(c, r);
                                }
                            }
                        }
                    }
                }
            }
        }
    });
    for (c, r) in &want {
        match got.get(c) {
            Some(g) if g == r => cx.ok(rule, &format!("0{} -> radix {}", c, r)),
            other => cx.fail(rule, &format!("{}/prefix/{}", rule, c), &lx.loc(f), &format!("prefix `0{}` maps to {:?}, reference radix {}", c, other, r)),
        }
    }
    for c in got.keys() {
        if !want.contains_key(c) {
            cx.fail(rule, &format!("{}/prefix/{}/extra", rule, c.escape_default()), &lx.loc(f), &format!("`0{}` is treated as a radix prefix but is not one (a literal such as 0{}… is mis-lexed)", c, c));
        }
    }
    // digit classes
    let Some(d) = lr::lexer_method(&lx, "is_digit_of_radix") else { return cx.anchor_missing(rule, "is_digit_of_radix") };
    let classes: BTreeMap<u64, BTreeSet<char>> = refd["digit_classes"].as_object().unwrap().iter().map(|(k, v)| (k.parse().unwrap(), v.as_str().unwrap().chars().collect())).collect();
    let mut seen = BTreeSet::new();
    sm::for_each_expr_in_block(&d.block, |e| {
        if let syn::Expr::Match(m) = e {
            if sm::tsc(&m.expr) != "radix" {
                return;
            }
            for arm in &m.arms {
                let Some(r) = (if let syn::Pat::Lit(l) = &arm.pat { if let syn::Lit::Int(i) = &l.lit { i.base10_parse::<u64>().ok() } else { None } } else { None }) else { continue };
                seen.insert(r);
                // matches!(c, Some(..) | Some(..))
                let mut set = BTreeSet::new();
                if let syn::Expr::Macro(mac) = sm::unblock(&arm.body) {
                    if let Ok(args) = mac.mac.parse_body_with(|input: syn::parse::ParseStream| {
                        let e: syn::Expr = input.parse()?;
                        input.parse::<syn::Token![,]>()?;
                        let p = syn::Pat::parse_multi_with_leading_vert(input)?;
                        Ok((e, p))
                    }) {
                        if sm::tsc(&args.0) == "c" {
                            if let Some(cs) = pat_chars(&args.1) {
                                set = cs;
                            }
                        }
                    }
                }
                match classes.get(&r) {
                    Some(w) if *w == set => cx.ok(rule, &format!("radix {}: digits {}", r, w.iter().collect::<String>())),
                    Some(w) => cx.fail(rule, &format!("{}/digits/{}", rule, r), &lx.loc(&arm.pat), &format!("radix {} accepts {:?}, reference {:?}", r, set.iter().collect::<String>(), w.iter().collect::<String>())),
                    None => cx.fail(rule, &format!("{}/digits/{}/extra", rule, r), &lx.loc(&arm.pat), "unexpected radix"),
                }
            }
        }
    });
    for r in classes.keys() {
        if !seen.contains(r) {
            cx.fail(rule, &format!("{}/digits/{}/missing", rule, r), &lx.loc(d), &format!("no digit class for radix {}", r));
        }
    }
    // radix literals passed down
    let all = sm::tsx(&lx.file);
    let mut bad = vec![];
    for (pat, allowed) in [("self.radix_run(", vec!["10", "radix"]), ("self.lex_number_radix(start_pos,", vec!["16", "8", "2"])] {
        for (i, _) in all.match_indices(pat) {
            let arg: String = all[i + pat.len()..].chars().take_while(|c| *c != ')').collect();
            if !allowed.contains(&arg.as_str()) {
                bad.push(format!("{}{})", pat, arg));
            }
        }
    }
    if bad.is_empty() {
        cx.ok(rule, "every radix passed to radix_run / lex_number_radix is a literal of {2, 8, 10, 16} (or the forwarded parameter)");
    } else {
        cx.fail(rule, &format!("{}/radix-args", rule), &lx.rel, &format!("radix arguments outside the handled set: {:?}", bad));
    }
}

/// Longest character name / alias known to the locked unicode_names2 (from the data files of the crate source
/// cargo extracted for the locked version); falls back to the value reviewed for a known version.
fn longest_unicode_name(cx: &mut Ctx) -> Option<(usize, String)> {
    let lock = std::fs::read_to_string(cx.repo.join("Cargo.lock")).ok()?;
    let ver = lock.split("name = \"unicode_names2\"\nversion = \"").nth(1)?.split('"').next()?.to_string();
    let home = std::env::var("CARGO_HOME").map(std::path::PathBuf::from).unwrap_or_else(|_| std::path::PathBuf::from(std::env::var("HOME").unwrap_or_else(|_| "/root".into())).join(".cargo"));
    if let Ok(rd) = std::fs::read_dir(home.join("registry/src")) {
        for idx in rd.flatten() {
            let d = idx.path().join(format!("unicode_names2-{}", ver)).join("data");
            let (Ok(ud), Ok(na)) = (std::fs::read_to_string(d.join("UnicodeData.txt")), std::fs::read_to_string(d.join("NameAliases.txt"))) else { continue };
            let mut best = 0usize;
            for l in ud.lines() {
                if let Some(n) = l.split(';').nth(1) {
                    if !n.starts_with('<') {
                        best = best.max(n.len());
                    }
                }
            }
            for l in na.lines() {
                if l.starts_with('#') {
                    continue;
                }
                if let Some(n) = l.split(';').nth(1) {
                    best = best.max(n.len());
                }
            }
            if best > 0 {
                return Some((best, format!("unicode_names2 {} data/UnicodeData.txt + NameAliases.txt", ver)));
            }
        }
    }
    let reviewed: &[(&str, usize)] = &[("1.3.0", 88)];
    let r = reviewed.iter().find(|r| r.0 == ver)?;
    cx.assume(&format!("the source of unicode_names2 {} is not extracted in the cargo registry; its longest name ({}) is the value reviewed for that version", ver, r.1));
    Some((r.1, format!("reviewed value for unicode_names2 {}", ver)))
}

fn named_escape(cx: &mut Ctx) {
    let rule = "C06.N2";
    cx.rule(rule, "\\N{name}: the name is the characters between '{' and '}' in order, the value is unicode_names2::character(&name), and any length-based rejection before the lookup accepts every name the locked unicode_names2 knows (the bound is compared against the longest name in the locked crate's Unicode data)");
    cx.floor(rule, 3);
    let s = match sm::load(&cx.repo, "parser/src/string.rs") {
        Ok(s) => s,
        Err(e) => return cx.anchor_missing(rule, &e),
    };
    let Some(f) = s.method("StringParser", "parse_unicode_name") else { return cx.anchor_missing(rule, "parse_unicode_name") };
    let t = sm::tsc(&f.block);
    if t.contains("Some('}')=>break,Some(c)=>name.push(c),") && t.contains("letmutname=String::new();") {
        cx.ok(rule, "name = every character up to '}' pushed in order");
    } else {
        cx.fail(rule, &format!("{}/collect", rule), &s.loc(f), "the name is not collected as every character up to '}' in order");
    }
    if t.contains("unicode_names2::character(&name)") {
        cx.ok(rule, "value = unicode_names2::character(&name)");
    } else {
        cx.fail(rule, &format!("{}/lookup", rule), &s.loc(f), "the value does not come from unicode_names2::character(&name)");
    }
    let Some((longest, src)) = longest_unicode_name(cx) else { return cx.anchor_missing(rule, "locked unicode_names2 version / data") };
    // constants of the file
    let mut consts: BTreeMap<String, i128> = BTreeMap::new();
    for it in &s.file.items {
        if let syn::Item::Const(c) = it {
            if let syn::Expr::Lit(l) = &*c.expr {
                if let syn::Lit::Int(i) = &l.lit {
                    if let Ok(v) = i.base10_parse::<i128>() {
                        consts.insert(c.ident.to_string(), v);
                    }
                }
            }
        }
    }
    let val = |e: &syn::Expr| -> Option<i128> {
        let t = sm::tsc(e);
        t.parse::<i128>().ok().or_else(|| consts.get(&t).copied())
    };
    let mut guards = 0;
    let mut bad: Vec<String> = vec![];
    sm::for_each_expr_in_block(&f.block, |e| {
        if let syn::Expr::Binary(b) = e {
            let (l, r) = (sm::tsc(&b.left), sm::tsc(&b.right));
            let is_len = |x: &str| x == "name.len()" || x == "name.chars().count()";
            // max accepted length under the rejecting comparison
            let accepted: Option<i128> = match (&b.op, is_len(&l), is_len(&r)) {
                (syn::BinOp::Gt(_), true, _) => val(&b.right),
                (syn::BinOp::Ge(_), true, _) => val(&b.right).map(|k| k - 1),
                (syn::BinOp::Lt(_), _, true) => val(&b.left),
                (syn::BinOp::Le(_), _, true) => val(&b.left).map(|k| k - 1),
                (_, true, _) | (_, _, true) => Some(-1),
                _ => return,
            };
            guards += 1;
            match accepted {
                Some(a) if a >= longest as i128 => {}
                other => bad.push(format!("`{}` accepts names up to {:?} bytes, the longest known name has {}", sm::tsc(e), other, longest)),
            }
        }
    });
    if bad.is_empty() {
        cx.ok(rule, &format!("{} length guard(s) accept every known name (longest: {} bytes, {})", guards, longest, src));
    } else {
        cx.fail(rule, &format!("{}/length-bound", rule), &s.loc(f), &bad.join("; "));
    }
}

fn radix_forwarding(cx: &mut Ctx) {
    let rule = "C06.R2";
    cx.rule(rule, "radix forwarding: inside every lexer function that has a `radix` parameter, each call of another radix-parameterised function (discovered from the signatures: lex_number_radix, radix_run, take_number, is_digit_of_radix) and of BigInt::from_str_radix passes that same `radix` — digits, the `_` separator look-ahead and the value conversion all use the literal's own radix");
    cx.floor(rule, 4);
    let Some(lx) = lr::load_lexer(cx, rule) else { return };
    let mut radix_fns: BTreeMap<String, usize> = BTreeMap::new();
    let mut bodies: Vec<&syn::ImplItemFn> = vec![];
    for i in lx.impls() {
        for it in &i.items {
            if let syn::ImplItem::Fn(f) = it {
                let params: Vec<String> = f.sig.inputs.iter().filter_map(|a| if let syn::FnArg::Typed(pt) = a { Some(sm::tsc(&pt.pat)) } else { None }).collect();
                if let Some(ix) = params.iter().position(|p| p == "radix") {
                    radix_fns.insert(f.sig.ident.to_string(), ix);
                    bodies.push(f);
                }
            }
        }
    }
    radix_fns.insert("from_str_radix".into(), 1);
    if bodies.len() < 3 {
        cx.fail(rule, &format!("{}/anchors", rule), &lx.rel, &format!("{} functions with a `radix` parameter (at least 3 expected: lex_number_radix, radix_run, is_digit_of_radix)", bodies.len()));
    }
    for f in bodies {
        let fname = f.sig.ident.to_string();
        let mut sites: Vec<(String, Option<String>)> = vec![];
        sm::for_each_expr_in_block(&f.block, |e| match e {
            syn::Expr::MethodCall(mc) => {
                if let Some(ix) = radix_fns.get(&mc.method.to_string()) {
                    sites.push((mc.method.to_string(), mc.args.iter().nth(*ix).map(|a| sm::tsc(a))));
                }
            }
            syn::Expr::Call(c) => {
                if let syn::Expr::Path(p) = &*c.func {
                    let last = p.path.segments.last().map(|s| s.ident.to_string()).unwrap_or_default();
                    if let Some(ix) = radix_fns.get(&last) {
                        sites.push((last, c.args.iter().nth(*ix).map(|a| sm::tsc(a))));
                    }
                }
            }
            _ => {}
        });
        for (n, (callee, arg)) in sites.iter().enumerate() {
            if arg.as_deref() == Some("radix") {
                cx.ok(rule, &format!("{} -> {}(.., radix)", fname, callee));
            } else {
                cx.fail(rule, &format!("{}/{}/{}#{}", rule, fname, callee, n + 1), &lx.loc(f), &format!("{} calls {} with radix argument {:?} instead of its own `radix`", fname, callee, arg));
            }
        }
    }
}

fn value_conversions(cx: &mut Ctx) {
    let rule = "C06.V1";
    cx.rule(rule, "numeric values come from trusted conversions of the scanned text: BigInt::from_str_radix(text, radix) for prefixed integers, text.parse::<BigInt>() for decimal integers, f64::from_str(text) for floats and imaginary literals; the only rewriting of the text is dropping underscores between digits and lower-casing the exponent marker; radix_run pushes every digit it takes");
    cx.floor(rule, 5);
    let Some(lx) = lr::load_lexer(cx, rule) else { return };
    let t = sm::tsx(&lx.file);
    let checks = [
        ("radix-int", "letvalue_text=self.radix_run(radix);letend_pos=self.get_pos();letvalue=BigInt::from_str_radix(&value_text,radix)", "prefixed integers: BigInt::from_str_radix(&value_text, radix)"),
    ];
    // decimal literals: every Tok::Int / Tok::Float / Tok::Complex built in lex_normal_number takes its value from a
    // local that is initialised by the trusted conversion of the scanned text (however its failure is handled:
    // unwrap, map_err(..)?), and the real part of an imaginary literal is 0.0
    if let Some(f) = lr::lexer_method(&lx, "lex_normal_number") {
        let mut inits: BTreeMap<String, Vec<String>> = BTreeMap::new();
        sm::for_each_stmt_in_block(&f.block, &mut |st| {
            if let syn::Stmt::Local(l) = st {
                if let (Some(init), syn::Pat::Ident(pi)) = (&l.init, &l.pat) {
                    inits.entry(pi.ident.to_string()).or_default().push(sm::tsc(&init.expr));
                }
            }
        });
        let from = |name: &str, prefix: &str| inits.get(name).map_or(false, |v| v.iter().any(|i| i.starts_with(prefix)));
        let mut n = [0usize; 3];
        sm::for_each_expr_in_block(&f.block, |e| {
            if let syn::Expr::Struct(st) = e {
                let ty = sm::tsc(&st.path);
                let field = |n: &str| st.fields.iter().find(|f| sm::ts(&f.member) == n).map(|f| sm::tsc(&f.expr));
                match ty.as_str() {
                    "Tok::Int" => {
                        n[0] += 1;
                        let v = field("value").unwrap_or_default();
                        if from(&v, "value_text.parse::<BigInt>()") {
                            cx.ok(rule, "decimal integers: value_text.parse::<BigInt>()");
                        } else {
                            cx.fail(rule, &format!("{}/decimal-int", rule), &lx.loc(st), &format!("Tok::Int {{ value: {} }}: the value does not come from value_text.parse::<BigInt>()", v));
                        }
                    }
                    "Tok::Float" => {
                        n[1] += 1;
                        let v = field("value").unwrap_or_default();
                        if from(&v, "f64::from_str(&value_text)") {
                            cx.ok(rule, "floats: f64::from_str(&value_text)");
                        } else {
                            cx.fail(rule, &format!("{}/float", rule), &lx.loc(st), &format!("Tok::Float {{ value: {} }}: the value does not come from f64::from_str(&value_text)", v));
                        }
                    }
                    "Tok::Complex" => {
                        n[2] += 1;
                        let (re, im) = (field("real").unwrap_or_default(), field("imag").unwrap_or_default());
                        if re == "0.0" && from(&im, "f64::from_str(&value_text)") {
                            cx.ok(rule, "imaginary literals: real 0.0, imag = f64::from_str(&value_text)");
                        } else {
                            cx.fail(rule, &format!("{}/complex-value", rule), &lx.loc(st), &format!("Tok::Complex {{ real: {}, imag: {} }}: an imaginary literal must carry real 0.0 and the parsed text as its imaginary part", re, im));
                        }
                    }
                    _ => {}
                }
            }
        });
        if n.iter().any(|k| *k == 0) {
            cx.fail(rule, &format!("{}/token-sites", rule), &lx.loc(f), &format!("lex_normal_number builds {} Int, {} Float and {} Complex tokens; at least one of each is expected (fail closed)", n[0], n[1], n[2]));
        }
    } else {
        cx.anchor_missing(rule, "lex_normal_number");
    }
    // radix_run pushes every digit it takes: through take_number (`Some(c) => push(c)`) or with the digit test in place
    let via_helper = t.contains("matchself.take_number(radix){Some(c)=>{value_text.push(c);},");
    let in_place = t.contains("ifLexer::is_digit_of_radix(self.window[0],radix){value_text.push(self.next_char().unwrap())");
    if via_helper || in_place {
        cx.ok(rule, "radix_run pushes every digit it takes");
    } else {
        cx.fail(rule, &format!("{}/radix_run-push", rule), &lx.rel, "missing or altered: radix_run pushes every digit it takes");
    }
    for (k, frag, what) in checks {
        if t.contains(frag) {
            cx.ok(rule, what);
        } else {
            cx.fail(rule, &format!("{}/{}", rule, k), &lx.rel, &format!("missing or altered: {}", what));
        }
    }
    // the only transformation applied to a consumed character before it is pushed
    let n_lower = t.matches(".to_ascii_lowercase()").count();
    if n_lower == 1 && t.contains("value_text.push(self.next_char().unwrap().to_ascii_lowercase());") {
        cx.ok(rule, "only the exponent marker is lower-cased");
    } else {
        cx.fail(rule, &format!("{}/rewrite", rule), &lx.rel, "the literal text is rewritten in a way other than lower-casing the exponent marker");
    }
    match lr::lexer_method(&lx, "take_number") {
        Some(m) if ["{lettake_char=Lexer::is_digit_of_radix(self.window[0],radix);take_char.then(||self.next_char().unwrap())}", "{(Lexer::is_digit_of_radix(self.window[0],radix)).then(||self.next_char().unwrap())}", "{Lexer::is_digit_of_radix(self.window[0],radix).then(||self.next_char().unwrap())}"].contains(&sm::tsc(&m.block).as_str()) => cx.ok(rule, "take_number consumes window[0] iff it is a digit of the radix"),
        Some(m) => cx.fail(rule, &format!("{}/take_number", rule), &lx.loc(m), "take_number is not `is_digit_of_radix(window[0], radix).then(|| next_char().unwrap())`"),
        None if in_place => cx.ok(rule, "the digit test and the consumption sit in radix_run itself"),
        None => cx.anchor_missing(rule, "take_number"),
    }
}

fn lex_string_order(cx: &mut Ctx) {
    let rule = "C06.S1";
    cx.rule(rule, "lex_string: the backslash branch (keep `\\` and the following character, continue) comes before both the end-of-line test and the closing-quote test, so an escaped quote or line break never terminates the literal; a triple quote is recognised by exactly two further quote characters, both at the opening and at the closing (both decisions are evaluated over triple_quoted x whether two more quotes follow, following a private helper one level); content characters are pushed unchanged");
    cx.floor(rule, 4);
    let Some(lx) = lr::load_lexer(cx, rule) else { return };
    let Some(f) = lr::lexer_method(&lx, "lex_string") else { return cx.anchor_missing(rule, "lex_string") };
    let t = sm::tsx(&f.block);
    let p_bs = t.find("matchc{'\\\\'=>matchself.next_char(){Some(next_c)=>{string_content.push('\\\\');string_content.push(next_c);continue;},_=>{}},_=>{}}");
    let p_eol = t.find("ifc=='\\n'&&!triple_quoted{");
    let p_q = t.find("ifc==quote_char");
    match (p_bs, p_eol, p_q) {
        (Some(a), Some(b), Some(c)) if a < b && b < c => cx.ok(rule, "order in the scan loop: backslash pair, end-of-line test, closing-quote test"),
        _ => cx.fail(rule, &format!("{}/order", rule), &lx.loc(f), "the backslash branch does not precede the end-of-line and closing-quote tests (an escaped quote or line break could terminate the literal)"),
    }
    quote_logic(cx, rule, &lx, f);
    if t.contains("}string_content.push(c);},_=>") && t.matches("string_content.push(").count() == 3 {
        cx.ok(rule, "every other character is pushed unchanged (3 push sites in all)");
    } else {
        cx.fail(rule, &format!("{}/content", rule), &lx.loc(f), "content characters are not pushed exactly once each");
    }
    if t.contains("lettok=Tok::String{kind,triple_quoted,value:string_content};") {
        cx.ok(rule, "the token carries the content, the kind and the triple-quote flag");
    } else {
        cx.fail(rule, &format!("{}/token", rule), &lx.loc(f), "Tok::String is not built from (string_content, kind, triple_quoted)");
    }
}

fn conversion_flags(cx: &mut Ctx, refd: &serde_json::Value) {
    let rule = "C06.C1";
    cx.rule(rule, "ConversionFlag discriminants are the ASCII codes of the characters the f-string scanner maps from ('s' -> Str, 'r' -> Repr, 'a' -> Ascii), and None is -1");
    cx.floor(rule, 6);
    let (core, s) = match (sm::load(&cx.repo, "core/src/format.rs"), sm::load(&cx.repo, "parser/src/string.rs")) {
        (Ok(a), Ok(b)) => (a, b),
        (Err(e), _) | (_, Err(e)) => return cx.anchor_missing(rule, &e),
    };
    let want: BTreeMap<String, u64> = refd["conversion_flags"].as_object().unwrap().iter().map(|(k, v)| (k.clone(), v.as_u64().unwrap())).collect();
    let names: BTreeMap<&str, &str> = [("s", "Str"), ("r", "Repr"), ("a", "Ascii")].into_iter().collect();
    let Some(en) = core.enum_named("ConversionFlag") else { return cx.anchor_missing(rule, "enum ConversionFlag") };
    for (ch, code) in &want {
        let var = names[ch.as_str()];
        let disc = en.variants.iter().find(|v| v.ident == var).and_then(|v| v.discriminant.as_ref()).map(|d| sm::tsc(&d.1)).unwrap_or_default();
        if disc == format!("b'{}'asi8", ch) && ch.as_bytes()[0] as u64 == *code {
            cx.ok(rule, &format!("ConversionFlag::{} = b'{}'", var, ch));
        } else {
            cx.fail(rule, &format!("{}/discriminant/{}", rule, var), &core.loc(en), &format!("ConversionFlag::{} has discriminant `{}`, expected b'{}' as i8", var, disc, ch));
        }
    }
    let none = en.variants.iter().find(|v| v.ident == "None").and_then(|v| v.discriminant.as_ref()).map(|d| sm::tsc(&d.1)).unwrap_or_default();
    if none != "-1" {
        cx.fail(rule, &format!("{}/discriminant/None", rule), &core.loc(en), "ConversionFlag::None is not -1");
    }
    // scanner arms
    if let Some(m) = s.method("StringParser", "parse_formatted_value") {
        let t = sm::tsx(&m.block);
        for (ch, var) in &names {
            if t.contains(&format!("Some('{}')=>ConversionFlag::{},", ch, var)) {
                cx.ok(rule, &format!("!{} -> ConversionFlag::{}", ch, var));
            } else {
                cx.fail(rule, &format!("{}/scanner/{}", rule, ch), &s.loc(m), &format!("the f-string scanner does not map !{} to ConversionFlag::{}", ch, var));
            }
        }
    } else {
        cx.anchor_missing(rule, "parse_formatted_value");
    }
}

/// C06.B2: a decoded character becomes a byte by truncation.
fn bytes_truncation(cx: &mut Ctx) {
    let rule = "C06.B2";
    cx.rule(rule, "bytes literals keep the low 8 bits of every decoded character (a three-digit octal escape above \\377 yields U+0100..U+01FF from parse_octet; CPython stores it modulo 256): in StringParser::parse_bytes the characters reach Constant::Bytes only through `as u8` casts; a checked or saturating conversion (u8::try_from / try_into / min / clamp on an unmasked value) would change the value of b'\\400'..b'\\777'");
    cx.floor(rule, 1);
    let Ok(s) = sm::load(&cx.repo, "parser/src/string.rs") else { return cx.anchor_missing(rule, "parser/src/string.rs") };
    let Some(m) = s.method("StringParser", "parse_bytes") else { return cx.anchor_missing(rule, "StringParser::parse_bytes") };
    let mut casts = 0;
    let mut bad: Vec<(String, String)> = vec![];
    sm::for_each_expr_in_block(&m.block, |e| match e {
        syn::Expr::Cast(c) if sm::tsc(&c.ty) == "u8" => casts += 1,
        syn::Expr::Call(c) => {
            let f = sm::tsc(&c.func);
            if (f.ends_with("u8::try_from") || f == "u8::from" || f.ends_with("TryFrom::try_from")) && !c.args.iter().any(|a| masked(&sm::tsc(a))) {
                bad.push((sm::tsc(e), s.loc(e)));
            }
        }
        syn::Expr::MethodCall(mc) => {
            let name = mc.method.to_string();
            if ["try_into", "min", "clamp"].contains(&name.as_str()) && !masked(&sm::tsc(&mc.receiver)) && !sm::tsc(&mc.receiver).contains("len()") {
                bad.push((sm::tsc(e), s.loc(e)));
            }
        }
        _ => {}
    });
    fn masked(t: &str) -> bool {
        t.contains("&0xff") || t.contains("&255") || t.contains("%256") || t.contains("&0xFF") || t.contains("%0x100")
    }
    for (what, loc) in &bad {
        cx.fail(rule, &format!("{}/checked-conversion", rule), loc, &format!("parse_bytes converts a decoded character with `{}`: characters U+0100..U+01FF (octal escapes \\400..\\777) no longer keep their low 8 bits", what));
    }
    if casts >= 1 {
        if bad.is_empty() {
            cx.ok(rule, &format!("parse_bytes: {} truncating `as u8` cast(s), no checked or saturating conversion", casts));
        }
    } else {
        cx.fail(rule, &format!("{}/no-cast", rule), &s.loc(m), "parse_bytes has no truncating `as u8` conversion of the decoded characters");
    }
}

// ---- the opening / closing quote decisions of lex_string, evaluated over (triple_quoted, two more quotes follow)

#[derive(Default)]
struct QOut {
    consumed: usize,
    broke: bool,
    unknown: Option<String>,
    locals: BTreeMap<String, bool>,
}

fn q_bool(e: &syn::Expr, triple: Option<bool>, pair: bool, lx: &Src, out: &mut QOut, depth: usize) -> Option<bool> {
    let e = sm::peel(e);
    let t = sm::tsc(e);
    match e {
        syn::Expr::Unary(u) if matches!(u.op, syn::UnOp::Not(_)) => q_bool(&u.expr, triple, pair, lx, out, depth).map(|b| !b),
        syn::Expr::Binary(b) if matches!(b.op, syn::BinOp::And(_)) => match q_bool(&b.left, triple, pair, lx, out, depth)? {
            false => Some(false),
            true => q_bool(&b.right, triple, pair, lx, out, depth),
        },
        syn::Expr::Binary(b) if matches!(b.op, syn::BinOp::Or(_)) => match q_bool(&b.left, triple, pair, lx, out, depth)? {
            true => Some(true),
            false => q_bool(&b.right, triple, pair, lx, out, depth),
        },
        syn::Expr::Binary(b) if matches!(b.op, syn::BinOp::Eq(_)) => {
            if t == "c==quote_char" || t == "quote_char==c" {
                Some(true)
            } else if ["self.window[0]==Some(quote_char)", "self.window[1]==Some(quote_char)", "Some(quote_char)==self.window[0]", "Some(quote_char)==self.window[1]"].contains(&t.as_str()) {
                Some(pair)
            } else {
                out.unknown = Some(t);
                None
            }
        }
        syn::Expr::Lit(l) => match &l.lit {
            syn::Lit::Bool(b) => Some(b.value),
            _ => {
                out.unknown = Some(t);
                None
            }
        },
        syn::Expr::Path(_) if t == "triple_quoted" => {
            if triple.is_none() {
                out.unknown = Some("triple_quoted read before it is set".into());
            }
            triple
        }
        syn::Expr::Path(_) if out.locals.contains_key(&t) => out.locals.get(&t).copied(),
        syn::Expr::If(i) => {
            let c = q_bool(&i.cond, triple, pair, lx, out, depth)?;
            if c {
                q_stmts(&i.then_branch.stmts, triple, pair, lx, out, depth)
            } else {
                match &i.else_branch {
                    Some((_, el)) => match &**el {
                        syn::Expr::Block(b) => q_stmts(&b.block.stmts, triple, pair, lx, out, depth),
                        other => q_bool(other, triple, pair, lx, out, depth),
                    },
                    None => None,
                }
            }
        }
        syn::Expr::Block(b) => q_stmts(&b.block.stmts, triple, pair, lx, out, depth),
        // a private helper of the lexer taking the quote character: evaluated in place (one level)
        syn::Expr::MethodCall(mc) if sm::tsc(&mc.receiver) == "self" && depth == 0 && mc.args.len() == 1 && sm::tsc(&mc.args[0]) == "quote_char" => match lr::lexer_method(lx, &mc.method.to_string()) {
            Some(h) => {
                // the helper's parameter stands for the quote character
                let p = h.sig.inputs.iter().filter_map(|a| if let syn::FnArg::Typed(t) = a { Some(sm::tsc(&t.pat)) } else { None }).next().unwrap_or_default();
                if p != "quote_char" {
                    out.unknown = Some(format!("helper {} names its parameter `{}`", mc.method, p));
                    return None;
                }
                let saved = std::mem::take(&mut out.locals);
                let v = q_stmts(&h.block.stmts, None, pair, lx, out, depth + 1);
                out.locals = saved;
                v
            }
            None => {
                out.unknown = Some(t);
                None
            }
        },
        _ => {
            out.unknown = Some(t);
            None
        }
    }
}

/// Runs statements; returns the value of a boolean tail expression, if there is one.
fn q_stmts(stmts: &[syn::Stmt], triple: Option<bool>, pair: bool, lx: &Src, out: &mut QOut, depth: usize) -> Option<bool> {
    for (i, st) in stmts.iter().enumerate() {
        if out.broke || out.unknown.is_some() {
            return None;
        }
        let last = i + 1 == stmts.len();
        match st {
            syn::Stmt::Local(l) => {
                let (Some(init), syn::Pat::Ident(pi)) = (&l.init, &l.pat) else {
                    out.unknown = Some(sm::tsc(st));
                    return None;
                };
                let v = q_bool(&init.expr, triple, pair, lx, out, depth)?;
                out.locals.insert(pi.ident.to_string(), v);
            }
            syn::Stmt::Expr(e, semi) => {
                let t = sm::tsc(e);
                if t == "self.next_char()" {
                    out.consumed += 1;
                } else if t == "break" {
                    out.broke = true;
                    return None;
                } else if let syn::Expr::If(_) = e {
                    let v = q_bool(e, triple, pair, lx, out, depth);
                    if last && semi.is_none() {
                        return v;
                    }
                    // an `if` without else that was not taken is not an error
                    if out.unknown.is_some() {
                        return None;
                    }
                } else if last && semi.is_none() {
                    return q_bool(e, triple, pair, lx, out, depth);
                } else {
                    out.unknown = Some(t);
                    return None;
                }
            }
            _ => {
                out.unknown = Some(sm::tsc(st));
                return None;
            }
        }
    }
    None
}

fn quote_logic(cx: &mut Ctx, rule: &str, lx: &Src, f: &syn::ImplItemFn) {
    // opening: `let triple_quoted = E;` — E is true iff two more quote characters follow, and consumes exactly them
    let mut opening: Option<&syn::Expr> = None;
    for st in &f.block.stmts {
        if let syn::Stmt::Local(l) = st {
            if sm::tsc(&l.pat) == "triple_quoted" {
                opening = l.init.as_ref().map(|i| &*i.expr);
            }
        }
    }
    match opening {
        None => cx.fail(rule, &format!("{}/triple-open", rule), &lx.loc(f), "lex_string has no `let triple_quoted = ..` (fail closed)"),
        Some(e) => {
            let mut bad = vec![];
            for pair in [false, true] {
                let mut out = QOut::default();
                let v = q_bool(e, None, pair, lx, &mut out, 0);
                let want_consumed = if pair { 2 } else { 0 };
                if out.unknown.is_some() || v != Some(pair) || out.consumed != want_consumed {
                    bad.push(format!("two more quotes follow = {}: triple_quoted = {:?}, {} character(s) consumed{}", pair, v, out.consumed, out.unknown.map(|u| format!(" (not evaluated: {})", u)).unwrap_or_default()));
                }
            }
            if bad.is_empty() {
                cx.ok(rule, "opening: two further quote characters <=> triple quoted, and exactly those two are consumed");
            } else {
                cx.fail(rule, &format!("{}/triple-open", rule), &lx.loc(f), &format!("triple-quote detection at the opening: {}", bad.join("; ")));
            }
        }
    }
    // closing: the statements of the scan loop's `Some(c)` arm that mention quote_char
    let mut region: Vec<syn::Stmt> = vec![];
    sm::for_each_expr_in_block(&f.block, |e| {
        if let syn::Expr::Match(m) = e {
            if sm::tsc(&m.expr) == "self.next_char()" && region.is_empty() {
                for a in &m.arms {
                    if sm::tsc(&a.pat) == "Some(c)" {
                        if let syn::Expr::Block(b) = &*a.body {
                            region = b.block.stmts.iter().filter(|s| sm::tsc(*s).contains("quote_char")).cloned().collect();
                        }
                    }
                }
            }
        }
    });
    if region.is_empty() {
        return cx.fail(rule, &format!("{}/triple-close", rule), &lx.loc(f), "the scan loop has no `Some(c)` arm with a closing-quote decision (fail closed)");
    }
    let mut bad = vec![];
    for triple in [false, true] {
        for pair in [false, true] {
            let mut out = QOut::default();
            let _ = q_stmts(&region, Some(triple), pair, lx, &mut out, 0);
            let (want_broke, want_consumed) = match (triple, pair) {
                (false, _) => (true, 0),
                (true, true) => (true, 2),
                (true, false) => (false, 0),
            };
            if out.unknown.is_some() || out.broke != want_broke || out.consumed != want_consumed {
                bad.push(format!("triple_quoted = {}, two more quotes follow = {}: literal ends = {} after consuming {} more character(s){} (expected: ends = {}, {} consumed)", triple, pair, out.broke, out.consumed, out.unknown.map(|u| format!(" [not evaluated: {}]", u)).unwrap_or_default(), want_broke, want_consumed));
            }
        }
    }
    if bad.is_empty() {
        cx.ok(rule, "closing, evaluated over (triple_quoted, two more quotes follow): a quote ends a plain literal and consumes nothing further; a triple-quoted one ends only with two more quote characters, which are consumed");
    } else {
        cx.fail(rule, &format!("{}/triple-close", rule), &lx.loc(f), &format!("the closing-quote logic: {}", bad.join("; ")));
    }
}

#[allow(dead_code)]
fn _u(_: &Src) {}
