//! C04 — every enforcement site of the parser's own syntax rules exists on every path that needs it.

use crate::grammar::{Grammar, SymKind};
use crate::report::Ctx;
use crate::rules::grammar_rules::{actions, alt_key, lal};
use crate::rules::lexer_rules as lr;
use crate::srcmodel::{self as sm, Src};
use crate::tables;
use std::collections::{BTreeMap, BTreeSet};

pub fn run(cx: &mut Ctx) {
    crate::g1::run(cx, "C04.G1");
    empty_fstring_field(cx);
    let g = match tables::load_grammar(&cx.repo) {
        Ok(g) => g,
        Err(e) => return cx.anchor_missing("C04", &e),
    };
    crate::rules::grammar_rules::expr_wiring(cx, &g, "C04.E1");
    validators_called(cx, &g);
    consumer_graph(cx, &g);
    validator_bodies(cx);
    parse_args_rules(cx);
    fallible_actions(cx, &g);
    bracket_arms(cx);
    indentation_errors(cx);
    lexer_error_sites(cx);
    numeric_shape(cx);
    string_rules(cx);
    error_kind_mapping(cx, &g);
    lr::indentation_counters(cx, "C04.L2b");
}

fn validators_called(cx: &mut Ctx, g: &Grammar) {
    let rule = "C04.V1";
    cx.rule(rule, "Parameters and LambdaDef validate the parameter list (validate_arguments, propagated with ?) as the first thing they do with it, and every ParameterList alternative that carries positional parameters calls validate_pos_params(&param1)? before building Arguments");
    cx.floor(rule, 4);
    for (dname, bind) in [("Parameters", "a"), ("LambdaDef", "p")] {
        match g.def(dname) {
            None => cx.anchor_missing(rule, dname),
            Some(d) => {
                for a in &d.alts {
                    let Some(act) = &a.action else { continue };
                    let Some(syn::Expr::Block(b)) = &act.expr else { continue };
                    let first = b.block.stmts.first().map(|s| sm::tsc(s)).unwrap_or_default();
                    let want = format!("{}.as_ref().map(validate_arguments).transpose()?;", bind);
                    // the binding must be the ParameterList symbol
                    let bound_ok = a.syms.iter().any(|s| s.binding.as_deref() == Some(bind) && crate::grammar::sym_text(s).contains("ParameterList<"));
                    if first == want && act.fallible && bound_ok {
                        cx.ok(rule, &format!("{}: {}", alt_key(d, a), want));
                    } else {
                        cx.fail(rule, &format!("{}/{}", rule, alt_key(d, a)), &lal(a), &format!("{} does not start with `{}` in a fallible action: duplicate parameter names would be accepted here", dname, want));
                    }
                }
            }
        }
    }
    match g.def("ParameterList") {
        None => cx.anchor_missing(rule, "ParameterList"),
        Some(d) => {
            for a in &d.alts {
                let has_param1 = a.syms.iter().any(|s| crate::grammar::sym_text(s).contains("ParameterDefs<"));
                if !has_param1 {
                    continue;
                }
                let bind = a.syms.iter().find(|s| crate::grammar::sym_text(s).contains("ParameterDefs<")).and_then(|s| s.binding.clone()).unwrap_or_default();
                let Some(act) = &a.action else { continue };
                let first = match &act.expr {
                    Some(syn::Expr::Block(b)) => b.block.stmts.first().map(|s| sm::tsc(s)).unwrap_or_default(),
                    _ => String::new(),
                };
                let want = format!("validate_pos_params(&{})?;", bind);
                if first == want && act.fallible {
                    cx.ok(rule, &format!("{}: {}", alt_key(d, a), want));
                } else {
                    cx.fail(rule, &format!("{}/{}", rule, alt_key(d, a)), &lal(a), &format!("ParameterList alternative with positional parameters does not start with `{}`: a non-default parameter after a default one would be accepted on this path", want));
                }
            }
        }
    }
}

fn consumer_graph(cx: &mut Ctx, g: &Grammar) {
    let rule = "C04.V2";
    cx.rule(rule, "who-may-consume: ParameterList is consumed only by Parameters and LambdaDef; FunctionArgument lists only by ArgumentList, whose fallible action passes them through parse_args(..)?; ArgumentList only by the call and class-definition alternatives; validators are not called from anywhere else");
    cx.floor(rule, 4);
    let cons = |name: &str| -> BTreeSet<String> { g.consumers_of(name).into_iter().map(|(d, _)| d).collect() };
    let expect = |cx: &mut Ctx, name: &str, want: &[&str]| {
        let got = cons(name);
        let want: BTreeSet<String> = want.iter().map(|s| s.to_string()).collect();
        if got == want {
            cx.ok(rule, &format!("{} is consumed by {:?}", name, got));
        } else {
            cx.fail(rule, &format!("{}/consumers/{}", rule, name), "parser/src/python.lalrpop", &format!("{} is consumed by {:?}, expected {:?}: a new consumer bypasses the validation attached to the known ones", name, got, want));
        }
    };
    expect(cx, "ParameterList", &["Parameters", "LambdaDef"]);
    expect(cx, "FunctionArgument", &["ArgumentList"]);
    expect(cx, "ArgumentList", &["AtomExpr2", "ClassDef"]);
    match g.def("ArgumentList") {
        Some(d) if d.alts.len() == 1 => {
            let a = &d.alts[0];
            let code: String = a.action.as_ref().map(|x| x.code.chars().filter(|c| !c.is_whitespace()).collect()).unwrap_or_default();
            let bind = a.syms.first().and_then(|s| s.binding.clone()).unwrap_or_default();
            if a.action.as_ref().map_or(false, |x| x.fallible) && code.contains(&format!("parse_args({})?", bind)) {
                cx.ok(rule, "ArgumentList: parse_args(e)? on the whole argument list");
            } else {
                cx.fail(rule, &format!("{}/ArgumentList/parse_args", rule), &lal(a), "ArgumentList does not pass its arguments through parse_args(..)?");
            }
        }
        _ => cx.anchor_missing(rule, "ArgumentList (single alternative)"),
    }
}

fn validator_bodies(cx: &mut Ctx) {
    let rule = "C04.V3";
    cx.rule(rule, "validate_arguments chains ALL parameter-carrying fields of Arguments (posonlyargs, args, kwonlyargs, vararg, kwarg — compared with the struct definition) into one name set and returns DuplicateArgumentError when insert reports a duplicate; validate_pos_params scans posonlyargs chained with args once: skip the run without defaults, skip the run with defaults, any further parameter is a DefaultArgumentError");
    cx.floor(rule, 7);
    let f = match sm::load(&cx.repo, "parser/src/function.rs") {
        Ok(s) => s,
        Err(e) => return cx.anchor_missing(rule, &e),
    };
    let generic = match sm::load(&cx.repo, "ast/src/gen/generic.rs") {
        Ok(s) => s,
        Err(e) => return cx.anchor_missing(rule, &e),
    };
    let model = crate::astmodel::load(&generic);
    let Some(va) = f.free_fns("validate_arguments").into_iter().next() else { return cx.anchor_missing(rule, "validate_arguments") };
    let t = sm::tsx(&va.block);
    let arg_fields: Vec<String> = model.structs.get("Arguments").map(|s| s.fields.iter().filter(|f| f.reaches.iter().any(|r| r == "Arg" || r == "ArgWithDefault")).map(|f| f.name.clone()).collect()).unwrap_or_default();
    if arg_fields.len() != 5 {
        cx.fail(rule, &format!("{}/struct", rule), &generic.rel, &format!("Arguments has parameter-carrying fields {:?} (5 expected)", arg_fields));
    }
    // the loop's iterator chain
    let mut chain_text = String::new();
    sm::for_each_expr_in_block(&va.block, |e| {
        if let syn::Expr::ForLoop(fl) = e {
            chain_text = sm::tsc(&fl.expr);
        }
    });
    for fld in &arg_fields {
        // each field must be read from `arguments.<field>` and its local must appear in the chain
        let read = t.contains(&format!("arguments.{}.iter()", fld)) || t.contains(&format!("arguments.{}.as_deref()", fld));
        let in_chain = chain_text.contains(&format!("chain({})", fld)) || chain_text.starts_with(&format!("{}.chain(", fld));
        if read && in_chain {
            cx.ok(rule, &format!("validate_arguments covers `{}`", fld));
        } else {
            cx.fail(rule, &format!("{}/validate_arguments/{}", rule, fld), &f.loc(va), &format!("validate_arguments does not include `{}` in the checked names: a duplicate there is accepted", fld));
        }
    }
    if t.contains("if!all_arg_names.insert(arg_name){returnErr(LexicalError{error:LexicalErrorType::DuplicateArgumentError(arg_name.to_string()),location:range.start()});}") && t.contains("letarg_name=arg.arg.as_str();") && t.contains("letrange=arg.range;") {
        cx.ok(rule, "duplicate => Err(DuplicateArgumentError(name)) at the parameter's start");
    } else {
        cx.fail(rule, &format!("{}/validate_arguments/error", rule), &f.loc(va), "validate_arguments does not return DuplicateArgumentError at the duplicate parameter's start when insert() fails");
    }
    if sm::tsc(va).matches("returnErr(").count() == 1 && t.ends_with("Ok(())}") {
        cx.ok(rule, "validate_arguments: one error exit, otherwise Ok(())");
    } else {
        cx.fail(rule, &format!("{}/validate_arguments/exits", rule), &f.loc(va), "validate_arguments has unexpected exits");
    }
    let Some(vp) = f.free_fns("validate_pos_params").into_iter().next() else { return cx.anchor_missing(rule, "validate_pos_params") };
    // interpreted over every pair of (positional-only, positional) parameter lists with up to 3 parameters each,
    // each parameter with or without a default: the first parameter without a default that follows one with a
    // default is rejected with DefaultArgumentError at its own start; otherwise Ok(())
    {
        use crate::eval::{Machine, V};
        let methods = |recv: &V, name: &str, _a: &[V]| -> Option<V> {
            match (recv, name) {
                (V::Rec(m), "start") => m.get("start").cloned(),
                _ => None,
            }
        };
        let param = |id: i128, has_default: bool| -> V {
            let mut range = BTreeMap::new();
            range.insert("start".to_string(), V::Int(id));
            let mut def = BTreeMap::new();
            def.insert("range".to_string(), V::Rec(range));
            let mut p = BTreeMap::new();
            p.insert("def".to_string(), V::Rec(def));
            p.insert("default".to_string(), V::Opt(if has_default { Some(Box::new(V::Unit)) } else { None }));
            V::Rec(p)
        };
        let pname = vp.sig.inputs.first().and_then(|a| if let syn::FnArg::Typed(pt) = a { Some(sm::tsc(&pt.pat)) } else { None }).unwrap_or_else(|| "args".into());
        let mut bad = vec![];
        let mut n = 0;
        for la in 0..=3usize {
            for lb in 0..=3usize {
                for mask in 0..(1u32 << (la + lb)) {
                    let flags: Vec<bool> = (0..la + lb).map(|i| mask & (1 << i) != 0).collect();
                    let all: Vec<V> = flags.iter().enumerate().map(|(i, d)| param(100 + i as i128, *d)).collect();
                    let want: Option<i128> = {
                        let mut seen = false;
                        let mut w = None;
                        for (i, d) in flags.iter().enumerate() {
                            if *d {
                                seen = true;
                            } else if seen {
                                w = Some(100 + i as i128);
                                break;
                            }
                        }
                        w
                    };
                    let mut m = Machine::new(&methods);
                    m.set(&pname, V::Tuple(vec![V::List(all[..la].to_vec()), V::List(all[la..].to_vec())]));
                    n += 1;
                    let got = m.eval_fn_body(&vp.block);
                    let ok = match (&got, want) {
                        (Ok(V::Unit), None) => true,
                        (Ok(V::Tuple(t)), None) if t.is_empty() => true,
                        (Ok(V::Enum(e)), Some(w)) => e.starts_with("Err(") && e.contains("DefaultArgumentError") && e.contains(&format!("location:Int({})", w)),
                        _ => false,
                    };
                    if !ok && bad.len() < 4 {
                        bad.push(format!("defaults {:?} split {}+{} -> {:?} (expected {})", flags, la, lb, got, want.map_or("Ok(())".to_string(), |w| format!("DefaultArgumentError at parameter {}", w - 100))));
                    }
                    if !ok && bad.len() >= 4 {
                        break;
                    }
                }
            }
        }
        if bad.is_empty() {
            cx.ok(rule, &format!("validate_pos_params interpreted on {} parameter-list shapes: the first non-default parameter after a default one (across `/`) is rejected with DefaultArgumentError at its start", n));
        } else {
            cx.fail(rule, &format!("{}/validate_pos_params/scan", rule), &f.loc(vp), &format!("validate_pos_params does not reject exactly the first non-default parameter that follows a default one (positional-only and positional parameters form one sequence): {}", bad.join("; ")));
        }
    }
}

fn parse_args_rules(cx: &mut Ctx) {
    let rule = "C04.V4";
    cx.rule(rule, "parse_args: the three error exits exist under their conditions (repeated keyword name => DuplicateKeywordArgumentError; positional after keyword and not starred => PositionalArgumentError; positional/starred after ** => UnpackedArgumentError), every named keyword is recorded in the name set and every ** sets double_starred");
    cx.floor(rule, 5);
    let f = match sm::load(&cx.repo, "parser/src/function.rs") {
        Ok(s) => s,
        Err(e) => return cx.anchor_missing(rule, &e),
    };
    let Some(pa) = f.free_fns("parse_args").into_iter().next() else { return cx.anchor_missing(rule, "parse_args") };
    let t = sm::tsx(&pa.block);
    let ex = sm::exits(&pa.block);
    let has = |x: &sm::Exit, needle: &str| x.conds.iter().any(|c| c.contains(needle));
    let starred_test = |x: &sm::Exit| x.conds.iter().any(|c| {
        let c = c.replace("is_starred(&value)", "value.is_starred_expr()");
        c == "!keywords.is_empty()&&!value.is_starred_expr()"
    });
    let checks: [(&str, bool, &str); 5] = [
        ("dup-keyword", ex.iter().any(|x| x.result.contains("DuplicateKeywordArgumentError(keyword_name.to_string()") && x.result.contains("location:start") && has(x, "keyword_names.contains(keyword_name)") && has(x, "name~Some((start,end,name))")), "a repeated keyword argument is rejected with DuplicateKeywordArgumentError at the keyword's start"),
        ("record-keyword", t.contains("keyword_names.insert(keyword_name.clone());"), "every named keyword is inserted into keyword_names"),
        ("double-star", {
            let mut ok = false;
            sm::for_each_expr_in_block(&pa.block, |e| {
                if let Some((scrut, brs)) = lr::branches(e) {
                    if scrut == "&name" || scrut == "name" {
                        for b in &brs {
                            let only: String = b.body.iter().map(|x| sm::tsc(*x)).chain(b.tail.iter().map(|x| sm::tsc(*x))).collect();
                            if matches!(b.pat, lr::CPat::Wild | lr::CPat::NoneP) && only.trim_end_matches(';') == "double_starred=true" {
                                ok = true;
                            }
                        }
                    }
                }
            });
            ok && t.matches("double_starred=").count() == 2
        }, "a `**` argument (name None) sets double_starred (and nothing resets it)"),
        ("positional-after-keyword", ex.iter().any(|x| x.result.contains("LexicalErrorType::PositionalArgumentError") && x.result.contains("location:value.start()") && (has(x, "name~None") || has(x, "name~_")) && starred_test(x)), "a positional (non-starred) argument after a keyword argument is rejected"),
        ("unpack-after-double-star", ex.iter().any(|x| x.result.contains("LexicalErrorType::UnpackedArgumentError") && x.result.contains("location:value.start()") && (has(x, "name~None") || has(x, "name~_")) && x.conds.iter().any(|c| c == "double_starred")), "any positional/starred argument after `**` is rejected"),
    ];
    for (key, ok, what) in checks {
        if ok {
            cx.ok(rule, &format!("parse_args: {}", what));
        } else {
            cx.fail(rule, &format!("{}/{}", rule, key), &f.loc(pa), &format!("parse_args: missing or altered: {}", what));
        }
    }
    if f.free_fns("is_starred").into_iter().next().map_or(false, |s| sm::tsx(&s.block) != "{exp.is_starred_expr()}") {
        cx.fail(rule, &format!("{}/is_starred", rule), &f.rel, "is_starred is not exp.is_starred_expr()");
    }
}

fn fallible_actions(cx: &mut Ctx, g: &Grammar) {
    let rule = "C04.V5";
    cx.rule(rule, "the grammar-level rules are enforced by fallible actions that return Err under a condition over the stated bindings: a bare `*` with nothing after it (ParameterListStarArgs), a parenthesised lone starred expression and a parenthesised `**` expression (Atom), and `as _` in a pattern (AsPattern); each error's location is a position inside the construct");
    cx.floor(rule, 4);
    // (nonterminal, decisions that must hold on the error path, message, location text, key, description); the error
    // may leave through `Err(..)?`, `return Err(..)` or as the value of a branch
    let sites: [(&str, &[&str], &str, &str, &str, &str); 4] = [
        ("ParameterListStarArgs", &["va.is_none()&&kwonlyargs.is_empty()&&kwarg.is_none()"], "named arguments must follow bare *", "location", "bare-star", "bare `*` must be followed by a named parameter"),
        ("Atom", &["left.is_none()&&right.is_empty()&&trailing_comma.is_none()", "mid.is_starred_expr()"], "cannot use starred expression here", "location:mid.start()", "paren-starred", "`(*x)` is rejected"),
        ("Atom", &[], "cannot use double starred expression here", "location", "paren-double-starred", "`(**x)` is rejected"),
        ("AsPattern", &["name.as_str()==\"_\""], "cannot use '_' as a target", "location", "as-underscore", "`as _` is rejected"),
    ];
    for (dname, conds, msg, locfrag, key, what) in sites {
        let mut found = false;
        if let Some(d) = g.def(dname) {
            for a in &d.alts {
                let Some(act) = &a.action else { continue };
                let Some(e) = &act.expr else { continue };
                let blk = syn::Block { brace_token: Default::default(), stmts: vec![syn::Stmt::Expr(e.clone(), None)] };
                let ex = sm::exits(&blk);
                let hit = ex.iter().any(|x| {
                    x.result.starts_with("Err(") && x.result.contains(&format!("\"{}\"", msg)) && x.result.contains(locfrag) && conds.iter().all(|c| x.conds.iter().any(|xc| xc == c || xc == &format!("{}~true", c)))
                });
                if hit {
                    found = true;
                    if act.fallible {
                        cx.ok(rule, &format!("{}: {}", alt_key(d, a), what));
                    } else {
                        cx.fail(rule, &format!("{}/{}/not-fallible", rule, key), &lal(a), "the action is not fallible (=>?)");
                    }
                }
            }
        }
        if !found {
            cx.fail(rule, &format!("{}/{}", rule, key), "parser/src/python.lalrpop", &format!("{}: the error branch enforcing \"{}\" is missing or its condition changed", dname, what));
        }
    }
    // the `(**x)` alternative must always fail (no Ok path)
    if let Some(d) = g.def("Atom") {
        for a in &d.alts {
            let has = a.syms.iter().any(|s| matches!(&s.kind, SymKind::Term(t) if t == "**"));
            if has {
                let code: String = a.action.as_ref().map(|x| x.code.chars().filter(|c| !c.is_whitespace()).collect()).unwrap_or_default();
                if code.contains("Ok(") {
                    cx.fail(rule, &format!("{}/paren-double-starred/ok-path", rule), &lal(a), "the parenthesised `**` alternative has a success path");
                }
            }
        }
    }
}

fn bracket_arms(cx: &mut Ctx) {
    let rule = "C04.L1";
    cx.rule(rule, "sibling agreement of the bracket arms: each of ( [ { emits its token and then increments nesting; each of ) ] } emits its token, returns Err(NestingError) when nesting == 0 BEFORE decrementing, then decrements; end of input with nesting > 0 is Err(Eof)");
    cx.floor(rule, 7);
    let Some(lx) = lr::load_lexer(cx, rule) else { return };
    let Some((_, m)) = lr::consume_character_arms(&lx) else { return cx.anchor_missing(rule, "consume_character") };
    let open = [('(', "Lpar"), ('[', "Lsqb"), ('{', "Lbrace")];
    let close = [(')', "Rpar"), (']', "Rsqb"), ('}', "Rbrace")];
    // abstract execution of each bracket arm (private helpers are interpreted in place)
    let mut arms: BTreeMap<char, lr::ArmResult> = BTreeMap::new();
    let mut reached_writes: BTreeSet<String> = BTreeSet::new();
    for arm in &m.arms {
        let (chars, res) = lr::interp_arm(arm);
        for op in &res.nesting_ops {
            if let Some(line) = op.split('@').nth(2) {
                reached_writes.insert(line.trim_end_matches("/nz").to_string());
            }
        }
        if chars.len() == 1 {
            arms.insert(chars[0], res);
        }
    }
    for (c, tok) in open {
        match arms.get(&c) {
            Some(r) => {
                let emit_ok = r.emits.len() == 1 && r.emits[0].tok == tok && r.emits[0].spelled == c.to_string() && r.emits[0].s_ok && r.emits[0].e_ok;
                let ops: Vec<String> = r.nesting_ops.iter().map(|o| o.split('@').take(2).collect::<Vec<_>>().join("@")).collect();
                if emit_ok && ops == ["+=@1"] && r.errors.is_empty() && r.unrecognised.is_empty() {
                    cx.ok(rule, &format!("`{}`: emit {}, nesting += 1", c, tok));
                } else {
                    cx.fail(rule, &format!("{}/open/{}", rule, tok), &lx.rel, &format!("arm `{}`: emits {:?}, nesting operations {:?}, errors {:?}; its siblings are `emit; nesting += 1`", c, r.emits.iter().map(|e| e.tok.clone()).collect::<Vec<_>>(), ops, r.errors));
                }
            }
            None => cx.fail(rule, &format!("{}/open/{}/missing", rule, tok), &lx.rel, &format!("no arm for `{}`", c)),
        }
    }
    for (c, tok) in close {
        match arms.get(&c) {
            Some(r) => {
                let emit_ok = r.emits.len() == 1 && r.emits[0].tok == tok && r.emits[0].spelled == c.to_string() && r.emits[0].s_ok && r.emits[0].e_ok;
                let err_ok = r.errors == vec![("NestingError".to_string(), 1usize)];
                // the decrement happens after the character is consumed, on the path where nesting == 0 is excluded
                let dec_ok = r.nesting_ops.len() == 1 && r.nesting_ops[0].starts_with("-=@1@") && r.nesting_ops[0].ends_with("/nz");
                if emit_ok && err_ok && dec_ok && r.unrecognised.is_empty() {
                    cx.ok(rule, &format!("`{}`: emit {}, nesting == 0 => Err(NestingError), nesting -= 1", c, tok));
                } else {
                    cx.fail(rule, &format!("{}/close/{}", rule, tok), &lx.rel, &format!("arm `{}`: emits {:?}, errors {:?}, nesting operations {:?}: it does not test nesting == 0 => Err(NestingError) before decrementing as its siblings do", c, r.emits.iter().map(|e| e.tok.clone()).collect::<Vec<_>>(), r.errors, r.nesting_ops));
                }
            }
            None => cx.fail(rule, &format!("{}/close/{}/missing", rule, tok), &lx.rel, &format!("no arm for `{}`", c)),
        }
    }
    match lr::lexer_method(&lx, "consume_normal") {
        Some(f) => {
            let t = sm::tsc(&f.block);
            let positive = ["if0<self.nesting{", "ifself.nesting!=0{", "if0!=self.nesting{", "if1<=self.nesting{"];
            let ok = positive.iter().any(|p| t.split(p).nth(1).map_or(false, |rest| rest.starts_with("returnErr(LexicalError{") && rest.split('}').next().map_or(false, |x| x.contains("LexicalErrorType::Eof"))));
            if ok {
                cx.ok(rule, "end of input inside brackets => Err(Eof)");
            } else {
                cx.fail(rule, &format!("{}/eof", rule), &lx.loc(f), "end of input with open brackets is not reported as Err(Eof)");
            }
        }
        None => cx.anchor_missing(rule, "consume_normal"),
    }
    // nesting is written nowhere else: every syntactic write is one the arm interpreter reached
    let mut writes: BTreeSet<String> = BTreeSet::new();
    let mut assigns = 0;
    for (f, _) in lr::lexer_methods(&lx) {
        sm::for_each_expr_in_block(&f.block, |e| match e {
            syn::Expr::Binary(b) if sm::tsc(&b.left) == "self.nesting" && matches!(b.op, syn::BinOp::AddAssign(_) | syn::BinOp::SubAssign(_)) => {
                writes.insert(sm::line(syn::spanned::Spanned::span(&b.op)).to_string());
            }
            syn::Expr::Assign(a) if sm::tsc(&a.left) == "self.nesting" => assigns += 1,
            _ => {}
        });
    }
    if writes.is_subset(&reached_writes) && assigns == 0 && !writes.is_empty() {
        cx.ok(rule, &format!("nesting is written only in the bracket arms ({} sites)", writes.len()));
    } else {
        cx.fail(rule, &format!("{}/writers", rule), &lx.rel, &format!("nesting is written at lines {:?} of lexer.rs, of which the bracket arms reach {:?} ({} direct assignments)", writes, reached_writes, assigns));
    }
}

/// Shared rule (C04.L2, C08.T1): compare_strict interpreted over the 3 x 3 partition of (tabs, spaces) directions.
pub fn compare_strict_partition(cx: &mut Ctx, rule: &str, lx: &Src) {
    match lx.method("IndentationLevel", "compare_strict") {
        None => cx.anchor_missing(rule, "IndentationLevel::compare_strict"),
        Some(m) => {
            // interpreted over the 3 x 3 partition (tabs <,=,> ; spaces <,=,>)
            let methods = |recv: &crate::eval::V, name: &str, args: &[crate::eval::V]| -> Option<crate::eval::V> {
                match (recv, name, args.first()) {
                    (crate::eval::V::Int(a), "cmp", Some(crate::eval::V::Int(b))) => Some(crate::eval::V::Enum(format!("Ordering::{}", match a.cmp(b) { std::cmp::Ordering::Less => "Less", std::cmp::Ordering::Equal => "Equal", std::cmp::Ordering::Greater => "Greater" }))),
                    _ => None,
                }
            };
            let mut bad = vec![];
            for (dt, tname) in [(-1i128, "Less"), (0, "Equal"), (1, "Greater")] {
                for (ds, sname) in [(-1i128, "Less"), (0, "Equal"), (1, "Greater")] {
                    let mut mch = crate::eval::Machine::new(&methods);
                    mch.set("self.tabs", crate::eval::V::Int(5 + dt));
                    mch.set("other.tabs", crate::eval::V::Int(5));
                    mch.set("self.spaces", crate::eval::V::Int(5 + ds));
                    mch.set("other.spaces", crate::eval::V::Int(5));
                    mch.set("location", crate::eval::V::Unit);
                    let want: Result<&str, ()> = match (dt, ds) {
                        (0, _) => Ok(sname),
                        (1, s) if s >= 0 => Ok("Greater"),
                        (-1, s) if s <= 0 => Ok("Less"),
                        _ => Err(()),
                    };
                    let got = mch.eval_block(&m.block);
                    let ok = match (&got, want) {
                        (Ok(crate::eval::V::Enum(e)), Ok(w)) => e == &format!("Ordering::{}", w),
                        (Ok(crate::eval::V::Enum(e)), Err(())) => e.starts_with("Err(") && e.contains("LexicalErrorType::TabError"),
                        _ => false,
                    };
                    if !ok {
                        bad.push(format!("tabs {} / spaces {} -> {:?}", tname, sname, got));
                    }
                }
            }
            if bad.is_empty() {
                cx.ok(rule, "compare_strict interpreted over the 3x3 partition: equal tabs => compare spaces; tabs and spaces pointing in opposite directions => TabError; otherwise the direction of the tabs");
            } else {
                cx.fail(rule, &format!("{}/compare_strict", rule), &lx.loc(m), &format!("compare_strict does not return TabError in both mixed-direction branches (or compares the wrong fields): {}", bad.join("; ")));
            }
        }
    }
}

fn indentation_errors(cx: &mut Ctx) {
    let rule = "C04.L2";
    cx.rule(rule, "indentation rules: levels are compared with compare_strict (TabError when tabs and spaces disagree in direction, both branches); the dedent loop pops while Less, stops only on Equal and returns IndentationError on Greater");
    cx.floor(rule, 3);
    let Some(lx) = lr::load_lexer(cx, rule) else { return };
    compare_strict_partition(cx, rule, &lx);
    match lr::lexer_method(&lx, "handle_indentations") {
        None => cx.anchor_missing(rule, "handle_indentations"),
        Some(m) => {
            let t = sm::tsx(&m.block);
            // both comparisons: compare_strict(<indentations.current()>, get_pos())? — directly or through a local
            // every compare_strict call: receiver = the measured indentation, arguments = (indentations.current() —
            // directly or through a local — , get_pos()), result propagated with `?`
            let mut current_locals: BTreeSet<String> = BTreeSet::new();
            sm::for_each_stmt_in_block(&m.block, &mut |st| {
                if let syn::Stmt::Local(l) = st {
                    if let (Some(init), syn::Pat::Ident(pi)) = (&l.init, &l.pat) {
                        if sm::tsc(&init.expr) == "self.indentations.current()" {
                            current_locals.insert(pi.ident.to_string());
                        }
                    }
                }
            });
            let mut pos_locals: BTreeSet<String> = BTreeSet::new();
            sm::for_each_stmt_in_block(&m.block, &mut |st| {
                if let syn::Stmt::Local(l) = st {
                    if let (Some(init), syn::Pat::Ident(pi)) = (&l.init, &l.pat) {
                        if sm::tsc(&init.expr) == "self.get_pos()" {
                            pos_locals.insert(pi.ident.to_string());
                        }
                    }
                }
            });
            let mut good = 0;
            let mut all = 0;
            sm::for_each_expr_in_block(&m.block, |e| {
                if let syn::Expr::Try(tr) = e {
                    // `x.compare_strict(..)?` or `x.compare_strict(..).map_err(..)?`
                    let mut cur: &syn::Expr = &tr.expr;
                    while let syn::Expr::MethodCall(mc) = cur {
                        if mc.method == "map_err" {
                            cur = &mc.receiver;
                        } else {
                            break;
                        }
                    }
                    if let syn::Expr::MethodCall(mc) = cur {
                        if mc.method == "compare_strict" {
                            let a0 = mc.args.first().map(|a| sm::tsc(a)).unwrap_or_default();
                            let a1 = mc.args.iter().nth(1).map(|a| sm::tsc(a));
                            let pos_ok = a1.as_deref().map_or(true, |a| a == "self.get_pos()" || pos_locals.contains(a));
                            if (a0 == "self.indentations.current()" || current_locals.contains(&a0)) && pos_ok {
                                good += 1;
                            }
                        }
                    }
                }
                if let syn::Expr::MethodCall(mc) = e {
                    if mc.method == "compare_strict" {
                        all += 1;
                    }
                }
            });
            let _ = &t;
            if good == all && all >= 2 {
                cx.ok(rule, "both comparisons go through compare_strict(indentations.current(), get_pos())? (errors propagate)");
            } else {
                cx.fail(rule, &format!("{}/uses-compare_strict", rule), &lx.loc(m), "handle_indentations does not compare both times with compare_strict(indentations.current(), get_pos())?");
            }
            // the dedent loop: a `loop` whose decision on the ordering has exactly: Less => pop + Dedent, Equal => break, Greater => Err(IndentationError)
            let mut loop_ok = false;
            sm::for_each_expr_in_block(&m.block, |e| {
                if let syn::Expr::Loop(l) = e {
                    sm::for_each_expr_in_block(&l.body, |x| {
                        if let syn::Expr::Match(mm) = x {
                            let mut arms: BTreeMap<String, String> = BTreeMap::new();
                            for a in &mm.arms {
                                arms.insert(sm::tsc(&a.pat), sm::tsc(sm::unblock(&a.body)).trim_end_matches(';').to_string());
                            }
                            let less = arms.get("Ordering::Less").map_or(false, |b| b.starts_with("{self.indentations.pop();") && b.contains("self.emit((Tok::Dedent,"));
                            let equal = arms.get("Ordering::Equal").map_or(false, |b| b == "break" || b == "{break;}");
                            let greater = arms.get("Ordering::Greater").map_or(false, |b| b.contains("returnErr(LexicalError{") && b.contains("LexicalErrorType::IndentationError"));
                            if arms.len() == 3 && less && equal && greater {
                                loop_ok = true;
                            }
                        }
                    });
                }
            });
            // the same decision in a `while COND { match .. }`: the loop can then also end through COND, so the statement
            // after it must compare once more and return IndentationError on Greater
            if !loop_ok {
                struct B<'a> {
                    blocks: Vec<&'a syn::Block>,
                }
                impl<'a> syn::visit::Visit<'a> for B<'a> {
                    fn visit_block(&mut self, b: &'a syn::Block) {
                        self.blocks.push(b);
                        syn::visit::visit_block(self, b);
                    }
                }
                let mut bv = B { blocks: vec![] };
                syn::visit::Visit::visit_block(&mut bv, &m.block);
                for b in bv.blocks {
                    for w in b.stmts.windows(2) {
                        let syn::Stmt::Expr(syn::Expr::While(wl), _) = &w[0] else { continue };
                        let mut inner_ok = false;
                        sm::for_each_expr_in_block(&wl.body, |x| {
                            if let syn::Expr::Match(mm) = x {
                                let mut arms: BTreeMap<String, String> = BTreeMap::new();
                                for a in &mm.arms {
                                    arms.insert(sm::tsc(&a.pat), sm::tsc(sm::unblock(&a.body)).trim_end_matches(';').to_string());
                                }
                                let less = arms.get("Ordering::Less").map_or(false, |b| b.starts_with("{self.indentations.pop();") && b.contains("self.emit((Tok::Dedent,"));
                                let equal = arms.get("Ordering::Equal").map_or(false, |b| b == "break" || b == "{break;}");
                                let greater = arms.get("Ordering::Greater").map_or(false, |b| b.contains("returnErr(LexicalError{") && b.contains("LexicalErrorType::IndentationError"));
                                if arms.len() == 3 && less && equal && greater && sm::tsc(&mm.expr).contains("compare_strict(") {
                                    inner_ok = true;
                                }
                            }
                        });
                        let after = sm::tsc(&w[1]);
                        let recheck = after.starts_with("if") && after.contains("compare_strict(") && after.contains("Ordering::Greater") && after.contains("returnErr(LexicalError{") && after.contains("LexicalErrorType::IndentationError");
                        if inner_ok && recheck {
                            loop_ok = true;
                        }
                    }
                }
            }
            if loop_ok {
                cx.ok(rule, "dedent loop: Less => pop+Dedent, Equal => break, Greater => Err(IndentationError)");
            } else {
                cx.fail(rule, &format!("{}/dedent-loop", rule), &lx.loc(m), "the dedent loop does not end only on Equal / return IndentationError on Greater");
            }
        }
    }
}

fn lexer_error_sites(cx: &mut Ctx) {
    let rule = "C04.L3";
    cx.rule(rule, "lexer error sites: a character that cannot begin a token => Err(UnrecognizedToken) (default arm, non-emoji); `!` not followed by `=` => Err(UnrecognizedToken{'!'}); backslash not followed by a line break => Err(LineContinuationError); backslash-newline at end of input => Err(Eof); unterminated string => Err on both the end-of-line and the end-of-input path");
    cx.floor(rule, 6);
    let Some(lx) = lr::load_lexer(cx, rule) else { return };
    let Some((_, m)) = lr::consume_character_arms(&lx) else { return cx.anchor_missing(rule, "consume_character") };
    let mut seen: BTreeMap<String, Vec<(String, usize)>> = BTreeMap::new();
    for arm in &m.arms {
        let (chars, res) = lr::interp_arm(arm);
        let name: String = if chars.is_empty() { sm::tsc(&arm.pat) } else { chars.iter().collect() };
        seen.insert(name, res.errors.clone());
    }
    let want: [(&str, &str, usize, &str); 4] = [
        ("!", "UnrecognizedToken", 1, "`!` without `=`"),
        ("\\", "LineContinuationError", 1, "backslash not followed by a line break"),
        ("\\", "Eof", 2, "backslash-newline at end of input"),
        ("_", "UnrecognizedToken", 1, "character that cannot begin a token"),
    ];
    for (arm, kind, k, what) in want {
        let ok = seen.get(arm).map_or(false, |v| v.iter().any(|(e, n)| e == kind && *n == k));
        if ok {
            cx.ok(rule, &format!("{} => Err({})", what, kind));
        } else {
            cx.fail(rule, &format!("{}/{}/{}", rule, arm, kind), &lx.rel, &format!("{}: no Err({}) after consuming {} character(s) in arm `{}` (got {:?})", what, kind, k, arm, seen.get(arm)));
        }
    }
    // default arm: the error is the else-branch of is_emoji_presentation
    let default = m.arms.iter().find(|a| sm::tsc(&a.pat) == "_").map(|a| sm::tsc(&a.body)).unwrap_or_default();
    if !default.trim_start_matches('{').starts_with("ifis_emoji_presentation(c){") || !default.contains("}else{letc=self.next_char();returnErr(LexicalError{error:LexicalErrorType::UnrecognizedToken{tok:c.unwrap()},location:self.get_pos()});}") {
        cx.fail(rule, &format!("{}/default-arm", rule), &lx.rel, "the default arm does not reject every non-emoji character with UnrecognizedToken");
    }
    // strings
    match lr::lexer_method(&lx, "lex_string") {
        None => cx.anchor_missing(rule, "lex_string"),
        Some(f) => {
            let t = sm::tsx(&f.block);
            let eol = t.contains("ifc=='\\n'&&!triple_quoted{returnErr(LexicalError{error:LexicalErrorType::OtherError(\"EOL while scanning string literal\".to_owned()),location:self.get_pos()});}");
            let eof = t.contains("_=>returnErr(LexicalError{error:iftriple_quoted{LexicalErrorType::Eof}else{LexicalErrorType::StringError},location:self.get_pos()}),");
            if eol {
                cx.ok(rule, "unterminated single-quoted string at end of line => Err");
            } else {
                cx.fail(rule, &format!("{}/string-eol", rule), &lx.loc(f), "lex_string does not reject a line break inside a single-quoted string");
            }
            if eof {
                cx.ok(rule, "unterminated string at end of input => Err");
            } else {
                cx.fail(rule, &format!("{}/string-eof", rule), &lx.loc(f), "lex_string does not reject end of input inside a string");
            }
        }
    }
}

fn numeric_shape(cx: &mut Ctx) {
    let rule = "C04.N1";
    cx.rule(rule, "numeric shape checks: `._`, `e_` and `e+_`/`e-_` are rejected before the character is consumed; a decimal literal with a leading zero and a non-zero value is rejected; an empty digit run after a radix prefix surfaces as the big-integer parse error mapped to a LexicalError at the literal's start; underscores are consumed only between digits");
    cx.floor(rule, 6);
    let Some(lx) = lr::load_lexer(cx, rule) else { return };
    let Some(f) = lr::lexer_method(&lx, "lex_normal_number") else { return cx.anchor_missing(rule, "lex_normal_number") };
    let t = sm::tsx(&f.block);
    // each of the branches that consume '.', the exponent marker and the exponent sign starts with a look-ahead on
    // window[1] that returns Err("Invalid Syntax") for '_' BEFORE anything is consumed
    let classes: [(&str, Vec<char>); 3] = [("._", vec!['.']), ("e_", vec!['E', 'e']), ("e+_", vec!['+', '-'])];
    let mut seen: BTreeSet<&str> = BTreeSet::new();
    sm::for_each_expr_in_block(&f.block, |e| {
        let Some((scrut, brs)) = lr::branches(e) else { return };
        if scrut != "self.window[0]" {
            return;
        }
        for b in &brs {
            let lr::CPat::Chars(cs) = &b.pat else { continue };
            for (name, want) in &classes {
                let want_set: BTreeSet<char> = want.iter().copied().collect();
                if *cs != want_set {
                    continue;
                }
                let first_consume = b.body.iter().position(|st| sm::tsc(*st).contains("self.next_char()"));
                let guard_at = b.body.iter().position(|st| match st {
                    syn::Stmt::Expr(x, _) => lr::branches(x).map_or(false, |(sc, bb)| {
                        sc == "self.window[1]" && bb.first().map_or(false, |g| g.pat == lr::CPat::Chars(['_'].into_iter().collect()) && {
                            let body: String = g.body.iter().map(|s| sm::tsc(*s)).chain(g.tail.iter().map(|s| sm::tsc(*s))).collect();
                            body.starts_with("returnErr(LexicalError{") && body.contains("\"Invalid Syntax\"")
                        })
                    }),
                    _ => false,
                });
                if let (Some(g), Some(c)) = (guard_at, first_consume) {
                    if g < c {
                        seen.insert(name);
                    }
                }
            }
        }
    });
    for (name, _) in &classes {
        if seen.contains(name) {
            cx.ok(rule, &format!("`{}` rejected before consuming", name));
        } else {
            cx.fail(rule, &format!("{}/{}", rule, name), &lx.loc(f), &format!("the `{}` check is missing or no longer precedes the consumption", name));
        }
    }
    leading_zero_rule(cx, rule);
    match lr::lexer_method(&lx, "lex_number_radix") {
        Some(r) if radix_error_mapped(&sm::tsc(&r.block)) => cx.ok(rule, "radix literal: from_str_radix error (incl. empty digit run) mapped to a LexicalError at start_pos"),
        Some(r) => cx.fail(rule, &format!("{}/radix-error", rule), &lx.loc(r), "lex_number_radix does not map the big-integer parse error to a LexicalError at the literal's start"),
        None => cx.anchor_missing(rule, "lex_number_radix"),
    }
    match lr::lexer_method(&lx, "radix_run") {
        Some(r) if sm::tsx(&r.block).contains("ifself.window[0]==Some('_')&&Lexer::is_digit_of_radix(self.window[1],radix){self.next_char();}else{break;}") => cx.ok(rule, "radix_run: `_` is consumed only when a digit of the radix follows"),
        Some(r) => cx.fail(rule, &format!("{}/underscore", rule), &lx.loc(r), "radix_run consumes an underscore that is not followed by a digit of the radix"),
        None => cx.anchor_missing(rule, "radix_run"),
    }
}

fn string_rules(cx: &mut Ctx) {
    let rule = "C04.S1";
    cx.rule(rule, "parse_strings rejects mixing bytes and text before decoding anything; both sites that reject non-ASCII bytes content use the same predicate (!ch.is_ascii()) — sibling agreement of parse_bytes and parse_escaped_char; every f-string error kind of the property's catalogue has a live construction site");
    cx.floor(rule, 12);
    let s = match sm::load(&cx.repo, "parser/src/string.rs") {
        Ok(s) => s,
        Err(e) => return cx.anchor_missing(rule, &e),
    };
    if let Some(ps) = s.free_fns("parse_strings").into_iter().next() {
        let t = sm::tsx(&ps.block);
        let p_mix = t.find("ifhas_bytes&&num_bytes<values.len(){returnErr(LexicalError{error:LexicalErrorType::OtherError(\"cannot mix bytes and nonbytes literals\".to_owned()),location:initial_start});}");
        let p_dec = t.find("parse_string(");
        let defs = t.contains("letnum_bytes=values.iter().filter(|(_,(_,kind,..),_)|kind.is_any_bytes()).count();lethas_bytes=0<num_bytes;");
        // interpreted: for every sequence of literal kinds (text / bytes, length 1..=3) the head of parse_strings
        // either returns the mixing error -- exactly when bytes and non-bytes literals both occur -- before any
        // literal is decoded, or goes on to decode
        let interpreted = (|| -> Result<usize, String> {
            use crate::eval::{Machine, V};
            let pname = ps.sig.inputs.first().and_then(|a| if let syn::FnArg::Typed(pt) = a { Some(sm::tsc(&pt.pat)) } else { None }).ok_or("no parameter")?;
            let kinds = ["String", "Bytes", "FString", "RawBytes", "Unicode"];
            let mut seqs: Vec<Vec<&str>> = vec![];
            for a in kinds {
                seqs.push(vec![a]);
                for b in kinds {
                    seqs.push(vec![a, b]);
                    for c in ["String", "Bytes"] {
                        seqs.push(vec![a, b, c]);
                    }
                }
            }
            let n = seqs.len();
            for seq in seqs {
                let decoded = std::cell::Cell::new(false);
                let methods = |recv: &V, m: &str, _a: &[V]| -> Option<V> {
                    match (recv, m) {
                        (V::Enum(k), "is_any_bytes") => Some(V::Bool(k.ends_with("Bytes"))),
                        (V::Enum(k), "is_any_fstring") => Some(V::Bool(k.ends_with("FString"))),
                        (V::Enum(k), "is_unicode") => Some(V::Bool(k.ends_with("Unicode"))),
                        (V::Enum(k), "is_raw") => Some(V::Bool(k.contains("Raw"))),
                        (V::Unit, "parse_string") => {
                            decoded.set(true);
                            None
                        }
                        _ => None,
                    }
                };
                let items: Vec<V> = seq.iter().enumerate().map(|(i, k)| V::Tuple(vec![V::Int(10 * i as i128), V::Tuple(vec![V::Str("x".into()), V::Enum(format!("StringKind::{}", k)), V::Bool(false)]), V::Int(10 * i as i128 + 5)])).collect();
                let mut mach = Machine::new(&methods);
                mach.set(&pname, V::List(items));
                let ret = mach.run_tolerant(&ps.block.stmts);
                let is_bytes = |k: &str| k.ends_with("Bytes");
                let mixed = seq.iter().any(|k| is_bytes(k)) && seq.iter().any(|k| !is_bytes(k));
                let got_mix_err = matches!(&ret, Some(V::Enum(e)) if e.starts_with("Err(") && e.contains("cannot mix bytes and nonbytes literals"));
                if mixed && (!got_mix_err || decoded.get()) {
                    return Err(format!("kinds {:?}: {}", seq, if decoded.get() { "a literal is decoded before the mixing error" } else { "no mixing error" }));
                }
                if !mixed && got_mix_err {
                    return Err(format!("kinds {:?}: rejected as mixed", seq));
                }
                if mixed {
                    // the error is reported at the start of the first literal
                    if let Some(V::Enum(e)) = &ret {
                        if !e.contains("location:Int(0)") {
                            return Err(format!("kinds {:?}: the mixing error is not located at the first literal's start ({})", seq, e));
                        }
                    }
                }
            }
            Ok(n)
        })();
        let _ = (p_mix, p_dec, defs);
        match &interpreted {
            Ok(n) => {
                cx.unit("kind sequences on which the head of parse_strings was interpreted", *n);
                cx.ok(rule, "mixing bytes and text literals is rejected before any literal is decoded")
            }
            Err(e) => cx.fail(rule, &format!("{}/mixing", rule), &s.loc(ps), &format!("the bytes/text mixing check is missing, altered, or comes after decoding: {}", e)),
        }
    } else {
        cx.anchor_missing(rule, "parse_strings");
    }
    // non-ASCII predicates
    let mut preds: Vec<(String, String)> = vec![];
    for name in ["parse_bytes", "parse_escaped_char"] {
        if let Some(m) = s.method("StringParser", name) {
            // the decision under which the function leaves with the non-ASCII error (whether written as a guard
            // clause or as the else-branch of the positive test)
            for ex in sm::exits(&m.block) {
                if ex.result.contains("bytes can only contain ASCII literal characters") {
                    if let Some(c) = ex.conds.last() {
                        let c = c.strip_prefix("!!").map(|x| x.to_string()).unwrap_or_else(|| c.clone());
                        preds.push((name.to_string(), c));
                    }
                }
            }
        } else {
            cx.anchor_missing(rule, &format!("StringParser::{}", name));
        }
    }
    let want = [("parse_bytes", "!ch.is_ascii()"), ("parse_escaped_char", "self.kind.is_any_bytes()&&!c.is_ascii()")];
    for (name, cond) in want {
        match preds.iter().find(|(n, _)| n == name) {
            Some((_, c)) if c == cond => cx.ok(rule, &format!("{}: non-ASCII content of a bytes literal rejected under `{}`", name, cond)),
            Some((_, c)) => cx.fail(rule, &format!("{}/non-ascii/{}", rule, name), &s.rel, &format!("{} rejects non-ASCII bytes content under `{}`; its sibling uses the is_ascii() test (`{}`): characters U+0080..U+00FF would be accepted", name, c, cond)),
            None => cx.fail(rule, &format!("{}/non-ascii/{}/missing", rule, name), &s.rel, &format!("{} has no non-ASCII rejection", name)),
        }
    }
    // f-string error kinds with a construction site
    let whole = sm::tsx(&s.file);
    let kinds = ["UnclosedLbrace", "InvalidExpression", "InvalidConversionFlag", "EmptyExpression", "MismatchedDelimiter", "ExpressionNestedTooDeeply", "SingleRbrace", "Unmatched", "UnterminatedString"];
    for k in kinds {
        let n = whole.matches(&format!("FStringError::new({}", k)).count() + whole.matches(&format!("FStringError::new(FStringErrorType::{}", k)).count();
        if n >= 1 {
            cx.ok(rule, &format!("FStringErrorType::{}: {} construction site(s)", k, n));
        } else {
            cx.fail(rule, &format!("{}/fstring-kind/{}", rule, k), &s.rel, &format!("no live construction site for FStringErrorType::{}: the f-string rule it reports is no longer enforced", k));
        }
    }
    // nesting limit
    if whole.contains("if2<=nested{returnErr(FStringError::new(ExpressionNestedTooDeeply,self.get_pos()).into());}") {
        cx.ok(rule, "parse_fstring: nested >= 2 => ExpressionNestedTooDeeply");
    } else {
        cx.fail(rule, &format!("{}/nesting-limit", rule), &s.rel, "parse_fstring does not reject nesting >= 2");
    }
}

fn error_kind_mapping(cx: &mut Ctx, g: &Grammar) {
    let rule = "C04.E1";
    cx.rule(rule, "error kind mapping: is_indentation_error names the indentation kinds (IndentationError, an unexpected Indent token, an expected \"Indent\"), is_tab_error exactly TabError and TabsAfterSpaces; the expected-indent detection compares with the terminal's name in the grammar's extern block; every LALRPOP error variant is mapped without a wildcard and keeps its own location");
    cx.floor(rule, 4);
    let p = match sm::load(&cx.repo, "parser/src/parser.rs") {
        Ok(s) => s,
        Err(e) => return cx.anchor_missing(rule, &e),
    };
    let indent_name = g.externs.iter().find(|(_, pat)| pat.replace(' ', "") == "token::Tok::Indent").map(|(t, _)| t.clone());
    if indent_name.as_deref() == Some("Indent") {
        cx.ok(rule, "extern block names the INDENT terminal `Indent`");
    } else {
        cx.fail(rule, &format!("{}/extern-indent", rule), "parser/src/python.lalrpop", &format!("the INDENT terminal is named {:?}; parser.rs compares with \"Indent\"", indent_name));
    }
    match p.method("ParseErrorType", "is_indentation_error") {
        Some(m) if sm::tsx(&m.block) == "{matchself{ParseErrorType::Lexical(LexicalErrorType::IndentationError)=>true,ParseErrorType::UnrecognizedToken(token,expected)=>*token==Tok::Indent||expected.clone()==Some(\"Indent\".to_owned()),_=>false}}" => cx.ok(rule, "is_indentation_error: IndentationError | unexpected Indent | expected \"Indent\""),
        Some(m) => cx.fail(rule, &format!("{}/is_indentation_error", rule), &p.loc(m), "is_indentation_error does not name exactly the indentation kinds"),
        None => cx.anchor_missing(rule, "is_indentation_error"),
    }
    match p.method("ParseErrorType", "is_tab_error") {
        Some(m) if sm::tsx(&m.block) == "{matches!(self,ParseErrorType::Lexical(LexicalErrorType::TabError)|ParseErrorType::Lexical(LexicalErrorType::TabsAfterSpaces))}" => cx.ok(rule, "is_tab_error: TabError | TabsAfterSpaces"),
        Some(m) => cx.fail(rule, &format!("{}/is_tab_error", rule), &p.loc(m), "is_tab_error does not name exactly TabError and TabsAfterSpaces"),
        None => cx.anchor_missing(rule, "is_tab_error"),
    }
    crate::rules::c03::lalrpop_error_mapping(cx, rule, &p);
}

#[allow(dead_code)]
fn _u(_: &Src) {}


/// `let T = self.radix_run(radix); .. BigInt::from_str_radix(&T, radix).map_err(|E| LexicalError { error: OtherError(<E formatted>), location: start_pos })?`
/// whatever the locals T and E are called.
fn radix_error_mapped(t: &str) -> bool {
    let Some(c) = regex::Regex::new(r"let(\w+)=self\.radix_run\(radix\);").unwrap().captures(t) else { return false };
    let text = regex::escape(&c[1]);
    let Some(c2) = regex::Regex::new(&format!(r"BigInt::from_str_radix\(&{},radix\)\.map_err\(\|(\w+)\|", text)).unwrap().captures(t) else { return false };
    let e = regex::escape(&c2[1]);
    let re = format!(r#"BigInt::from_str_radix\(&{text},radix\)\.map_err\(\|{e}\|LexicalError\{{error:LexicalErrorType::OtherError\(format!\("\{{(?:{e}:\?\}}"|:\?\}}",{e})\)\),location:start_pos\}}\)\?"#, text = text, e = e);
    regex::Regex::new(&re).map_or(false, |r| r.is_match(t))
}


/// Leading zeros: `0` followed by more digits is rejected exactly for decimal INTEGER literals with a non-zero value
/// (`007` is an error; `00`, `0_0`, `007j`, `00.5`, `01e1` are legal). Read from the exits of lex_normal_number:
/// the "Invalid Token" exit exists, is taken under `start_is_zero && !value.is_zero()` with `start_is_zero` the test
/// that the literal's first character is `0`, and lies on the branch that produces `Tok::Int` -- not on a path that
/// produces a float or an imaginary literal.
/// `start_is_zero && P` where P, evaluated on digit strings, is true exactly for the non-zero values (P may look at
/// the parsed `value` or at the digits of `value_text`).
fn nonzero_after_leading_zero(cond: &str) -> bool {
    if cond == "start_is_zero&&!value.is_zero()" {
        return true;
    }
    let Some(p) = cond.strip_prefix("start_is_zero&&") else { return false };
    let Ok(e) = syn::parse_str::<syn::Expr>(p) else { return false };
    use crate::eval::{Machine, V};
    let methods = |recv: &V, name: &str, args: &[V]| -> Option<V> {
        match (recv, name) {
            (V::Int(i), "is_zero") => Some(V::Bool(*i == 0)),
            (V::Str(x), "bytes") | (V::Str(x), "as_bytes") => Some(V::List(x.bytes().map(|b| V::Int(b as i128)).collect())),
            (V::Str(x), "chars") => Some(V::List(x.chars().map(|c| V::Char(c as u32)).collect())),
            (V::Str(x), "trim_start_matches") => match args.first() {
                Some(V::Char(c)) => char::from_u32(*c).map(|c| V::Str(x.trim_start_matches(c).to_string())),
                _ => None,
            },
            (V::Str(x), "as_str") => Some(V::Str(x.clone())),
            _ => None,
        }
    };
    for x in ["0", "00", "000", "7", "07", "0070", "10", "100", "0000000000000000000001"] {
        let mut m = Machine::new(&methods);
        m.set("value_text", V::Str(x.to_string()));
        m.set("value", V::Int(x.parse::<i128>().unwrap()));
        let want = x.bytes().any(|b| b != b'0');
        match m.eval(&e) {
            Ok(V::Bool(b)) if b == want => {}
            _ => return false,
        }
    }
    true
}

pub fn leading_zero_rule(cx: &mut Ctx, rule: &str) {
    let Ok(lx) = sm::load(&cx.repo, "parser/src/lexer.rs") else { return cx.anchor_missing(rule, "parser/src/lexer.rs") };
    let Some(f) = lr::lexer_method(&lx, "lex_normal_number") else { return cx.anchor_missing(rule, "lex_normal_number") };
    let t = sm::tsx(&f.block);
    let ex = sm::exits(&f.block);
    let zero_def = t.contains("letstart_is_zero=self.window[0]==Some('0');");
    let bad: Vec<&sm::Exit> = ex.iter().filter(|e| e.result.contains("\"Invalid Token\"")).collect();
    let ints: Vec<&sm::Exit> = ex.iter().filter(|e| e.result.contains("Tok::Int")).collect();
    let others_clean = ex.iter().filter(|e| e.result.contains("Tok::Complex") || e.result.contains("Tok::Float")).all(|e| !e.conds.iter().any(|c| c.contains("start_is_zero")));
    let placed = bad.len() == 1
        && ints.len() == 1
        && bad[0].conds.last().map_or(false, |c| nonzero_after_leading_zero(c))
        && {
            // the integer exit may or may not carry the negated test (guard clause vs if/else)
            let mut ic: Vec<String> = ints[0].conds.clone();
            if ic.last().map_or(false, |c| c == "!start_is_zero&&!value.is_zero()" || c == "!(start_is_zero&&!value.is_zero())" || bad[0].conds.last().map_or(false, |b| *c == format!("!({})", b) || *c == format!("!{}", b))) {
                ic.pop();
            }
            bad[0].conds[..bad[0].conds.len() - 1] == ic[..]
        }
        && t.contains("letvalue=value_text.parse::<BigInt>().unwrap();");
    if zero_def && placed && others_clean {
        cx.ok(rule, "leading-zero decimal literal with non-zero value rejected, on the integer path only");
    } else {
        let why = if !zero_def {
            "start_is_zero is not `self.window[0] == Some('0')` taken before the digits are consumed"
        } else if !others_clean {
            "a float / imaginary literal is produced on a path that tests for leading zeros (`007j`, `00.5` are legal)"
        } else {
            "the `Invalid Token` exit is not taken exactly under `start_is_zero && !value.is_zero()` on the path that produces Tok::Int"
        };
        cx.fail(rule, &format!("{}/leading-zero", rule), &lx.loc(f), &format!("the leading-zero check is missing or altered: {}", why));
    }
}


/// S2: an f-string replacement field without an expression is rejected.
fn empty_fstring_field(cx: &mut Ctx) {
    let rule = "C04.S2";
    cx.rule(rule, "an f-string replacement field whose expression is empty or only white space is rejected (`f'{}'`, `f'{ }'`, `f'{ !r}'`): in parse_formatted_value both arms that end the expression text — the conversion `!` and the closing `}` — test `expression.trim().is_empty()` and return EmptyExpression before the text is used");
    cx.floor(rule, 2);
    let Ok(src) = sm::load(&cx.repo, "parser/src/string.rs") else { return cx.anchor_missing(rule, "parser/src/string.rs") };
    let Some(f) = src.method("StringParser", "parse_formatted_value") else { return cx.anchor_missing(rule, "parse_formatted_value") };
    let mut found = 0;
    sm::for_each_expr_in_block(&f.block, |e| {
        if let syn::Expr::Match(m) = e {
            if sm::tsc(&m.expr) != "ch" {
                return;
            }
            for a in &m.arms {
                let pat = sm::tsc(&a.pat);
                let which = if pat == "'}'" && a.guard.is_none() {
                    "}"
                } else if pat == "'!'" && a.guard.as_ref().map_or(false, |g| sm::tsc(&g.1).contains("delimiters.is_empty()")) {
                    "!"
                } else {
                    continue;
                };
                found += 1;
                let t = sm::tsc(&a.body);
                let guard = regex::Regex::new(r"ifexpression\.trim\(\)\.is_empty\(\)\{returnErr\(FStringError::new\((?:FStringErrorType::)?EmptyExpression,").unwrap().find(&t).map(|m| m.start());
                let first_use = [t.find("parse_fstring_expr("), t.find("conversion="), t.find("self.next_char()")].into_iter().flatten().min();
                match (guard, first_use) {
                    (Some(g), Some(u)) if g < u => cx.ok(rule, &format!("arm `{}`: empty / blank expression rejected before the text is used", which)),
                    (Some(_), None) => cx.ok(rule, &format!("arm `{}`: empty / blank expression rejected", which)),
                    _ => cx.fail(rule, &format!("{}/{}", rule, which), &src.loc(&a.pat), &format!("the `{}` arm of parse_formatted_value does not reject an expression that is empty after trimming white space before using it", which)),
                }
            }
        }
    });
    if found != 2 {
        cx.fail(rule, &format!("{}/arms", rule), &src.loc(f), &format!("{} of the 2 arms that end the expression text were found", found));
    }
}
