//! Structural necessary conditions on the float renderer shared by format() and %-formatting
//! (literal/src/float.rs); used by C18 and C19. They decide the shape of the code, not the numeric results.

use crate::eval::{Machine, V};
use crate::report::Ctx;
use crate::srcmodel::{self as sm};

/// N1 (C11): an integer-valued float is recognised exactly.
pub fn exact_integer_test(cx: &mut Ctx, rule: &str) {
    cx.rule(rule, "float rendering used by the unparser: float::to_string takes its `<digits>.0` shortcut only for values whose fractional part is exactly zero — is_integer is an exact test (fract() == 0.0 / trunc() == v), with no tolerance (EPSILON, round, abs, <): a float that is merely close to an integer must be rendered with all its digits or it does not parse back to itself");
    cx.floor(rule, 2);
    let src = match sm::load(&cx.repo, "literal/src/float.rs") {
        Ok(s) => s,
        Err(e) => return cx.anchor_missing(rule, &e),
    };
    match src.free_fns("is_integer").into_iter().next() {
        None => cx.anchor_missing(rule, "float::is_integer"),
        Some(f) => {
            let t = sm::tsc(&f.block);
            let exact = ["{v.fract()==0.0}", "{v.fract()==0.}", "{0.0==v.fract()}", "{v.trunc()==v}", "{v==v.trunc()}", "{v.fract()==0f64}"].contains(&t.as_str());
            let tolerant = ["EPSILON", "round()", "abs()", "<", "1e-"].iter().any(|x| t.contains(x));
            if exact && !tolerant {
                cx.ok(rule, &format!("is_integer is the exact test `{}`", t));
            } else {
                cx.fail(rule, &format!("{}/is_integer", rule), &src.loc(f), &format!("is_integer is `{}`: not an exact integrality test, so floats next to an integer (e.g. 0.9999999999999999) are rendered as that integer", t));
            }
        }
    }
    match src.free_fns("to_string").into_iter().next() {
        None => cx.anchor_missing(rule, "float::to_string"),
        Some(f) => {
            let t = sm::tsc(&f.block);
            if t.contains("ifis_integer(value){format!(\"{value:.1?}\")}else{value.to_string()}") {
                cx.ok(rule, "to_string: `{:.1?}` only under is_integer(value), otherwise the shortest round-trip rendering");
            } else {
                cx.fail(rule, &format!("{}/to_string", rule), &src.loc(f), "to_string does not choose between `{:.1?}` (exact integers) and the shortest round-trip rendering by is_integer(value)");
            }
        }
    }
}

/// R1: the repr-style window of float::to_string; G1: digits/decimal-point agreement in the three renderers.
pub fn float_renderer(cx: &mut Ctx, rule: &str) {
    cx.rule(rule, "float renderer (literal/src/float.rs): (a) to_string — the rendering format() uses when neither type nor precision is given — chooses fixed notation exactly for decimal exponents in [-4, 16), interpreted from its condition for every exponent in -8..=20 (Python's repr switch points 1e-4 and 1e16); (b) in format_fixed, format_exponent and both branches of format_general the digit count passed to decimal_point_or_empty is the digit count the digits were rendered with (the `#` flag adds a point exactly when no fractional digit was produced)");
    cx.floor(rule, 33);
    let src = match sm::load(&cx.repo, "literal/src/float.rs") {
        Ok(s) => s,
        Err(e) => return cx.anchor_missing(rule, &e),
    };
    // (a)
    match src.free_fns("to_string").into_iter().next() {
        None => cx.anchor_missing(rule, "float::to_string"),
        Some(f) => {
            // find the decision whose condition mentions only `exponent` and integer literals
            let mut cond: Option<syn::Expr> = None;
            sm::for_each_expr_in_block(&f.block, |e| {
                if let syn::Expr::If(i) = e {
                    let t = sm::tsc(&i.cond);
                    // the decision between the two notations: a pure comparison of one integer local with literals
                    if (t.contains("<16") || t.contains("16<") || t.contains("<=15") || t.contains("-5<") || t.contains("-4<=")) && cond.is_none() && !t.contains("let") && !t.contains('(') {
                        cond = Some((*i.cond).clone());
                    }
                }
            });
            match cond {
                None => cx.fail(rule, &format!("{}/window/shape", rule), &src.loc(f), "to_string has no decision on the decimal exponent"),
                Some(c) => {
                    let methods = |_: &V, _: &str, _: &[V]| -> Option<V> { None };
                    let mut bad = vec![];
                    for ex in -8i128..=20 {
                        let mut m = Machine::new(&methods);
                        for id in sm::idents_in(&c) {
                            m.set(&id, V::Int(ex));
                        }
                        let want = (-4..16).contains(&ex);
                        match m.eval(&c) {
                            Ok(V::Bool(b)) if b == want => cx.ok_trivial(rule),
                            other => bad.push(format!("exponent {} -> {:?} (fixed notation expected: {})", ex, other, want)),
                        }
                    }
                    if bad.is_empty() {
                        cx.ok(rule, &format!("to_string: `{}` holds exactly for exponents -4..=15", sm::tsc(&c)));
                    } else {
                        cx.fail(rule, &format!("{}/window", rule), &src.loc(f), &format!("to_string switches between fixed and exponent notation at the wrong exponent: {}", bad.join("; ")));
                    }
                }
            }
        }
    }
    // (b)
    let fixed_like = [("format_fixed", "{magnitude:.precision$"), ("format_exponent", "{magnitude:.precision$e}")];
    for (name, fmt) in fixed_like {
        match src.free_fns(name).into_iter().next() {
            None => cx.anchor_missing(rule, name),
            Some(f) => {
                let t = sm::tsc(&f.block);
                let calls: Vec<&str> = t.match_indices("decimal_point_or_empty(").map(|(i, _)| &t[i..]).collect();
                let ok = calls.len() == 1 && calls[0].starts_with("decimal_point_or_empty(precision,alternate_form)") && t.contains(fmt) && !t.contains("letprecision=");
                if ok {
                    cx.ok(rule, &format!("{}: digits rendered with `precision`, point decided with `precision`", name));
                } else {
                    cx.fail(rule, &format!("{}/point/{}", rule, name), &src.loc(f), &format!("{}: the digit count given to decimal_point_or_empty is not the `precision` the digits are rendered with", name));
                }
            }
        }
    }
    match src.free_fns("format_general").into_iter().next() {
        None => cx.anchor_missing(rule, "format_general"),
        Some(f) => {
            let t = sm::tsc(&f.block);
            // exponent rendering: format!("{:.*e}", D, magnitude)
            let d_exp: Option<String> = t.split("format!(\"{:.*e}\",").nth(1).and_then(|r| r.split(",magnitude)").next()).map(|s| s.to_string());
            // exponent branch: the first decimal_point_or_empty after the `e` selection
            let calls: Vec<String> = t.match_indices("decimal_point_or_empty(").map(|(i, _)| t[i + 23..].split(",alternate_form)").next().unwrap_or("").to_string()).collect();
            // fixed branch: `let D = ((precision as i64) - 1 - exponent) as usize; let _ = format!("{magnitude:.D$}"); .. decimal_point_or_empty(D, ..)`
            let re = regex::Regex::new(r#"let(\w+)=\(\(precisionasi64\)-1-(\w+)\)asusize;let\w+=format!\("\{magnitude:\.(\w+)\$\}"\);"#).unwrap();
            let fixed_ok = re.captures(&t).map_or(false, |c| c[1] == c[3] && calls.get(1).map(|s| s.as_str()) == Some(&c[1]));
            let exp_ok = d_exp.is_some() && calls.first() == d_exp.as_ref() && calls.len() == 2;
            if exp_ok {
                cx.ok(rule, &format!("format_general, exponent notation: {} fractional digits rendered and used for the point", d_exp.clone().unwrap_or_default()));
            } else {
                cx.fail(rule, &format!("{}/point/format_general/exponent", rule), &src.loc(f), &format!("format_general, exponent notation: digits are rendered with {:?} but the point is decided with {:?}", d_exp, calls.first()));
            }
            if fixed_ok {
                cx.ok(rule, "format_general, fixed notation: precision - 1 - exponent fractional digits rendered and used for the point");
            } else {
                cx.fail(rule, &format!("{}/point/format_general/fixed", rule), &src.loc(f), "format_general, fixed notation: the digit count given to decimal_point_or_empty is not the one the digits are rendered with");
            }
        }
    }
}
