//! Structural necessary conditions on the float renderer shared by format() and %-formatting
//! (literal/src/float.rs); used by C18 and C19. They decide the shape of the code, not the numeric results.

use crate::eval::{Machine, V};
use crate::report::Ctx;
use crate::srcmodel::{self as sm};

/// N1 (C11): an integer-valued float is recognised exactly.
pub fn exact_integer_test(cx: &mut Ctx, rule: &str) {
    cx.rule(rule, "float rendering used by the unparser: float::to_string takes its `<digits>.0` shortcut only for values whose fractional part is exactly zero — is_integer is an exact test (fract() == 0.0 / trunc() == v), with no tolerance (EPSILON, round, abs, <): a float that is merely close to an integer must be rendered with all its digits or it does not parse back to itself");
    cx.floor(rule, 2);
    let src = match sm::load(&cx.repo, "literal/src/float.rs") {
        Ok(s) => s,
        Err(e) => return cx.anchor_missing(rule, &e),
    };
    match src.free_fns("is_integer").into_iter().next() {
        None => cx.anchor_missing(rule, "float::is_integer"),
        Some(f) => {
            let t = sm::tsc(&f.block);
            let exact = ["{v.fract()==0.0}", "{v.fract()==0.}", "{0.0==v.fract()}", "{v.trunc()==v}", "{v==v.trunc()}", "{v.fract()==0f64}"].contains(&t.as_str());
            let tolerant = ["EPSILON", "round()", "abs()", "<", "1e-"].iter().any(|x| t.contains(x));
            if exact && !tolerant {
                cx.ok(rule, &format!("is_integer is the exact test `{}`", t));
            } else {
                cx.fail(rule, &format!("{}/is_integer", rule), &src.loc(f), &format!("is_integer is `{}`: not an exact integrality test, so floats next to an integer (e.g. 0.9999999999999999) are rendered as that integer", t));
            }
        }
    }
    match src.free_fns("to_string").into_iter().next() {
        None => cx.anchor_missing(rule, "float::to_string"),
        Some(f) => {
            let t = sm::tsc(&f.block);
            if t.contains("ifis_integer(value){format!(\"{value:.1?}\")}else{value.to_string()}") {
                cx.ok(rule, "to_string: `{:.1?}` only under is_integer(value), otherwise the shortest round-trip rendering");
            } else {
                cx.fail(rule, &format!("{}/to_string", rule), &src.loc(f), "to_string does not choose between `{:.1?}` (exact integers) and the shortest round-trip rendering by is_integer(value)");
            }
        }
    }
}

/// R1: the repr-style window of float::to_string; G1: digits/decimal-point agreement in the three renderers.
pub fn float_renderer(cx: &mut Ctx, rule: &str) {
    cx.rule(rule, "float renderer (literal/src/float.rs): (a) to_string — the rendering format() uses when neither type nor precision is given — chooses fixed notation exactly for decimal exponents in [-4, 16), interpreted from its condition for every exponent in -8..=20 (Python's repr switch points 1e-4 and 1e16); (b) in format_fixed, format_exponent and both branches of format_general the digit count passed to decimal_point_or_empty is the digit count the digits were rendered with (the `#` flag adds a point exactly when no fractional digit was produced)");
    cx.floor(rule, 33);
    let src = match sm::load(&cx.repo, "literal/src/float.rs") {
        Ok(s) => s,
        Err(e) => return cx.anchor_missing(rule, &e),
    };
    // (a)
    match src.free_fns("to_string").into_iter().next() {
        None => cx.anchor_missing(rule, "float::to_string"),
        Some(f) => {
            // find the decision whose condition mentions only `exponent` and integer literals
            let mut cond: Option<syn::Expr> = None;
            sm::for_each_expr_in_block(&f.block, |e| {
                if let syn::Expr::If(i) = e {
                    let t = sm::tsc(&i.cond);
                    // the decision between the two notations: a pure comparison of one integer local with literals
                    if (t.contains("<16") || t.contains("16<") || t.contains("<=15") || t.contains("-5<") || t.contains("-4<=")) && cond.is_none() && !t.contains("let") && !t.contains('(') {
                        cond = Some((*i.cond).clone());
                    }
                }
            });
            match cond {
                None => cx.fail(rule, &format!("{}/window/shape", rule), &src.loc(f), "to_string has no decision on the decimal exponent"),
                Some(c) => {
                    let methods = |_: &V, _: &str, _: &[V]| -> Option<V> { None };
                    let mut bad = vec![];
                    for ex in -8i128..=20 {
                        let mut m = Machine::new(&methods);
                        for id in sm::idents_in(&c) {
                            m.set(&id, V::Int(ex));
                        }
                        let want = (-4..16).contains(&ex);
                        match m.eval(&c) {
                            Ok(V::Bool(b)) if b == want => cx.ok_trivial(rule),
                            other => bad.push(format!("exponent {} -> {:?} (fixed notation expected: {})", ex, other, want)),
                        }
                    }
                    if bad.is_empty() {
                        cx.ok(rule, &format!("to_string: `{}` holds exactly for exponents -4..=15", sm::tsc(&c)));
                    } else {
                        cx.fail(rule, &format!("{}/window", rule), &src.loc(f), &format!("to_string switches between fixed and exponent notation at the wrong exponent: {}", bad.join("; ")));
                    }
                }
            }
        }
    }
    // (b)
    let fixed_like = [("format_fixed", "{magnitude:.precision$"), ("format_exponent", "{magnitude:.precision$e}")];
    for (name, fmt) in fixed_like {
        match src.free_fns(name).into_iter().next() {
            None => cx.anchor_missing(rule, name),
            Some(f) => {
                let t = sm::tsc(&f.block);
                let calls: Vec<&str> = t.match_indices("decimal_point_or_empty(").map(|(i, _)| &t[i..]).collect();
                let ok = calls.len() == 1 && calls[0].starts_with("decimal_point_or_empty(precision,alternate_form)") && t.contains(fmt) && !t.contains("letprecision=");
                if ok {
                    cx.ok(rule, &format!("{}: digits rendered with `precision`, point decided with `precision`", name));
                } else {
                    cx.fail(rule, &format!("{}/point/{}", rule, name), &src.loc(f), &format!("{}: the digit count given to decimal_point_or_empty is not the `precision` the digits are rendered with", name));
                }
            }
        }
    }
    match src.free_fns("format_general").into_iter().next() {
        None => cx.anchor_missing(rule, "format_general"),
        Some(f) => {
            let t = sm::tsc(&f.block);
            // exponent rendering: format!("{:.*e}", D, magnitude)
            let d_exp: Option<String> = t.split("format!(\"{:.*e}\",").nth(1).and_then(|r| r.split(",magnitude)").next()).map(|s| s.to_string());
            // exponent branch: the first decimal_point_or_empty after the `e` selection
            let calls: Vec<String> = t.match_indices("decimal_point_or_empty(").map(|(i, _)| t[i + 23..].split(",alternate_form)").next().unwrap_or("").to_string()).collect();
            // fixed branch: `let D = ((precision as i64) - 1 - exponent) as usize; let _ = format!("{magnitude:.D$}"); .. decimal_point_or_empty(D, ..)`
            let re = regex::Regex::new(r#"let(\w+)=\(\(precisionasi64\)-1-(\w+)\)asusize;let\w+=format!\("\{magnitude:\.(\w+)\$\}"\);"#).unwrap();
            let fixed_ok = re.captures(&t).map_or(false, |c| c[1] == c[3] && calls.get(1).map(|s| s.as_str()) == Some(&c[1]));
            let exp_ok = d_exp.is_some() && calls.first() == d_exp.as_ref() && calls.len() == 2;
            if exp_ok {
                cx.ok(rule, &format!("format_general, exponent notation: {} fractional digits rendered and used for the point", d_exp.clone().unwrap_or_default()));
            } else {
                cx.fail(rule, &format!("{}/point/format_general/exponent", rule), &src.loc(f), &format!("format_general, exponent notation: digits are rendered with {:?} but the point is decided with {:?}", d_exp, calls.first()));
            }
            if fixed_ok {
                cx.ok(rule, "format_general, fixed notation: precision - 1 - exponent fractional digits rendered and used for the point");
            } else {
                cx.fail(rule, &format!("{}/point/format_general/fixed", rule), &src.loc(f), "format_general, fixed notation: the digit count given to decimal_point_or_empty is not the one the digits are rendered with");
            }
        }
    }
}


/// S1: the sign of a formatted float is its sign BIT (so that -0.0 prints `-0.0`), except for NaN.
/// In `owner::fname` of `rel`, the local that holds the sign text is initialised by `if COND { "-" } else { .. }`;
/// COND is evaluated for -1.5, -0.0, 0.0, 1.5, +/-inf and both NaNs and must be true exactly for the negative
/// non-NaN values including negative zero.
pub fn float_sign_rule(cx: &mut Ctx, rule: &str, rel: &str, owner: &str, fname: &str) {
    use crate::eval::{Machine, V};
    cx.rule(rule, "the sign of a formatted float is its sign bit, NaN excepted: the condition under which the formatter writes `-` (evaluated for -1.5, -0.0, 0.0, 1.5, +/-inf, +/-NaN) holds exactly for the values with the sign bit set that are not NaN — so `-0.0` keeps its minus sign as in Python, and the `+` / blank sign option applies to everything else");
    cx.floor(rule, 1);
    let Ok(src) = sm::load(&cx.repo, rel) else { return cx.anchor_missing(rule, rel) };
    let Some(f) = src.method(owner, fname) else { return cx.anchor_missing(rule, &format!("{}::{}", owner, fname)) };
    let param = f.sig.inputs.iter().nth(1).and_then(|a| if let syn::FnArg::Typed(pt) = a { Some(sm::tsc(&pt.pat)) } else { None }).unwrap_or_else(|| "num".into());
    // the `if COND { "-" } else { .. }` initialiser, and the locals defined before it (COND may name one of them)
    let mut cond: Option<&syn::Expr> = None;
    let mut before: Vec<(String, &syn::Expr)> = vec![];
    for st in &f.block.stmts {
        if let syn::Stmt::Local(l) = st {
            if let Some(init) = &l.init {
                if let syn::Expr::If(i) = &*init.expr {
                    let then_is_minus = matches!(i.then_branch.stmts.as_slice(), [syn::Stmt::Expr(x, None)] if sm::tsc(x) == "\"-\"");
                    if then_is_minus && cond.is_none() {
                        cond = Some(&i.cond);
                    }
                }
                if cond.is_none() {
                    let mut ids = vec![];
                    sm::pat_idents(&l.pat, &mut ids);
                    if let [id] = ids.as_slice() {
                        before.push((id.clone(), &init.expr));
                    }
                }
            }
        }
    }
    let Some(cond) = cond else {
        return cx.fail(rule, &format!("{}/shape", rule), &src.loc(f), &format!("{}::{} has no `let sign = if <negative> {{ \"-\" }} else {{ .. }}`", owner, fname));
    };
    let none = |_: &V, _: &str, _: &[V]| -> Option<V> { None };
    let samples: [(f64, bool, &str); 8] = [(-1.5, true, "-1.5"), (-0.0, true, "-0.0"), (0.0, false, "0.0"), (1.5, false, "1.5"), (f64::NEG_INFINITY, true, "-inf"), (f64::INFINITY, false, "inf"), (f64::NAN, false, "nan"), (-f64::NAN, false, "-nan")];
    let mut bad = vec![];
    for (x, want, name) in samples {
        let mut mach = Machine::new(&none);
        mach.set(&param, V::F(x));
        for (id, init) in &before {
            if let Ok(v) = mach.eval(init) {
                mach.set(id, v);
            }
        }
        match mach.eval(cond) {
            Ok(V::Bool(b)) if b == want => {}
            Ok(V::Bool(b)) => bad.push(format!("{}: minus sign {}", name, if b { "written" } else { "not written" })),
            Ok(o) => bad.push(format!("{}: condition evaluates to {:?}", name, o)),
            Err(e) => bad.push(format!("{}: not interpretable ({})", name, e)),
        }
    }
    if bad.is_empty() {
        cx.ok(rule, &format!("{}::{}: `-` exactly for sign bit set and not NaN (8 values evaluated)", owner, fname));
    } else {
        cx.fail(rule, &format!("{}/{}", rule, fname), &src.loc(f), &format!("{}::{} decides the minus sign wrongly: {}", owner, fname, bad.join("; ")));
    }
}


/// G2 / S2: two facts about floats formatted through FormatSpec that Python guarantees.
pub fn float_spec_corner_cases(cx: &mut Ctx, rule: &str) {
    cx.rule(rule, "(a) a float formatted with a precision but no presentation type never looks like an integer: in the fixed-notation branch of float::format_general a result without a decimal point gets `.0` when the caller asked for it (the fifth parameter, passed as `true` only by FormatSpec::format_float's no-type arm) — `format(5.0, '.3')` is `5.0`; (b) thousands separators are applied to finite values only: in FormatSpec::format_float the call of add_magnitude_separators is guarded by a finiteness test of the number — `format(inf, '010,')` is `0000000inf`");
    cx.floor(rule, 3);
    // (a)
    match sm::load(&cx.repo, "literal/src/float.rs") {
        Ok(fl) => match fl.free_fns("format_general").into_iter().next() {
            Some(f) => {
                let flag = f.sig.inputs.iter().nth(4).and_then(|a| if let syn::FnArg::Typed(pt) = a { Some(sm::tsc(&pt.pat)) } else { None }).unwrap_or_default();
                let t = sm::tsc(&f.block);
                // `if <.. flag .. !X.contains('.') ..> { format!("{X}.0") }`
                let re = regex::Regex::new(r#"if([^{}]*)\{format!\("\{(\w+)\}\.0"\)\}"#).unwrap();
                let ok = re.captures_iter(&t).any(|c| c[1].contains(&flag) && !flag.is_empty() && c[1].contains(&format!("!{}.contains('.')", &c[2])));
                if ok {
                    cx.ok(rule, &format!("format_general: under `{}` a fixed-notation result without a point gets `.0`", flag));
                } else {
                    cx.fail(rule, &format!("{}/dot-zero", rule), &fl.loc(f), "format_general does not append `.0` to a fixed-notation result without a decimal point when its caller asks for a fractional part: format(5.0, '.3') renders as `5`");
                }
            }
            None => cx.anchor_missing(rule, "float::format_general"),
        },
        Err(e) => cx.anchor_missing(rule, &e),
    }
    match sm::load(&cx.repo, "format/src/format.rs") {
        Ok(src) => match src.method("FormatSpec", "format_float") {
            Some(f) => {
                let param = f.sig.inputs.iter().nth(1).and_then(|a| if let syn::FnArg::Typed(pt) = a { Some(sm::tsc(&pt.pat)) } else { None }).unwrap_or_else(|| "num".into());
                let t = sm::tsc(&f.block);
                // the no-type arm passes `true`
                let arm_ok = regex::Regex::new(r"Some\(precision\)=>(?:Ok\()?float::format_general\(precision,\w+,Case::Lower,self\.alternate_form,true\)").unwrap().is_match(&t);
                if arm_ok {
                    cx.ok(rule, "format_float: the no-type arm asks format_general for a fractional part");
                } else {
                    cx.fail(rule, &format!("{}/no-type-arm", rule), &src.loc(f), "FormatSpec::format_float's arm for a precision without presentation type does not call format_general(.., true)");
                }
                // (b) every call of add_magnitude_separators sits under a finiteness test of the number
                let exits_guard = regex::Regex::new(&format!(r"if(?:{p}|magnitude)\.is_finite\(\)\{{[^{{}}]*self\.add_magnitude_separators\(|if(?:{p}|magnitude)\.is_(?:infinite|nan)\(\)[^{{}}]*\{{[^{{}}]*\}}else\{{[^{{}}]*self\.add_magnitude_separators\(", p = regex::escape(&param))).unwrap();
                let n_calls = t.matches("self.add_magnitude_separators(").count();
                let n_guarded = exits_guard.find_iter(&t).count();
                if n_calls >= 1 && n_guarded == n_calls {
                    cx.ok(rule, "format_float: separators only for finite values");
                } else {
                    cx.fail(rule, &format!("{}/non-finite-grouping", rule), &src.loc(f), &format!("{} of {} add_magnitude_separators calls in FormatSpec::format_float are guarded by a finiteness test: `inf` / `nan` would be zero-extended and grouped like digits", n_guarded, n_calls));
                }
            }
            None => cx.anchor_missing(rule, "FormatSpec::format_float"),
        },
        Err(e) => cx.anchor_missing(rule, &e),
    }
}
