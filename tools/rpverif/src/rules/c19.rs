//! C19 — printf-style formatting: no reachable panic (MIR inventory + discharge), flag/type tables, parse order.

use crate::report::Ctx;
use crate::rules::c03::{check_dominance_cfg, check_inventory, panic_inventory, SiteRow};
use crate::rules::units;
use crate::srcmodel::{self as sm};
use std::collections::BTreeMap;

const CFORMAT_SITES: &[SiteRow] = &[
    SiteRow { func: "cformat::CFormatSpec::fill_string", kind: "assert:Overflow", max: 1, discharge: "D.counter", why: "character count + prefix length (both bounded by the rendered text)" },
    SiteRow { func: "cformat::CFormatSpec::format_bytes", kind: "assert:Overflow", max: 1, discharge: "D.width", why: "len + fill with fill = width.saturating_sub(len) <= i32::MAX (parse_quantity is checked i32)" },
    SiteRow { func: "cformat::CFormatSpec::format_bytes", kind: "index", max: 1, discharge: "D.min", why: "&bytes[..min(len, precision)]" },
    SiteRow { func: "cformat::CFormatSpec::format_float", kind: "panic", max: 1, discharge: "D.contract", why: "unreachable!: documented caller contract (the spec is a float conversion)" },
    SiteRow { func: "cformat::CFormatSpec::format_number", kind: "panic", max: 1, discharge: "D.contract", why: "unreachable!: documented caller contract (the spec is a number conversion)" },
    SiteRow { func: "cformat::CFormatStrOrBytes::<S>::check_specifiers", kind: "assert:Overflow", max: 1, discharge: "D.counter", why: "count of parts" },
    SiteRow { func: "cformat::CFormatStrOrBytes::<std::string::String>::parse", kind: "Option::unwrap", max: 1, discharge: "D.peek", why: "iter.next().unwrap() under if let Some(..) = iter.peek()" },
    SiteRow { func: "cformat::CFormatStrOrBytes::<std::string::String>::parse", kind: "assert:Overflow", max: 1, discharge: "D.counter", why: "index + 1 of an enumerate() index" },
    SiteRow { func: "cformat::CFormatStrOrBytes::<std::vec::Vec<u8>>::parse", kind: "Option::unwrap", max: 1, discharge: "D.peek", why: "as above" },
    SiteRow { func: "cformat::CFormatStrOrBytes::<std::vec::Vec<u8>>::parse", kind: "assert:Overflow", max: 1, discharge: "D.counter", why: "as above" },
    SiteRow { func: "cformat::consume_length", kind: "Option::unwrap", max: 1, discharge: "D.peek", why: "under if let Some(..) = iter.peek()" },
    SiteRow { func: "cformat::parse_flags", kind: "Option::unwrap", max: 1, discharge: "D.peek", why: "under while let Some(..) = iter.peek()" },
    SiteRow { func: "cformat::parse_precision", kind: "Option::unwrap", max: 1, discharge: "D.peek", why: "under if let Some(..) = iter.peek()" },
    SiteRow { func: "cformat::parse_quantity", kind: "Option::unwrap", max: 3, discharge: "D.peek", why: "each under a peek() that returned Some" },
    SiteRow { func: "cformat::parse_spec_mapping_key", kind: "Option::unwrap", max: 1, discharge: "D.peek", why: "under if let Some(..) = iter.peek()" },
    SiteRow { func: "cformat::parse_text_inside_parentheses", kind: "assert:Overflow", max: 2, discharge: "D.counter", why: "parenthesis depth counter, one step per consumed character" },
];

pub fn run(cx: &mut Ctx) {
    if let Some(facts) = units::load_facts(cx, "C19.N1") {
        let rule = "C19.N1";
        cx.rule(rule, "panic-obligation inventory of cformat.rs from resolved MIR: every unwrap/expect, panic, indexing and every Overflow/Bounds/Division assert belongs to a (function, kind) row of the reviewed site table with its discharge; a new site is an undischarged obligation");
        cx.floor(rule, 10);
        if let Some(cf) = facts.krate("rustpython_format") {
            let inv = panic_inventory(cf, &|f| f.ends_with("format/src/cformat.rs"));
            cx.unit("panic-capable sites in cformat.rs", inv.values().sum());
            check_inventory(cx, rule, &inv, CFORMAT_SITES, "format/src/cformat.rs");
        } else {
            cx.anchor_missing(rule, "MIR facts of rustpython_format");
        }
    }
    let src = match sm::load(&cx.repo, "format/src/cformat.rs") {
        Ok(s) => s,
        Err(e) => return cx.anchor_missing("C19", &e),
    };
    peek_dominance(cx, &src);
    unsigned_arithmetic(cx, &src);
    tables(cx, &src);
    parse_order(cx, &src);
    star_quantities(cx, &src);
    padding(cx, &src);
    flag_accumulation(cx);
    crate::rules::float_rules::float_renderer(cx, "C19.G1");
    crate::rules::float_rules::float_sign_rule(cx, "C19.S1", "format/src/cformat.rs", "CFormatSpec", "format_float");
    bytes_padding(cx, &src);
    keyed_specifiers(cx, &src);
}

fn peek_dominance(cx: &mut Ctx, src: &sm::Src) {
    let rule = "C19.D.peek";
    cx.rule(rule, "D.peek: every `iter.next().unwrap()` in cformat.rs is dominated, with no intervening iter.next(), by `if let / while let Some(..) = iter.peek()` on the same iterator");
    cx.floor(rule, 6);
    let mut fns: Vec<(String, &syn::Block)> = vec![];
    for f in src.all_free_fns() {
        fns.push((f.sig.ident.to_string(), &f.block));
    }
    for i in src.impls() {
        for it in &i.items {
            if let syn::ImplItem::Fn(f) = it {
                fns.push((format!("{}::{}", sm::self_ty_name(i), f.sig.ident), &f.block));
            }
        }
    }
    for (fname, block) in fns {
        let (ok, bad) = check_dominance_cfg(block, &fname, "iter.next()", ("iter", "next"));
        for _ in 0..ok {
            cx.ok(rule, &format!("{}: iter.next().unwrap() after a successful peek()", fname));
        }
        for b in bad {
            cx.fail(rule, &format!("{}/{}", rule, fname), &format!("{}:{}", src.rel, b.rsplit(':').next().unwrap_or("")), &format!("{}: `iter.next().unwrap()` is not dominated by a peek() that returned Some (or the iterator was advanced in between): panics at the end of the template", fname));
        }
    }
}

fn unsigned_arithmetic(cx: &mut Ctx, src: &sm::Src) {
    let rule = "C19.N2";
    cx.rule(rule, "unsigned arithmetic: no `-` on usize widths/lengths without saturating_sub / checked ops / a dominating comparison; `cmp::max(0, <unsigned>)` is a stated-belief contradiction (an unsigned value is never below 0: the author believed the subtraction could go negative); quantities are parsed with checked i32 arithmetic");
    cx.floor(rule, 4);
    let t = sm::tsx(&src.file);
    if t.contains("cmp::max(0,") {
        cx.fail(rule, &format!("{}/max-zero-unsigned", rule), &src.rel, "`cmp::max(0, x)` on an unsigned expression: the subtraction inside underflows before max() can help (width - len panics when the value is wider than the field)");
    } else {
        cx.ok(rule, "no cmp::max(0, <unsigned>)");
    }
    // subtractions in the file: only saturating_sub
    let mut raw_subs = vec![];
    for f in src.impls().into_iter().flat_map(|i| i.items.iter()) {
        if let syn::ImplItem::Fn(f) = f {
            sm::for_each_expr_in_block(&f.block, |e| {
                if let syn::Expr::Binary(b) = e {
                    if matches!(b.op, syn::BinOp::Sub(_) | syn::BinOp::SubAssign(_)) {
                        raw_subs.push(format!("{}: {}", f.sig.ident, sm::tsc(e)));
                    }
                }
            });
        }
    }
    if raw_subs.is_empty() {
        cx.ok(rule, "no raw subtraction in the CFormatSpec drivers (fills use saturating_sub)");
    } else {
        cx.fail(rule, &format!("{}/raw-sub", rule), &src.rel, &format!("raw unsigned subtraction(s) {:?}", raw_subs));
    }
    if t.matches(".saturating_sub(").count() >= 3 {
        cx.ok(rule, "fill counts: width.saturating_sub(len) in fill_string, fill_string_with_precision, format_bytes");
    } else {
        cx.fail(rule, &format!("{}/saturating", rule), &src.rel, "a fill count is no longer computed with saturating_sub");
    }
    // `acc = acc.checked_mul(10).and_then(|x| x.checked_add(digit as i32)).ok_or((IntTooBig, index))?` under any names
    // (the accumulator may be a plain i32 or an Option<i32> unwrapped first; what matters is that the step is checked
    // and that no unchecked `* 10` exists beside it)
    let checked = regex::Regex::new(r"\.checked_mul\(10\)\.and_then\(\|(\w+)\|(\w+)\.checked_add\((\w+)asi32\)\)\.ok_or\(\(CFormatErrorType::IntTooBig,index\)\)\?;").unwrap().captures(&t.text).map_or(false, |c| c[1] == c[2])
        && !regex::Regex::new(r"\*10\b|\b10\*|\*=10\b|wrapping_mul\(10\)|saturating_mul\(10\)").unwrap().is_match(&t.text);
    if checked {
        cx.ok(rule, "parse_quantity: checked i32 arithmetic, IntTooBig on overflow");
    } else {
        cx.fail(rule, &format!("{}/quantity", rule), &src.rel, "parse_quantity does not use checked arithmetic");
    }
    if t.contains("&bytes[..cmp::min(bytes.len(),precision)]") {
        cx.ok(rule, "bytes precision slices at min(len, precision)");
    } else {
        cx.fail(rule, &format!("{}/bytes-precision", rule), &src.rel, "bytes precision does not slice at min(len, precision)");
    }
}

fn tables(cx: &mut Ctx, src: &sm::Src) {
    let rule = "C19.T1";
    cx.rule(rule, "flag characters `# 0 - space +` map to ALTERNATE_FORM, ZERO_PAD, LEFT_ADJUST, BLANK_SIGN, SIGN_CHAR and nothing else is a flag; conversion characters d i u o x X e E f F g G c r s b a map to their types (case carried for x/e/f/g) and every other character is UnsupportedFormatChar at its own index; length modifiers h l L: at most one is skipped; `%c` ignores the specifier's precision");
    cx.floor(rule, 25);
    let t = sm::tsx(&src.file);
    let flags: BTreeMap<char, &str> = [('#', "ALTERNATE_FORM"), ('0', "ZERO_PAD"), ('-', "LEFT_ADJUST"), (' ', "BLANK_SIGN"), ('+', "SIGN_CHAR")].into_iter().collect();
    let mut got_flags: BTreeMap<char, String> = BTreeMap::new();
    let mut got_types: BTreeMap<char, String> = BTreeMap::new();
    for f in src.all_free_fns() {
        let name = f.sig.ident.to_string();
        if name != "parse_flags" && name != "parse_format_type" {
            continue;
        }
        sm::for_each_expr_in_block(&f.block, |e| {
            if let syn::Expr::Match(m) = e {
                for arm in &m.arms {
                    if let Some(cs) = crate::rules::c06::pat_chars(&arm.pat) {
                        let body = sm::tsc(sm::unblock(&arm.body));
                        for c in cs {
                            if name == "parse_flags" {
                                got_flags.insert(c, body.trim_start_matches("CConversionFlags::").to_string());
                            } else {
                                got_types.insert(c, body.clone());
                            }
                        }
                    }
                }
            }
        });
    }
    for (c, w) in &flags {
        match got_flags.get(c) {
            Some(g) if g == w => cx.ok(rule, &format!("flag '{}' -> {}", c, w)),
            other => cx.fail(rule, &format!("{}/flag/{}", rule, c), &src.rel, &format!("flag '{}' maps to {:?}, expected {}", c, other, w)),
        }
    }
    if got_flags.len() != flags.len() {
        cx.fail(rule, &format!("{}/flag/extra", rule), &src.rel, &format!("flag characters are {:?}", got_flags.keys().collect::<Vec<_>>()));
    }
    let types: BTreeMap<char, &str> = [
        ('d', "CFormatType::Number(Decimal)"), ('i', "CFormatType::Number(Decimal)"), ('u', "CFormatType::Number(Decimal)"), ('o', "CFormatType::Number(Octal)"),
        ('x', "CFormatType::Number(Hex(Case::Lower))"), ('X', "CFormatType::Number(Hex(Case::Upper))"),
        ('e', "CFormatType::Float(Exponent(Case::Lower))"), ('E', "CFormatType::Float(Exponent(Case::Upper))"),
        ('f', "CFormatType::Float(PointDecimal(Case::Lower))"), ('F', "CFormatType::Float(PointDecimal(Case::Upper))"),
        ('g', "CFormatType::Float(General(Case::Lower))"), ('G', "CFormatType::Float(General(Case::Upper))"),
        ('c', "CFormatType::Character"), ('r', "CFormatType::String(CFormatConversion::Repr)"), ('s', "CFormatType::String(CFormatConversion::Str)"),
        ('b', "CFormatType::String(CFormatConversion::Bytes)"), ('a', "CFormatType::String(CFormatConversion::Ascii)"),
    ]
    .into_iter()
    .collect();
    for (c, w) in &types {
        match got_types.get(c) {
            Some(g) if g == w => cx.ok(rule, &format!("conversion '{}' -> {}", c, w.trim_start_matches("CFormatType::"))),
            other => cx.fail(rule, &format!("{}/type/{}", rule, c), &src.rel, &format!("conversion '{}' maps to {:?}, expected {}", c, other, w)),
        }
    }
    if got_types.len() != types.len() {
        cx.fail(rule, &format!("{}/type/extra", rule), &src.rel, &format!("conversion characters are {:?}", got_types.keys().collect::<String>()));
    }
    if t.contains("_=>returnErr((CFormatErrorType::UnsupportedFormatChar(c),index)),") {
        cx.ok(rule, "any other character: UnsupportedFormatChar at its own index");
    } else {
        cx.fail(rule, &format!("{}/unsupported", rule), &src.rel, "unsupported conversion characters are not rejected with their own index");
    }
    // consume_length: exactly one optional modifier
    match src.free_fns("consume_length").into_iter().next() {
        Some(f) => match consume_length_semantics(f) {
            Ok(n) => {
                cx.unit("next characters on which consume_length was interpreted", n);
                cx.ok(rule, "consume_length skips at most one of h / l / L")
            }
            Err(e) => cx.fail(rule, &format!("{}/length-modifier", rule), &src.loc(f), &format!("consume_length does not skip exactly one optional h / l / L (Python rejects `%lld` as an unsupported format character): {}", e)),
        },
        None => cx.anchor_missing(rule, "consume_length"),
    }
    if t.contains("pubfnformat_char(&self,ch:char)->String{self.format_string_with_precision(ch.to_string(),Some(&CFormatQuantity::Amount(1).into()))}") {
        cx.ok(rule, "format_char renders one character regardless of the specifier's precision");
    } else {
        cx.fail(rule, &format!("{}/format_char", rule), &src.rel, "format_char does not use the fixed precision 1: `%.0c` would drop the character");
    }
}

fn parse_order(cx: &mut Ctx, src: &sm::Src) {
    let rule = "C19.Q1";
    cx.rule(rule, "CFormatSpec::parse reads mapping key, flags, width, precision, length modifier and conversion type in that order from the same iterator; the template splitters treat `%%` as a literal percent, flush the pending literal before a specifier and report an incomplete trailing `%` at index + 1");
    cx.floor(rule, 4);
    let Some(m) = src.method("CFormatSpec", "parse") else { return cx.anchor_missing(rule, "CFormatSpec::parse") };
    let want = "{letmapping_key=parse_spec_mapping_key(iter)?;letflags=parse_flags(iter);letmin_field_width=parse_quantity(iter)?;letprecision=parse_precision(iter)?;consume_length(iter);let(format_type,format_char)=parse_format_type(iter)?;Ok(CFormatSpec{flags,format_char,format_type,mapping_key,min_field_width,precision})}";
    if sm::tsc(&m.block) == want {
        cx.ok(rule, "mapping key, flags, width, precision, length, type — in this order");
    } else {
        cx.fail(rule, &format!("{}/order", rule), &src.loc(m), "CFormatSpec::parse does not read key, flags, width, precision, length modifier, type in this order");
    }
    let t = sm::tsx(&src.file);
    for (k, frag) in [
        ("percent-str", "matchsecond{'%'=>{iter.next().unwrap();literal.push('%');continue;},"),
        ("percent-bytes", "ifsecond==b'%'{iter.next().unwrap();literal.push(b'%');continue;}"),
    ] {
        if t.contains(frag) {
            cx.ok(rule, &format!("{}: `%%` is a literal percent", k));
        } else {
            cx.fail(rule, &format!("{}/{}", rule, k), &src.rel, "`%%` is not turned into a literal percent");
        }
    }
    if t.matches("returnErr(CFormatError{index:index+1,typ:CFormatErrorType::IncompleteFormat})").count() == 2 {
        cx.ok(rule, "a trailing `%` is IncompleteFormat at index + 1 (text and bytes)");
    } else {
        cx.fail(rule, &format!("{}/incomplete", rule), &src.rel, "a trailing `%` is not reported as IncompleteFormat at index + 1 in both splitters");
    }
    if t.contains("matchchars.next().map(|x|x.1){Some('%')=>{},_=>returnErr((CFormatErrorType::MissingModuloSign,1))}") {
        cx.ok(rule, "CFormatSpec::from_str requires the leading `%`");
    } else {
        cx.fail(rule, &format!("{}/modulo", rule), &src.rel, "CFormatSpec::from_str does not require the leading `%`");
    }
}

fn padding(cx: &mut Ctx, src: &sm::Src) {
    let rule = "C19.A1";
    cx.rule(rule, "padding: fill_string puts the text before the fill iff LEFT_ADJUST; with ZERO_PAD, format_number and format_float emit sign and base prefix BEFORE the zero fill, count them in the width, and LEFT_ADJUST turns the fill character into a space; precision pads integers with zeros on the left and truncates strings by characters");
    cx.floor(rule, 5);
    let t = sm::tsx(&src.file);
    let checks = [
        ("fill-side", "if!fill_string.is_empty(){ifself.flags.contains(CConversionFlags::LEFT_ADJUST){format!(\"{string}{fill_string}\")}else{format!(\"{fill_string}{string}\")}}else{string}", "fill_string: text then fill iff LEFT_ADJUST"),
        ("fill-count", "letwidth=match&self.min_field_width{Some(CFormatQuantity::Amount(width))=>cmp::max(width,&num_chars),_=>&num_chars};letfill_chars_needed=width.saturating_sub(num_chars);", "fill count = max(width, chars) - chars with chars counted in characters (+ prefix)"),
        ("zero-pad-number", "ifself.flags.contains(CConversionFlags::ZERO_PAD){letfill_char=if!self.flags.contains(CConversionFlags::LEFT_ADJUST){'0'}else{' '};letsigned_prefix=format!(\"{sign_string}{prefix}\");format!(\"{}{}\",signed_prefix,self.fill_string(padded_magnitude_string,fill_char,Some(signed_prefix.chars().count())))}", "format_number: sign+prefix first, counted in the width, '-' overrides '0'"),
        ("zero-pad-float", "ifself.flags.contains(CConversionFlags::ZERO_PAD){letfill_char=if!self.flags.contains(CConversionFlags::LEFT_ADJUST){'0'}else{' '};format!(\"{}{}\",sign_string,self.fill_string(magnitude_string,fill_char,Some(sign_string.chars().count())))}", "format_float: sign first, counted in the width, '-' overrides '0'"),
        ("precision-truncate", "Some(CFormatPrecision::Quantity(CFormatQuantity::Amount(precision)))if*precision<string.chars().count()=>string.chars().take(*precision).collect::<String>(),", "string precision truncates by characters"),
        ("precision-zero-fill", "letpadded_magnitude_string=self.fill_string_with_precision(magnitude_string,'0');", "integer precision = minimum digits (zero fill on the left)"),
    ];
    for (k, frag, what) in checks {
        if t.contains(frag) {
            cx.ok(rule, what);
        } else {
            cx.fail(rule, &format!("{}/{}", rule, k), &src.rel, &format!("expected padding shape not found: {}", what));
        }
    }
}

/// F1: flags are accumulated idempotently.
fn flag_accumulation(cx: &mut Ctx) {
    let rule = "C19.F1";
    cx.rule(rule, "parse_flags accumulates the conversion flags with set union (`|=` / insert): a flag character repeated any number of times sets its flag, as in Python (`%005d`, `%--5d`); no other operator writes the flag set");
    cx.floor(rule, 1);
    let src = match sm::load(&cx.repo, "format/src/cformat.rs") {
        Ok(s) => s,
        Err(e) => return cx.anchor_missing(rule, &e),
    };
    let Some(f) = src.free_fns("parse_flags").into_iter().next() else { return cx.anchor_missing(rule, "parse_flags") };
    let mut writes: Vec<String> = vec![];
    sm::for_each_expr_in_block(&f.block, |e| match e {
        syn::Expr::Binary(b) if sm::tsc(&b.left) == "flags" => {
            let op = sm::ts(&b.op);
            if op.ends_with('=') && !["==", "!=", "<=", ">="].contains(&op.as_str()) {
                writes.push(op);
            }
        }
        syn::Expr::Assign(a) if sm::tsc(&a.left) == "flags" => {
            let r = sm::tsc(&a.right);
            writes.push(if r.starts_with("flags|") || r.ends_with("|flags") { "|=".into() } else { format!("={}", r) });
        }
        syn::Expr::MethodCall(mc) if sm::tsc(&mc.receiver) == "flags" => {
            let m = mc.method.to_string();
            if ["insert", "set"].contains(&m.as_str()) {
                writes.push("|=".into());
            } else if ["toggle", "remove", "clear"].contains(&m.as_str()) {
                writes.push(m);
            }
        }
        _ => {}
    });
    if !writes.is_empty() && writes.iter().all(|w| w == "|=") {
        cx.ok(rule, &format!("parse_flags: {} write(s) of the flag set, all unions", writes.len()));
    } else {
        cx.fail(rule, &format!("{}/accumulate", rule), &src.loc(f), &format!("parse_flags writes the flag set with {:?}: a repeated flag character must keep the flag set (only `|=` / insert do)", writes));
    }
}


/// Interpret `consume_length(iter)` for every next character (all of ASCII, two non-ASCII characters, end of input):
/// it consumes exactly one character iff that character is h, l or L, and never more than one.
fn consume_length_semantics(f: &syn::ItemFn) -> Result<usize, String> {
    use crate::eval::{Machine, V};
    let pname = f.sig.inputs.first().and_then(|a| if let syn::FnArg::Typed(pt) = a { Some(sm::tsc(&pt.pat)) } else { None }).ok_or("no iterator parameter")?;
    let mut inputs: Vec<Option<char>> = (0u8..128).map(|b| Some(b as char)).collect();
    inputs.extend([Some('\u{e9}'), Some('\u{4e2d}'), None]);
    let n = inputs.len();
    for next in inputs {
        // the rest of the input repeats the same character: `%lld`, `%hhd`
        let consumed = std::cell::Cell::new(0usize);
        let methods = |recv: &V, m: &str, _args: &[V]| -> Option<V> {
            let item = |c: char| V::Tuple(vec![V::Int(consumed.get() as i128), V::Char(c as u32)]);
            match (recv, m) {
                (V::Enum(r), "peek") if *r == pname => Some(V::Opt(next.map(|c| Box::new(item(c))))),
                (V::Enum(r), "next") if *r == pname => {
                    let v = V::Opt(next.map(|c| Box::new(item(c))));
                    consumed.set(consumed.get() + 1);
                    Some(v)
                }
                (V::Char(c), "into") => Some(V::Char(*c)),
                _ => None,
            }
        };
        let mut mach = Machine::new(&methods);
        mach.eval_fn_body(&f.block).map_err(|e| format!("not interpretable ({})", e))?;
        let want = usize::from(matches!(next, Some('h' | 'l' | 'L')));
        if consumed.get() != want {
            return Err(format!("with next character {:?} (repeated) it consumes {} character(s), expected {}", next, consumed.get(), want));
        }
    }
    Ok(n)
}


/// B1: `%Ns` on bytes pads the bytes that are written.
fn bytes_padding(cx: &mut Ctx, src: &sm::Src) {
    let rule = "C19.B1";
    cx.rule(rule, "format_bytes pads what it writes: the slice whose length is subtracted from the field width, the slice that is copied into the result (both alignments and the no-width case) and the slice cut to the precision (`&bytes[..min(len, precision)]`) are one and the same local — so `%5.2s` pads the two bytes it keeps, not the argument's original length");
    cx.floor(rule, 1);
    let Some(f) = src.method("CFormatSpec", "format_bytes") else { return cx.anchor_missing(rule, "CFormatSpec::format_bytes") };
    let t = sm::tsc(&f.block);
    let cap = |re: &str| -> Vec<String> { regex::Regex::new(re).unwrap().captures_iter(&t).map(|c| c[1].to_string()).collect() };
    // the local cut to the precision
    let cut = cap(r"let(\w+)=matchself\.precision\{Some\(CFormatPrecision::Quantity\(CFormatQuantity::Amount\((?:\w+)\)\)\)=>&\w+\[\.\.(?:cmp::)?min\(\w+\.len\(\),\w+\)\],_=>\w+\}");
    let toks = sm::tsx(&f.block).toks;
    let mut measured: Vec<String> = vec![];
    let mut written: Vec<String> = vec![];
    for (i, tk) in toks.iter().enumerate() {
        let at = |k: usize| toks.get(i + k).map(|s| s.as_str()).unwrap_or("");
        // `.saturating_sub ( X . len ( ) )`
        if tk == "saturating_sub" && at(1) == "(" && at(3) == "." && at(4) == "len" {
            measured.push(at(2).to_string());
        }
        // `.extend_from_slice ( X )`
        if tk == "extend_from_slice" && at(1) == "(" && at(3) == ")" {
            written.push(at(2).to_string());
        }
        // `X . to_vec ( )`
        if tk == "to_vec" && i >= 2 && toks[i - 1] == "." {
            written.push(toks[i - 2].clone());
        }
    }
    let ok = cut.len() == 1 && measured.len() == 1 && written.len() == 3 && measured[0] == cut[0] && written.iter().all(|w| *w == cut[0]);
    if ok {
        cx.ok(rule, &format!("the precision-cut slice `{}` is measured for the padding and written in all three places", cut[0]));
    } else {
        cx.fail(rule, &format!("{}/format_bytes", rule), &src.loc(f), &format!("format_bytes: cut to the precision: {:?}; measured for the padding: {:?}; written: {:?} — these must be one local", cut, measured, written));
    }
}


/// K1: a specifier is keyed iff it has a mapping key, the empty key included.
fn keyed_specifiers(cx: &mut Ctx, src: &sm::Src) {
    use crate::eval::{Machine, V};
    let rule = "C19.K1";
    cx.rule(rule, "`%(key)s` specifiers: CFormatPart::has_key, interpreted on a literal part and on specifier parts without a mapping key, with the empty key `%()s` and with a non-empty key, is true exactly for the specifiers that carry a key (the empty one included: `'%()s' % {'': 1}` is keyed in Python); check_specifiers takes its keyed/positional decision from has_key of every specifier part");
    cx.floor(rule, 4);
    let Some(f) = src.method("CFormatPart", "has_key") else { return cx.anchor_missing(rule, "CFormatPart::has_key") };
    let none = |_: &V, _: &str, _: &[V]| -> Option<V> { None };
    let spec = |key: Option<&str>| -> V {
        let mut rec = std::collections::BTreeMap::new();
        rec.insert("mapping_key".to_string(), V::Opt(key.map(|k| Box::new(V::Str(k.to_string())))));
        V::Ctor("CFormatPart::Spec".into(), vec![V::Rec(rec)])
    };
    let cases: Vec<(&str, V, bool)> = vec![
        ("a literal part", V::Ctor("CFormatPart::Literal".into(), vec![V::Str("x".into())]), false),
        ("`%s`", spec(None), false),
        ("`%()s`", spec(Some("")), true),
        ("`%(name)s`", spec(Some("name")), true),
    ];
    let mut bad = vec![];
    for (name, v, want) in cases {
        let mut mach = Machine::new(&none);
        mach.set("self", v);
        match mach.eval_fn_body(&f.block) {
            Ok(V::Bool(b)) if b == want => cx.ok(rule, &format!("has_key({}) = {}", name, want)),
            Ok(o) => bad.push(format!("has_key({}) = {:?}, expected {}", name, o, want)),
            Err(e) => bad.push(format!("has_key({}) not interpretable ({})", name, e)),
        }
    }
    if !bad.is_empty() {
        cx.fail(rule, &format!("{}/has_key", rule), &src.loc(f), &bad.join("; "));
    }
    let t = sm::tsx(&src.file);
    if t.contains("ifpart.is_specifier(){lethas_key=part.has_key();") {
        cx.ok(rule, "check_specifiers asks has_key() of every specifier part");
    } else {
        cx.fail(rule, &format!("{}/check_specifiers", rule), &src.rel, "check_specifiers does not take the keyed/positional decision from has_key() of each specifier part");
    }
}


/// C19.Q2: both the width and the precision may be `*` (taken from the values tuple).
fn star_quantities(cx: &mut Ctx, src: &sm::Src) {
    let rule = "C19.Q2";
    cx.rule(rule, "`*` is a quantity in both places Python allows it: the function that reads the width (parse_quantity) and the function that reads the precision after the dot (parse_precision) each reach — in their own body or in a function of the file they call — the test for '*' that yields CFormatQuantity::FromValuesTuple; `%.*f` and `%*.*d` are valid specifiers");
    cx.floor(rule, 2);
    let fns = src.all_free_fns();
    let body = |name: &str| fns.iter().find(|f| f.sig.ident == name).map(|f| sm::tsc(&f.block));
    let has_star = |t: &str| t.contains("'*'") && t.contains("FromValuesTuple");
    for name in ["parse_quantity", "parse_precision"] {
        let Some(t) = body(name) else {
            cx.anchor_missing(rule, name);
            continue;
        };
        // own body, or a callee of the file (one or two levels)
        let mut reach = vec![t.clone()];
        for _ in 0..2 {
            let mut more = vec![];
            for f in &fns {
                let n = f.sig.ident.to_string();
                if n != name && reach.iter().any(|r| r.contains(&format!("{}(", n))) {
                    more.push(sm::tsc(&f.block));
                }
            }
            reach.extend(more);
        }
        if reach.iter().any(|r| has_star(r)) {
            cx.ok(rule, &format!("{} reaches the '*' => FromValuesTuple test", name));
        } else {
            cx.fail(rule, &format!("{}/{}", rule, name), &src.rel, &format!("{} never tests for '*': a `*` {} is not taken from the values tuple (`%.*f`, `%*d` rejected or misread)", name, if name == "parse_precision" { "precision" } else { "width" }));
        }
    }
}
