//! C08 — layout never changes the tree: position-blind and paren-blind parser, layout produces no tokens,
//! one normalising consumer.

use crate::report::Ctx;
use crate::rules::lexer_rules as lr;
use crate::rules::units;
use crate::srcmodel::{self as sm};
use crate::tables;

pub fn run(cx: &mut Ctx) {
    if let Some(facts) = units::load_facts(cx, "C08.B1") {
        units::position_comparisons(cx, "C08.B1", &facts);
    }
    for (label, f) in units::extra_facts(cx, "C08.B1") {
        units::position_comparisons(cx, &format!("C08.B1@{}", label), &f);
    }
    token_payloads(cx);
    // the paren-transparency rule reads the grammar: python.rs must be what that grammar generates
    crate::g1::run(cx, "C08.G1");
    paren_transparency(cx);
    lr::skip_set(cx, "C08.W1");
    lr::indentation_counters(cx, "C08.W2");
    lr::byte_accounting_mode(cx, "C08.N1", lr::Acct::Folding);
    lr::newline_guards(cx, "C08.I2");
    lr::indent_pairing(cx, "C08.I1");
    crate::rules::c01::soft_keywords_pub(cx, "C08.S1");
    crate::rules::c10::kind_set_agreement_pub(cx, "C08.S2");
    line_ending_in_strings(cx);
    line_break_classes(cx);
    tab_space_comparison(cx);
}

fn tab_space_comparison(cx: &mut Ctx) {
    let rule = "C08.T1";
    cx.rule(rule, "how deep a line is indented is compared by direction only: compare_strict, interpreted over the 3 x 3 partition of (tabs, spaces) directions, returns the spaces' direction for equal tabs, the tabs' direction when the spaces do not point the other way, and TabError exactly in the two mixed-direction cells — so re-indenting a block with more tabs AND more spaces (or fewer of both) is accepted like any other consistent indentation");
    cx.floor(rule, 1);
    let Some(lx) = lr::load_lexer(cx, rule) else { return };
    crate::rules::c04::compare_strict_partition(cx, rule, &lx);
}

fn token_payloads(cx: &mut Ctx) {
    let rule = "C08.B2";
    cx.rule(rule, "tokens carry no layout: Newline, Indent and Dedent are unit variants and no Tok variant has a payload of a position, width or line-ending type (the only payloads are name/number/string values, the string kind and triple-quote flag, and comment text under full-lexer)");
    cx.floor(rule, 5);
    let t = match sm::load(&cx.repo, "parser/src/token.rs") {
        Ok(s) => s,
        Err(e) => return cx.anchor_missing(rule, &e),
    };
    let Some(en) = t.enum_named("Tok") else { return cx.anchor_missing(rule, "enum Tok") };
    let allowed: std::collections::BTreeMap<&str, &str> = [("Name", "{name:String}"), ("Int", "{value:BigInt}"), ("Float", "{value:f64}"), ("Complex", "{real:f64,imag:f64}"), ("String", "{value:String,kind:StringKind,triple_quoted:bool}"), ("Comment", "(String)")].into_iter().collect();
    for v in &en.variants {
        let name = v.ident.to_string();
        let payload = match &v.fields {
            syn::Fields::Named(n) => format!("{{{}}}", n.named.iter().map(|f| format!("{}:{}", f.ident.as_ref().unwrap(), sm::tsc(&f.ty))).collect::<Vec<_>>().join(",")),
            syn::Fields::Unnamed(u) => format!("({})", u.unnamed.iter().map(|f| sm::tsc(&f.ty)).collect::<Vec<_>>().join(",")),
            syn::Fields::Unit => String::new(),
        };
        match (&v.fields, allowed.get(name.as_str())) {
            (syn::Fields::Unit, None) => cx.ok_trivial(rule),
            (_, Some(w)) if payload == *w => cx.ok(rule, &format!("Tok::{}{}", name, payload)),
            _ => cx.fail(rule, &format!("{}/{}", rule, name), &t.loc(v), &format!("Tok::{} carries the payload `{}`: tokens could now differ between layouts of the same program", name, payload)),
        }
    }
    for u in ["Newline", "Indent", "Dedent"] {
        if en.variants.iter().any(|v| v.ident == u && matches!(v.fields, syn::Fields::Unit)) {
            cx.ok(rule, &format!("Tok::{} is a unit variant", u));
        } else {
            cx.fail(rule, &format!("{}/{}/unit", rule, u), &t.rel, &format!("Tok::{} is not a unit variant", u));
        }
    }
}

fn paren_transparency(cx: &mut Ctx) {
    let rule = "C08.B3";
    cx.rule(rule, "redundant parentheses leave no trace: the AST has no parenthesis node, the parenthesised Atom alternatives return the inner node unchanged, and the only flag computed from a child's kind through a paren-transparent nonterminal is the tabled C01.D2 (AnnAssign.simple, excepted by the property)");
    cx.floor(rule, 3);
    let g = match tables::load_grammar(&cx.repo) {
        Ok(g) => g,
        Err(e) => return cx.anchor_missing(rule, &e),
    };
    // acceptance must not depend on redundant parentheses: every context accepts the reviewed expression level
    crate::rules::grammar_rules::expr_wiring(cx, &g, "C08.E1");
    if let Ok(generic) = sm::load(&cx.repo, "ast/src/gen/generic.rs") {
        let model = crate::astmodel::load(&generic);
        let paren_like: Vec<&String> = model.enums.get("Expr").map(|e| e.variants.iter().map(|v| &v.0).filter(|v| v.contains("Paren") || v.contains("Group")).collect()).unwrap_or_default();
        if paren_like.is_empty() {
            cx.ok(rule, "Expr has no parenthesis/group variant");
        } else {
            cx.fail(rule, &format!("{}/paren-node", rule), &generic.rel, &format!("Expr has parenthesis-like variants {:?}", paren_like));
        }
    }
    // reuse D2's scan: flags from kind tests
    let mut sub = Ctx::new("C08", &cx.tier, cx.repo.clone(), cx.verif.clone());
    crate::rules::grammar_rules::paren_sensitive_flags(&mut sub, &g);
    let mut others = 0;
    for f in &sub.findings {
        if f.key == "C01.D2/StmtAnnAssign.simple" {
            cx.assume("AnnAssign.simple is computed from target.is_name_expr(): the property excepts this flag; the deviation from the reference for `(x): int` is recorded under C01.D2");
        } else if f.key.starts_with("C01.D2/") && !f.key.ends_with("/floor") {
            others += 1;
            cx.fail(rule, &f.key.replacen("C01.D2", rule, 1), &f.loc, &f.msg);
        }
    }
    if others == 0 {
        cx.ok(rule, "no AST flag other than the excepted AnnAssign.simple depends on a child's kind through the parenthesised atom");
    }
    if sub.discharged.get("C01.D2").copied().unwrap_or(0) >= 1 {
        cx.ok(rule, "the parenthesised Atom alternatives return the inner node unchanged");
    } else {
        cx.fail(rule, &format!("{}/paren-transparent", rule), "parser/src/python.lalrpop", "the parenthesised Atom alternatives could not be confirmed to return the inner node");
    }
}

fn line_ending_in_strings(cx: &mut Ctx) {
    let rule = "C08.N2";
    cx.rule(rule, "CR / CR LF are folded to one LF for every consumer, also inside string literals: lex_string, lex_comment, radix_run, lex_identifier and the arms of consume_character obtain characters only through next_char() (window slots are only inspected), so no lexing function can observe a raw CR");
    cx.floor(rule, 1);
    let Some(lx) = lr::load_lexer(cx, rule) else { return };
    let mut bad = vec![];
    for (f, _) in lr::lexer_methods(&lx) {
        let name = f.sig.ident.to_string();
        if name == "next_char" || name == "new" {
            continue;
        }
        let t = sm::tsx(&f.block);
        if t.contains("self.window.slide()") || t.contains("self.window.source") || t.contains("self.window.window") {
            bad.push(name);
        }
    }
    if bad.is_empty() {
        cx.ok(rule, "only next_char()/new() take characters out of the window; every other function inspects window slots and consumes through next_char()");
    } else {
        cx.fail(rule, &format!("{}/raw-consumers", rule), &lx.rel, &format!("{:?} take characters from the window without next_char(): they see raw CR / CR LF", bad));
    }
}


/// C08.N3: wherever the raw window is tested for a line break, LF and a lone CR are treated alike.
fn line_break_classes(cx: &mut Ctx) {
    use crate::eval::{Machine, V};
    let rule = "C08.N3";
    cx.rule(rule, "the three line-ending conventions reach the same code: every `match` on raw window slots (`self.window[0]`, `[1]`, `[..2]`, `[..3]`, and the dispatch character of consume_character) whose patterns mention '\\n' or '\\r' selects the same arm for a window with LF at some slot and for the same window with a lone CR there (CR LF is one line break and is folded by next_char(), which alone may tell the conventions apart); decided by evaluating the arm patterns on all windows over {LF, CR, a letter, end of input}");
    cx.floor(rule, 4);
    let Some(lx) = lr::load_lexer(cx, rule) else { return };
    let none = |_: &V, _: &str, _: &[V]| -> Option<V> { None };
    for (f, _) in lr::lexer_methods(&lx) {
        let fname = f.sig.ident.to_string();
        if fname == "next_char" || fname == "new" {
            continue;
        }
        let dispatch_param: Option<String> = if fname == "consume_character" { f.sig.inputs.iter().nth(1).and_then(|a| if let syn::FnArg::Typed(pt) = a { Some(sm::tsc(&pt.pat)) } else { None }) } else { None };
        let mut matches: Vec<&syn::ExprMatch> = vec![];
        sm::for_each_expr_in_block(&f.block, |e| {
            if let syn::Expr::Match(m) = e {
                matches.push(m);
            }
        });
        let mut k = 0usize;
        for m in matches.iter() {
            let scrut = sm::tsc(&m.expr);
            let width: Option<(usize, bool)> = match scrut.as_str() {
                "self.window[0]" | "self.window[1]" | "self.window[2]" => Some((1, true)),
                "self.window[..2]" => Some((2, true)),
                "self.window[..3]" | "self.window[..]" => Some((3, true)),
                s if Some(s.to_string()) == dispatch_param => Some((1, false)),
                _ => None,
            };
            let Some((width, optional)) = width else { continue };
            let mentions = m.arms.iter().any(|a| {
                let t = sm::tsc(&a.pat);
                t.contains("'\\n'") || t.contains("'\\r'")
            });
            if !mentions {
                continue;
            }
            // alphabet per slot
            let alpha: Vec<Option<char>> = if optional { vec![Some('\n'), Some('\r'), Some('a'), None] } else { vec![Some('\n'), Some('\r'), Some('a')] };
            let mut windows: Vec<Vec<Option<char>>> = vec![vec![]];
            for _ in 0..width {
                windows = windows.into_iter().flat_map(|w| alpha.iter().map(move |c| { let mut x = w.clone(); x.push(*c); x })).collect();
            }
            let val = |w: &Vec<Option<char>>| -> V {
                let slot = |c: &Option<char>| if optional { V::Opt(c.map(|c| Box::new(V::Char(c as u32)))) } else { V::Char(c.unwrap() as u32) };
                if width == 1 { slot(&w[0]) } else { V::List(w.iter().map(slot).collect()) }
            };
            let arm_of = |w: &Vec<Option<char>>| -> Result<String, String> {
                let v = val(w);
                for (i, a) in m.arms.iter().enumerate() {
                    let mut mach = Machine::new(&none);
                    if mach.pat_matches(&a.pat, &v)? {
                        // a guarded arm that mentions no line break is transparent for this rule; one that does is not decidable here
                        if a.guard.is_some() {
                            return Ok(format!("{}?", i));
                        }
                        return Ok(i.to_string());
                    }
                }
                Ok("none".into())
            };
            k += 1;
            let key = format!("{}/{}/{}#{}", rule, fname, scrut, k);
            let mut bad: Vec<String> = vec![];
            let mut err: Option<String> = None;
            'w: for w in &windows {
                for i in 0..width {
                    if w[i] != Some('\n') {
                        continue;
                    }
                    let mut w2 = w.clone();
                    w2[i] = Some('\r');
                    if i + 1 < width && w2[i + 1] == Some('\n') {
                        continue; // CR LF: one line break, a different window
                    }
                    match (arm_of(w), arm_of(&w2)) {
                        (Ok(a), Ok(b)) => {
                            if a != b {
                                bad.push(format!("{:?} -> arm {}, {:?} -> arm {}", w, a, w2, b));
                            }
                        }
                        (Err(e), _) | (_, Err(e)) => {
                            err = Some(e);
                            break 'w;
                        }
                    }
                }
            }
            if let Some(e) = err {
                cx.fail(rule, &format!("{}/uninterpretable", key), &lx.loc(&m.expr), &format!("{}: the patterns of the match on {} cannot be evaluated ({})", fname, scrut, e));
            } else if bad.is_empty() {
                cx.ok(rule, &format!("{}: match on {} treats LF and a lone CR alike ({} windows)", fname, scrut, windows.len()));
            } else {
                bad.truncate(3);
                cx.fail(rule, &key, &lx.loc(&m.expr), &format!("{}: the match on {} tells a lone CR from LF: {}: the same program with another line-ending convention lexes differently", fname, scrut, bad.join("; ")));
            }
        }
    }
}
